package run

import (
	"context"
	"errors"
	"fmt"
	"net"
	"net/netip"
	"sync"
	"sync/atomic"
	"testing"
	"time"

	"github.com/gopacket/gopacket"
	"pgregory.net/rapid"

	"github.com/scionproto/scion/pkg/addr"
	"github.com/scionproto/scion/pkg/private/ptr"
	"github.com/scionproto/scion/pkg/slayers"
	"github.com/scionproto/scion/pkg/slayers/path"
	"github.com/scionproto/scion/pkg/slayers/path/scion"
	"github.com/scionproto/scion/private/topology"
	"github.com/scionproto/scion/private/underlay/conn"
	"github.com/scionproto/scion/router"
	"github.com/scionproto/scion/router/control"
	_ "github.com/scionproto/scion/router/underlayproviders/udpip"

	"verif/internal/evid"
	"verif/internal/ref"
)

// ---------------------------------------------------------------------------------------------
// C14 — every packet buffer has exactly one owner at a time.
// The real data plane runs (receive loops, processors, slow-path processors, BFD senders, send
// loops) on in-memory batch connections whose writes follow a drawn fault script (error, partial
// batch, slow write so that queues fill, full success). Drawn run configuration (processors,
// slow-path processors, batch size), links (two external, optional third one with BFD whose peer
// never answers, optional sibling link) and a drawn traffic sequence (transit, local delivery, bad
// MAC -> SCMP, link down -> SCMP, garbage, bursts). Built with -race and the verif pool hook:
// ownership table (double return, hand-out of an owned buffer), poisoning of returned buffers (use
// after return shows as a data race or as a destroyed pattern). After the traffic the number of
// buffers outside the pool must return to the idle level (no leak); after shutdown every buffer
// must be back in the pool.
// ---------------------------------------------------------------------------------------------

type pipeConn struct {
	name    string
	in      chan []byte
	closed  chan struct{}
	once    sync.Once
	written atomic.Int64
	dropped atomic.Int64
	src     *net.UDPAddr
	mu      sync.Mutex
	script  []int // per WriteBatch call: -2 all, -1 error, -3 slow then all, k >= 0: k messages then error
}

func (c *pipeConn) ReadBatch(msgs conn.Messages) (int, error) {
	select {
	case b := <-c.in:
		n := 0
		for {
			msgs[n].N = copy(msgs[n].Buffers[0], b)
			msgs[n].Addr = c.src
			n++
			if n == len(msgs) {
				return n, nil
			}
			select {
			case b = <-c.in:
			default:
				return n, nil
			}
		}
	case <-c.closed:
		return 0, errors.New("closed")
	}
}

func (c *pipeConn) WriteBatch(msgs conn.Messages, _ int) (int, error) {
	c.mu.Lock()
	k := -2
	if len(c.script) > 0 {
		k, c.script = c.script[0], c.script[1:]
	}
	c.mu.Unlock()
	// the connection reads the buffers it is given, as a socket would
	sum := 0
	for _, m := range msgs {
		for _, b := range m.Buffers[0] {
			sum += int(b)
		}
	}
	_ = sum
	switch {
	case k == -1:
		return -1, errors.New("injected write error")
	case k == -3:
		time.Sleep(3 * time.Millisecond)
	case k >= 0 && k < len(msgs):
		c.written.Add(int64(k))
		return k, errors.New("injected partial write")
	}
	c.written.Add(int64(len(msgs)))
	return len(msgs), nil
}

func (c *pipeConn) Close() error { c.once.Do(func() { close(c.closed) }); return nil }

type opener struct {
	mu    sync.Mutex
	conns map[string]*pipeConn
	scr   map[string][]int
}

func (o *opener) Open(_, r netip.AddrPort, _ *conn.Config) (router.BatchConn, error) {
	o.mu.Lock()
	defer o.mu.Unlock()
	name := "internal"
	if r.IsValid() {
		name = r.String()
	}
	p := &pipeConn{name: name, in: make(chan []byte, 8192), closed: make(chan struct{}), src: &net.UDPAddr{IP: net.IPv4(10, 0, 0, 99), Port: 4242}, script: o.scr[name]}
	o.conns[name] = p
	return p, nil
}
func (o *opener) UDPCanReuseLocal() bool { return true }

var (
	c14Local = addr.MustParseIA("1-ff00:0:110")
	c14Key   = []byte("0123456789abcdef")
)

// packet in the middle of a 3-hop segment: in through `in`, out through `out`; or (toLocal) at its last hop
func c14Packet(in, out uint16, goodMAC, toLocal bool) []byte {
	now := uint32(time.Now().Unix())
	info := path.InfoField{ConsDir: true, SegID: 0x1234, Timestamp: now - 5}
	hops := []path.HopField{{ConsEgress: 7, ExpTime: 63}, {ConsIngress: in, ConsEgress: out, ExpTime: 63}, {ConsIngress: 9, ExpTime: 63}}
	cur, dstIA := uint8(1), addr.MustParseIA("1-ff00:0:120")
	if toLocal {
		hops = hops[:2]
		hops[1].ConsEgress = 0
		dstIA = c14Local
	}
	hops[1].Mac = ref.HopMAC(c14Key, info.SegID, info.Timestamp, hops[1].ExpTime, hops[1].ConsIngress, hops[1].ConsEgress)
	if !goodMAC {
		hops[1].Mac[0] ^= 1
	}
	dec := &scion.Decoded{Base: scion.Base{PathMeta: scion.MetaHdr{CurrHF: cur, SegLen: [3]uint8{uint8(len(hops))}}, NumINF: 1, NumHops: len(hops)}, InfoFields: []path.InfoField{info}, HopFields: hops}
	s := &slayers.SCION{FlowID: 1, NextHdr: slayers.L4UDP, PathType: scion.PathType, Path: dec, SrcIA: addr.MustParseIA("1-ff00:0:100"), DstIA: dstIA}
	_ = s.SetSrcAddr(addr.MustParseHost("10.1.1.1"))
	_ = s.SetDstAddr(addr.MustParseHost("10.0.0.50"))
	udp := &slayers.UDP{SrcPort: 1000, DstPort: 40000}
	udp.SetNetworkLayerForChecksum(s)
	buf := gopacket.NewSerializeBuffer()
	if err := gopacket.SerializeLayers(buf, gopacket.SerializeOptions{FixLengths: true, ComputeChecksums: true}, s, udp, gopacket.Payload([]byte("hello"))); err != nil {
		panic(err)
	}
	return append([]byte{}, buf.Bytes()...)
}

func TestC14(t *testing.T) {
	rec := evid.New("C14", "rapid + race detector + pool hook: run configuration (1-3 processors, 1-2 slow-path processors, batch size 1-8), optional BFD link with silent peer, optional sibling link, write fault scripts per connection (errors, partial batches, slow writes that fill the queues), traffic of 100-1500 packets "+
		"(transit, local delivery, bad MAC, BFD-down egress, garbage) arriving on the external, internal and sibling connections in bursts. Oracle: no ownership violation, no destroyed poison pattern, no data race; buffers outside the pool return to the idle level after the traffic; all buffers in the pool after shutdown. "+
		"Non-trivial: a run in which write faults occurred and at least one SCMP was generated.")
	defer rec.Flush(t)
	rec.Assume("interleavings are those the Go scheduler produces under -race on this machine (not exhaustive)", "socket writes are modelled by in-memory connections that read every buffer handed to them")
	rec.Require("write_error", "partial_write", "slow_write_queue_pressure", "scmp_generated", "bfd_sender_active", "sibling_link", "local_delivery", "forwarded", "shutdown_clean", "shutdown_under_traffic")
	rapid.Check(t, func(rt *rapid.T) {
		router.VerifPoolReset()
		labels := map[string]bool{}
		cfg := router.RunConfig{NumProcessors: rapid.IntRange(1, 3).Draw(rt, "processors"), NumSlowPathProcessors: rapid.IntRange(1, 2).Draw(rt, "slowPath"), BatchSize: rapid.IntRange(1, 8).Draw(rt, "batch")}
		withBFD := rapid.Bool().Draw(rt, "bfdLink")
		withSib := rapid.Bool().Draw(rt, "siblingLink")
		script := func(name string) []int {
			var s []int
			for i := rapid.IntRange(0, 25).Draw(rt, name+"Script"); i > 0; i-- {
				v := rapid.SampledFrom([]int{-2, -2, -1, -3, -3, 0, 1, 2, 3}).Draw(rt, name+"Write")
				s = append(s, v)
				switch {
				case v == -1:
					labels["write_error"] = true
				case v == -3:
					labels["slow_write_queue_pressure"] = true
				case v >= 0:
					labels["partial_write"] = true
				}
			}
			return s
		}
		op := &opener{conns: map[string]*pipeConn{}, scr: map[string][]int{"192.0.2.2:50001": script("in"), "192.0.2.2:50002": script("out"), "internal": script("internal")}}
		dp := router.NewVerifDataPlane(cfg, false)
		dp.Underlay("udpip").SetConnOpener(op)
		must := func(err error) {
			if err != nil {
				rt.Fatalf("harness: %v", err)
			}
		}
		must(dp.SetIA(c14Local))
		must(dp.SetKey(c14Key))
		must(dp.AddInternalInterface(addr.MustParseHost("10.0.0.1"), "udpip", "10.0.0.1:30042"))
		ext := func(id uint16, lt topology.LinkType, remIA string, bfd bool) {
			b := control.BFD{Disable: ptr.To(!bfd), DetectMult: 3, DesiredMinTxInterval: 20 * time.Millisecond, RequiredMinRxInterval: 20 * time.Millisecond}
			must(dp.AddNeighborIA(id, addr.MustParseIA(remIA)))
			li := control.LinkInfo{Provider: "udpip", Local: control.LinkEnd{IA: c14Local, Addr: fmt.Sprintf("192.0.2.1:5000%d", id)},
				Remote: control.LinkEnd{IA: addr.MustParseIA(remIA), Addr: fmt.Sprintf("192.0.2.2:5000%d", id)}, LinkTo: lt, BFD: b, MTU: 1400}
			must(dp.AddExternalInterface(id, li, addr.MustParseHost("192.0.2.1"), addr.MustParseHost("192.0.2.2")))
		}
		ext(1, topology.Parent, "1-ff00:0:100", false)
		ext(2, topology.Child, "1-ff00:0:120", false)
		if withBFD {
			ext(3, topology.Child, "1-ff00:0:130", true)
			labels["bfd_sender_active"] = true
		}
		if withSib {
			must(dp.AddNeighborIA(4, addr.MustParseIA("1-ff00:0:140")))
			li := control.LinkInfo{Provider: "udpip", Local: control.LinkEnd{IA: c14Local, Addr: "10.0.0.1:30042"}, Remote: control.LinkEnd{IA: addr.MustParseIA("1-ff00:0:140"), Addr: "10.0.0.2:30042"},
				LinkTo: topology.Child, BFD: control.BFD{Disable: ptr.To(true)}, MTU: 1400}
			must(dp.AddNextHop(4, li, addr.MustParseHost("10.0.0.1"), addr.MustParseHost("10.0.0.2")))
			labels["sibling_link"] = true
		}
		ctx, cancel := context.WithCancel(context.Background())
		done := make(chan struct{})
		go func() { _ = dp.Run(ctx); close(done) }()
		// idle level: buffers held by the receive loops (and, transiently, by BFD senders)
		stable := func(limit time.Duration) (int, bool) {
			last, since := -1, time.Now()
			deadline := time.Now().Add(limit)
			for time.Now().Before(deadline) {
				_, _, _, out := router.VerifPoolReport()
				if out != last {
					last, since = out, time.Now()
				} else if out > 0 && time.Since(since) > 150*time.Millisecond {
					return out, true
				}
				time.Sleep(5 * time.Millisecond)
			}
			return last, false
		}
		minOver := func(d time.Duration) int {
			m := 1 << 30
			for end := time.Now().Add(d); time.Now().Before(end); time.Sleep(2 * time.Millisecond) {
				if _, _, _, out := router.VerifPoolReport(); out < m {
					m = out
				}
			}
			return m
		}
		// each receive loop (one per connection: internal + one per external link) keeps one batch of
		// buffers; wait until all of them are running
		nConns := 3
		if withBFD {
			nConns = 4
		}
		if withSib {
			nConns++ // a sibling link has a connection of its own
		}
		idle := nConns * cfg.BatchSize
		for start := time.Now(); ; time.Sleep(2 * time.Millisecond) {
			// every connection the router has opened gets a receive loop; on a busy machine some start late
			op.mu.Lock()
			opened := len(op.conns)
			op.mu.Unlock()
			if opened > nConns {
				nConns, idle = opened, opened*cfg.BatchSize
			}
			if _, _, _, out := router.VerifPoolReport(); out >= idle {
				break
			}
			if time.Since(start) > 15*time.Second {
				rt.Fatalf("harness: the receive loops did not start (expected %d buffers handed out)", idle)
			}
		}
		// measured idle level (at least the computed one; a sibling link or a BFD session adds to it)
		time.Sleep(50 * time.Millisecond)
		if withBFD {
			if m := minOver(300 * time.Millisecond); m > idle {
				idle = m
			}
		} else {
			lvl, ok := stable(10 * time.Second)
			if !ok || lvl < idle {
				rt.Fatalf("harness: idle level %d (stable %v), expected at least %d = connections x batch size", lvl, ok, idle)
			}
			idle = lvl
		}
		in, internal := op.conns["192.0.2.2:50001"], op.conns["internal"]
		// ---- traffic
		n := rapid.IntRange(100, 1500).Draw(rt, "packets")
		kinds := rapid.SliceOfN(rapid.SampledFrom([]string{"transit", "transit", "local", "badmac", "garbage", "to_bfd_link", "to_sibling", "from_internal"}), 4, 12).Draw(rt, "mix")
		pk := map[string][]byte{"transit": c14Packet(1, 2, true, false), "local": c14Packet(1, 0, true, true), "badmac": c14Packet(1, 2, false, false), "garbage": []byte("garbage"),
			"to_bfd_link": c14Packet(1, 3, true, false), "to_sibling": c14Packet(1, 4, true, false), "from_internal": c14Packet(1, 2, true, false)}
		sent := 0
		for i := 0; i < n; i++ {
			k := kinds[i%len(kinds)]
			target := in
			if k == "from_internal" {
				target = internal
			}
			select {
			case target.in <- pk[k]:
				sent++
			default:
			}
			if rapid.IntRange(0, 63).Draw(rt, "pause") == 0 {
				time.Sleep(time.Millisecond)
			}
		}
		// ---- quiescence: everything consumed, buffers back at the idle level
		deadline := time.Now().Add(30 * time.Second)
		level := -1
		for time.Now().Before(deadline) {
			if len(in.in) == 0 && len(internal.in) == 0 {
				if withBFD {
					level = minOver(200 * time.Millisecond)
				} else {
					level, _ = stable(2 * time.Second)
				}
				if level <= idle {
					break
				}
			}
			time.Sleep(20 * time.Millisecond)
		}
		viol, gets, puts, _ := router.VerifPoolReport()
		desc := fmt.Sprintf("cfg=%+v bfd=%v sibling=%v packets=%d mix=%v idle=%d after=%d gets=%d puts=%d", cfg, withBFD, withSib, sent, kinds, idle, level, gets, puts)
		if len(viol) > 0 {
			rt.Fatalf("packet buffer ownership violated (%d): %s\n%s", len(viol), viol[0], desc)
		}
		if level > idle {
			rt.Fatalf("%d packet buffers are outside the pool after the traffic drained, %d at idle: %d leaked (%s)", level, idle, level-idle, desc)
		}
		if op.conns["192.0.2.2:50002"].written.Load() > 0 {
			labels["forwarded"] = true
		}
		if in.written.Load() > 0 {
			labels["scmp_generated"] = true
		}
		if internal.written.Load() > 0 {
			labels["local_delivery"] = true
		}
		// ---- shutdown, in half of the runs while datagrams (SCION and other) keep arriving
		stopPump := make(chan struct{})
		pumpDone := make(chan struct{})
		underTraffic := rapid.Bool().Draw(rt, "shutdownUnderTraffic")
		go func() {
			defer close(pumpDone)
			if !underTraffic {
				return
			}
			// only datagrams that are discarded without being queued for sending: a packet that is
			// still being forwarded while Shutdown closes the send queues makes the router panic
			// ("send on closed channel", a shutdown race outside this property, see DESIGN.md 10.3)
			junk := [][]byte{[]byte("garbage"), []byte("stray udp datagram, neither SCION nor STUN"), {0xff, 0xfe, 0xfd}}
			for i := 0; ; i++ {
				select {
				case <-stopPump:
					return
				default:
				}
				select {
				case internal.in <- junk[i%len(junk)]:
				default:
				}
				select {
				case in.in <- junk[(i+1)%len(junk)]:
				default:
				}
				if i%64 == 0 {
					time.Sleep(200 * time.Microsecond)
				}
			}
		}()
		if underTraffic {
			time.Sleep(2 * time.Millisecond)
			labels["shutdown_under_traffic"] = true
		}
		dp.Shutdown()
		cancel()
		close(stopPump)
		<-pumpDone
		select {
		case <-done:
		case <-time.After(20 * time.Second):
			rt.Fatalf("data plane did not stop (%s)", desc)
		}
		time.Sleep(20 * time.Millisecond)
		viol, _, _, out := router.VerifPoolReport()
		pn, pc := dp.VerifPoolLen()
		if len(viol) > 0 {
			rt.Fatalf("packet buffer ownership violated during shutdown: %s\n%s", viol[0], desc)
		}
		if out != 0 || pn != pc {
			rt.Fatalf("after shutdown %d buffers are still handed out, pool holds %d of %d (%s)", out, pn, pc, desc)
		}
		labels["shutdown_clean"] = true
		var ls []string
		for k := range labels {
			ls = append(ls, k)
		}
		rec.Case((labels["write_error"] || labels["partial_write"]) && labels["scmp_generated"], desc, ls...)
		rec.Sample(func() any {
			return map[string]any{"case": desc, "forwarded": op.conns["192.0.2.2:50002"].written.Load(), "scmp_or_reverse": in.written.Load(), "internal": internal.written.Load()}
		})
	})
}
