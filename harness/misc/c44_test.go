package misc

import (
	"bytes"
	"fmt"
	"net/netip"
	"testing"

	"github.com/gopacket/gopacket"
	"pgregory.net/rapid"

	"github.com/scionproto/scion/dispatcher"
	"github.com/scionproto/scion/pkg/addr"
	"github.com/scionproto/scion/pkg/slayers"
	"github.com/scionproto/scion/pkg/slayers/path"
	"github.com/scionproto/scion/pkg/slayers/path/scion"

	"verif/internal/evid"
)

// ---------------------------------------------------------------------------------------------
// C44 — the shim dispatcher never reflects traffic to unintended hosts.
// The real Server.processMsgNextHop (verif hook) on one long-lived server object per case (as in the
// running dispatcher) receives 1-5 datagrams: well-formed UDP / SCMP (echo, traceroute, their
// replies, errors quoting UDP / echo / traceroute / an SCMP error / a truncated quote, unknown
// types) / other L4, to IPv4, IPv6 or service destinations, optionally behind hop-by-hop and
// end-to-end extension headers, with the outer IP destination equal to the SCION destination or
// not, dispatcher function on and off; and structured mutants of those bytes.
// Oracle, well-formed: exact expected next hop (or drop) and, for echo/traceroute requests, the
// content of the reply (type, identifier, addresses swapped, path reversed). Oracle, any bytes
// (safety): a forwarded datagram goes only to the outer IP destination, which must equal the host
// in the SCION destination field (or the registered service address) read from the raw header;
// anything answered goes to the previous hop; with the function off nothing is forwarded.
// ---------------------------------------------------------------------------------------------

var (
	c44Local  = addr.MustParseIA("1-ff00:0:2")
	c44Remote = addr.MustParseIA("1-ff00:0:1")
	c44Svc    = netip.MustParseAddrPort("10.2.2.2:30252")
	c44Prev   = netip.MustParseAddrPort("10.9.9.9:30042")
)

func c44SCION(dst, src addr.Host, l4 slayers.L4ProtocolType, ext int) []gopacket.SerializableLayer {
	dec := &scion.Decoded{Base: scion.Base{PathMeta: scion.MetaHdr{CurrHF: 4, CurrINF: 1, SegLen: [3]uint8{2, 3, 0}}, NumINF: 2, NumHops: 5},
		InfoFields: []path.InfoField{{ConsDir: false, SegID: 1, Timestamp: 100}, {ConsDir: true, SegID: 2, Timestamp: 200}},
		HopFields:  []path.HopField{{ConsIngress: 1, ExpTime: 1}, {ConsEgress: 2, ExpTime: 2}, {ConsEgress: 3, ExpTime: 3}, {ConsIngress: 4, ConsEgress: 5, ExpTime: 4}, {ConsIngress: 6, ExpTime: 5}}}
	s := &slayers.SCION{FlowID: 1, NextHdr: l4, PathType: scion.PathType, Path: dec, SrcIA: c44Remote, DstIA: c44Local}
	_ = s.SetSrcAddr(src)
	_ = s.SetDstAddr(dst)
	ls := []gopacket.SerializableLayer{s}
	if ext&1 != 0 {
		s.NextHdr = slayers.HopByHopClass
		h := &slayers.HopByHopExtn{}
		h.NextHdr = l4
		h.Options = []*slayers.HopByHopOption{{OptType: 77, OptData: []byte{1, 2, 3, 4}}}
		if ext&2 != 0 {
			h.NextHdr = slayers.End2EndClass
		}
		ls = append(ls, h)
	}
	if ext&2 != 0 {
		if ext&1 == 0 {
			s.NextHdr = slayers.End2EndClass
		}
		e := &slayers.EndToEndExtn{}
		e.NextHdr = l4
		e.Options = []*slayers.EndToEndOption{{OptType: 78, OptData: []byte{9, 9}}}
		ls = append(ls, e)
	}
	return ls
}

func c44Ser(ls ...gopacket.SerializableLayer) ([]byte, error) {
	buf := gopacket.NewSerializeBuffer()
	if err := gopacket.SerializeLayers(buf, gopacket.SerializeOptions{FixLengths: true, ComputeChecksums: true}, ls...); err != nil {
		return nil, err
	}
	return append([]byte{}, buf.Bytes()...), nil
}

// rawDst reads the destination ISD-AS and host from the raw SCION header (no decoder involved).
func c44RawDst(b []byte) (ia addr.IA, host netip.Addr, svc uint16, kind string) {
	if len(b) < 36 {
		return 0, netip.Addr{}, 0, "short"
	}
	ia = addr.IA(uint64(b[12])<<56 | uint64(b[13])<<48 | uint64(b[14])<<40 | uint64(b[15])<<32 | uint64(b[16])<<24 | uint64(b[17])<<16 | uint64(b[18])<<8 | uint64(b[19]))
	dt, dl := b[9]>>6, b[9]>>4&3
	n := 4 * (int(dl) + 1)
	if len(b) < 28+n {
		return ia, netip.Addr{}, 0, "short"
	}
	// the raw destination bytes read as an IP address (what the dispatcher does for SCMP messages
	// whatever the type bits say; such a datagram still only reaches the outer IP destination)
	if n == 4 || n == 16 {
		host, _ = netip.AddrFromSlice(b[28 : 28+n])
	}
	switch {
	case dt == 0 && (dl == 0 || dl == 3):
		return ia, host, 0, "ip"
	case dt == 1 && dl == 0:
		return ia, host, uint16(b[28])<<8 | uint16(b[29]), "svc"
	}
	return ia, host, 0, "other"
}

func TestC44(t *testing.T) {
	rec := evid.New("C44", "rapid: 1-5 datagrams per long-lived server; message kinds (UDP, echo/traceroute request and reply, SCMP error quoting UDP / echo / traceroute / SCMP error / truncated, unknown SCMP, TCP-numbered L4) x destination (IPv4, IPv6, service CS registered / DS unregistered) x outer IP destination (same, other, IPv4-mapped form) "+
		"x extension headers (none, HBH, E2E, both) x dispatcher function on/off x structured mutation (none, bit flips, truncation, field edits). Oracle: exact expectation for well-formed datagrams; safety conditions for every datagram. Non-trivial: datagram forwarded or answered, or a mismatch of outer and SCION destination.")
	defer rec.Flush(t)
	rec.Assume("the previous hop and the outer IP destination are what the socket layer reports (IP_PKTINFO)", "IPv4-mapped IPv6 and IPv4 forms of an address denote the same host")
	rec.Require("forwarded_udp", "forwarded_svc", "forwarded_scmp_reply", "forwarded_scmp_error_udp_quote", "forwarded_scmp_error_echo_quote", "answered_echo", "answered_traceroute", "dropped_other_host", "dropped_unknown_service", "dropped_error_on_error", "dropped_unknown_scmp",
		"dropped_function_off", "dropped_other_l4", "with_hbh", "with_e2e", "mutated_forwarded", "mutated_dropped", "ipv6_destination", "mapped_underlay")
	hosts := []netip.Addr{netip.MustParseAddr("10.2.2.2"), netip.MustParseAddr("10.2.2.3"), netip.MustParseAddr("2001:db8::2"), netip.MustParseAddr("2001:db8::a02:202")} // the last one ends in the bytes of 10.2.2.2
	svcMap := map[addr.Addr]netip.AddrPort{{IA: c44Local, Host: addr.HostSVC(addr.SvcCS)}: c44Svc}
	rapid.Check(t, func(rt *rapid.T) {
		isDisp := rapid.IntRange(0, 4).Draw(rt, "dispatcherFunction") > 0
		srv := dispatcher.NewVerifServer(isDisp, svcMap)
		for n := rapid.IntRange(1, 5).Draw(rt, "datagrams"); n > 0; n-- {
			labels := map[string]bool{}
			kind := rapid.SampledFrom([]string{"udp", "udp", "udp_svc", "udp_svc_unknown", "echo_req", "tr_req", "echo_rep", "tr_rep", "err_udp", "err_echo", "err_tr", "err_err", "err_truncated", "scmp_unknown", "tcp"}).Draw(rt, "kind")
			dstIP := rapid.SampledFrom(hosts).Draw(rt, "dst")
			var dst addr.Host = addr.HostIP(dstIP)
			if dstIP.Is6() {
				labels["ipv6_destination"] = true
			}
			src := addr.MustParseHost("10.1.1.1")
			port := rapid.Uint16Range(1, 65535).Draw(rt, "port")
			ext := rapid.SampledFrom([]int{0, 0, 1, 2, 3}).Draw(rt, "extensions")
			if ext&1 != 0 {
				labels["with_hbh"] = true
			}
			if ext&2 != 0 {
				labels["with_e2e"] = true
			}
			underlay := dstIP
			switch rapid.IntRange(0, 5).Draw(rt, "outerDestination") {
			case 0:
				underlay = rapid.SampledFrom(hosts).Draw(rt, "otherOuter")
			case 1:
				if dstIP.Is4() {
					underlay = netip.AddrFrom16(dstIP.As16()) // IPv4-mapped form, as an IPv6 socket reports it
					labels["mapped_underlay"] = true
				}
			}
			same := underlay.Unmap() == dstIP
			var want netip.AddrPort
			why := ""
			fwd := func(hp netip.AddrPort, label string) {
				switch {
				case !isDisp:
					why = "function_off"
				case hp.Addr().Unmap() != underlay.Unmap():
					why = "other_host"
				default:
					want, why = hp, label
				}
			}
			quote := func(inner ...gopacket.SerializableLayer) []byte {
				// the offending packet: sent by the local host dst to the remote
				is := &slayers.SCION{FlowID: 1, PathType: scion.PathType, Path: &scion.Decoded{Base: scion.Base{PathMeta: scion.MetaHdr{SegLen: [3]uint8{2}}, NumINF: 1, NumHops: 2},
					InfoFields: []path.InfoField{{ConsDir: true}}, HopFields: []path.HopField{{ConsEgress: 1}, {ConsIngress: 2}}}, SrcIA: c44Local, DstIA: c44Remote}
				_ = is.SetSrcAddr(dst)
				_ = is.SetDstAddr(src)
				switch x := inner[0].(type) {
				case *slayers.UDP:
					is.NextHdr = slayers.L4UDP
					x.SetNetworkLayerForChecksum(is)
				case *slayers.SCMP:
					is.NextHdr = slayers.L4SCMP
					x.SetNetworkLayerForChecksum(is)
				}
				q, err := c44Ser(append([]gopacket.SerializableLayer{is}, inner...)...)
				if err != nil {
					rt.Fatalf("harness: %v", err)
				}
				return q
			}
			var ls []gopacket.SerializableLayer
			scmp := func(t slayers.SCMPType, body ...gopacket.SerializableLayer) {
				base := c44SCION(dst, src, slayers.L4SCMP, ext)
				sc := &slayers.SCMP{TypeCode: slayers.CreateSCMPTypeCode(t, 0)}
				sc.SetNetworkLayerForChecksum(base[0].(*slayers.SCION))
				ls = append(append(base, sc), body...)
			}
			switch kind {
			case "udp":
				base := c44SCION(dst, src, slayers.L4UDP, ext)
				u := &slayers.UDP{SrcPort: 1234, DstPort: port}
				u.SetNetworkLayerForChecksum(base[0].(*slayers.SCION))
				ls = append(base, u, gopacket.Payload([]byte("data")))
				fwd(netip.AddrPortFrom(dstIP, port), "forwarded_udp")
			case "udp_svc", "udp_svc_unknown":
				svc := addr.SvcCS
				if kind == "udp_svc_unknown" {
					svc = addr.SvcDS
				}
				dst = addr.HostSVC(svc)
				base := c44SCION(dst, src, slayers.L4UDP, ext)
				u := &slayers.UDP{SrcPort: 1234, DstPort: port}
				u.SetNetworkLayerForChecksum(base[0].(*slayers.SCION))
				ls = append(base, u, gopacket.Payload([]byte("data")))
				same = underlay.Unmap() == c44Svc.Addr()
				if kind == "udp_svc" {
					fwd(c44Svc, "forwarded_svc")
				} else if isDisp {
					why = "unknown_service"
				} else {
					why = "function_off"
				}
			case "echo_req":
				scmp(slayers.SCMPTypeEchoRequest, &slayers.SCMPEcho{Identifier: port, SeqNumber: 7}, gopacket.Payload([]byte("ping")))
				want, why = c44Prev, "answered_echo"
			case "tr_req":
				scmp(slayers.SCMPTypeTracerouteRequest, &slayers.SCMPTraceroute{Identifier: port, Sequence: 7})
				want, why = c44Prev, "answered_traceroute"
			case "echo_rep":
				scmp(slayers.SCMPTypeEchoReply, &slayers.SCMPEcho{Identifier: port, SeqNumber: 7}, gopacket.Payload([]byte("pong")))
				fwd(netip.AddrPortFrom(dstIP, port), "forwarded_scmp_reply")
			case "tr_rep":
				scmp(slayers.SCMPTypeTracerouteReply, &slayers.SCMPTraceroute{Identifier: port, Sequence: 7, IA: c44Remote, Interface: 5})
				fwd(netip.AddrPortFrom(dstIP, port), "forwarded_scmp_reply")
			case "err_udp":
				scmp(slayers.SCMPTypeDestinationUnreachable, &slayers.SCMPDestinationUnreachable{}, gopacket.Payload(quote(&slayers.UDP{SrcPort: port, DstPort: 999}, gopacket.Payload([]byte("orig")))))
				fwd(netip.AddrPortFrom(dstIP, port), "forwarded_scmp_error_udp_quote")
			case "err_echo":
				scmp(slayers.SCMPTypeExternalInterfaceDown, &slayers.SCMPExternalInterfaceDown{IA: c44Remote, IfID: 3},
					gopacket.Payload(quote(&slayers.SCMP{TypeCode: slayers.CreateSCMPTypeCode(slayers.SCMPTypeEchoRequest, 0)}, &slayers.SCMPEcho{Identifier: port, SeqNumber: 1}, gopacket.Payload([]byte("p")))))
				fwd(netip.AddrPortFrom(dstIP, port), "forwarded_scmp_error_echo_quote")
			case "err_tr":
				scmp(slayers.SCMPTypeParameterProblem, &slayers.SCMPParameterProblem{Pointer: 8},
					gopacket.Payload(quote(&slayers.SCMP{TypeCode: slayers.CreateSCMPTypeCode(slayers.SCMPTypeTracerouteRequest, 0)}, &slayers.SCMPTraceroute{Identifier: port, Sequence: 1})))
				fwd(netip.AddrPortFrom(dstIP, port), "forwarded_scmp_error_echo_quote")
			case "err_err":
				scmp(slayers.SCMPTypeDestinationUnreachable, &slayers.SCMPDestinationUnreachable{},
					gopacket.Payload(quote(&slayers.SCMP{TypeCode: slayers.CreateSCMPTypeCode(slayers.SCMPTypeParameterProblem, 0)}, &slayers.SCMPParameterProblem{Pointer: 1}, gopacket.Payload([]byte("q")))))
				why = "error_on_error"
				if !isDisp {
					why = "function_off"
				}
			case "err_truncated":
				q := quote(&slayers.UDP{SrcPort: port, DstPort: 999}, gopacket.Payload([]byte("orig")))
				scmp(slayers.SCMPTypePacketTooBig, &slayers.SCMPPacketTooBig{MTU: 1280}, gopacket.Payload(q[:rapid.IntRange(0, len(q)-12).Draw(rt, "quoteLen")]))
				why = "truncated_quote"
			case "scmp_unknown":
				scmp(slayers.SCMPType(rapid.SampledFrom([]int{3, 100, 127, 132, 200, 255}).Draw(rt, "scmpType")), gopacket.Payload([]byte("whatever")))
				why = "unknown_scmp"
				if !isDisp {
					why = "function_off"
				}
			case "tcp":
				ls = append(c44SCION(dst, src, slayers.L4TCP, ext), gopacket.Payload(make([]byte, 24)))
				why = "other_l4"
				if !isDisp {
					why = "function_off"
				}
			}
			raw, err := c44Ser(ls...)
			if err != nil {
				rt.Fatalf("harness: serializing %s: %v", kind, err)
			}
			mut := "none"
			in := raw
			if rapid.IntRange(0, 3).Draw(rt, "mutate") == 0 {
				in = append([]byte{}, raw...)
				mut = rapid.SampledFrom([]string{"bitflip", "truncate", "nexthdr", "hdrlen", "addrtype", "scmp_type"}).Draw(rt, "mutation")
				switch mut {
				case "bitflip":
					for i := rapid.IntRange(1, 3).Draw(rt, "flips"); i > 0; i-- {
						in[rapid.IntRange(0, len(in)-1).Draw(rt, "off")] ^= 1 << uint(rapid.IntRange(0, 7).Draw(rt, "bit"))
					}
				case "truncate":
					in = in[:rapid.IntRange(0, len(in)-1).Draw(rt, "cut")]
				case "nexthdr":
					in[4] = rapid.SampledFrom([]byte{0, 6, 17, 200, 201, 202, 203, 255}).Draw(rt, "nh")
				case "hdrlen":
					in[5] = rapid.Byte().Draw(rt, "hl")
				case "addrtype":
					in[9] = rapid.Byte().Draw(rt, "dtdl")
				case "scmp_type":
					if len(in) > 40 {
						in[rapid.IntRange(36, len(in)-1).Draw(rt, "typeOff")] = byte(rapid.SampledFrom([]int{128, 129, 130, 131, 1, 2}).Draw(rt, "typeVal"))
					}
				}
			}
			out, nh, perr := srv.VerifProcess(in, underlay, c44Prev)
			desc := fmt.Sprintf("%s dst=%s outer=%s ext=%d function=%v mutation=%s", kind, dst, underlay, ext, isDisp, mut)
			if perr != nil {
				rt.Fatalf("processing returned a fatal error (the dispatcher would stop serving): %v (%s)", perr, desc)
			}
			// ---------------- safety, for any bytes
			if nh.IsValid() {
				answered := !bytes.Equal(out, in)
				ia, h, svc, k := c44RawDst(in)
				switch {
				case answered:
					if nh != c44Prev {
						rt.Fatalf("a generated reply is sent to %v, not to the previous hop %v (%s)", nh, c44Prev, desc)
					}
				case !isDisp:
					rt.Fatalf("datagram forwarded to %v although the dispatcher function is off (%s)", nh, desc)
				case nh == c44Prev && k != "ip":
					rt.Fatalf("datagram reflected unchanged to the previous hop (%s)", desc)
				case nh.Addr().Unmap() != underlay.Unmap():
					if nh != c44Prev {
						rt.Fatalf("datagram forwarded to %v, which is not the outer IP destination %v (%s)", nh, underlay, desc)
					}
				case k == "svc":
					reg, ok := svcMap[addr.Addr{IA: ia, Host: addr.HostSVC(addr.SVC(svc))}]
					if !(ok && reg == nh) && !(h.IsValid() && nh.Addr().Unmap() == h.Unmap()) {
						rt.Fatalf("datagram for service %#x of %s forwarded to %v, registered: %v (%s)", svc, ia, nh, reg, desc)
					}
				case !h.IsValid() || nh.Addr().Unmap() != h.Unmap():
					rt.Fatalf("datagram forwarded to %v, the SCION destination field holds %v (type %s) (%s)", nh, h, k, desc)
				}
			}
			if mut != "none" {
				if nh.IsValid() {
					labels["mutated_forwarded"] = true
				} else {
					labels["mutated_dropped"] = true
				}
				rec.Case(nh.IsValid(), desc+fmt.Sprintf("%x", in[:min(len(in), 64)]), keysOf38(labels)...)
				continue
			}
			// ---------------- exact expectation, well-formed
			if nh != want {
				rt.Fatalf("next hop %v, expected %v (%s; reason for the expectation: %s)", nh, want, desc, why)
			}
			if want.IsValid() {
				labels[why] = true
			} else {
				labels["dropped_"+why] = true
			}
			if kind == "echo_req" || kind == "tr_req" {
				pkt := gopacket.NewPacket(out, slayers.LayerTypeSCION, gopacket.Default)
				sl, _ := pkt.Layer(slayers.LayerTypeSCION).(*slayers.SCION)
				if sl == nil {
					rt.Fatalf("reply does not decode as SCION: %v (%s)", pkt.ErrorLayer(), desc)
				}
				rs, _ := sl.SrcAddr()
				rd, _ := sl.DstAddr()
				if sl.SrcIA != c44Local || sl.DstIA != c44Remote || rs != dst || rd != src {
					rt.Fatalf("reply addresses %s,%s -> %s,%s; expected the request's swapped (%s)", sl.SrcIA, rs, sl.DstIA, rd, desc)
				}
				// The statement fixes where the answer goes, the swapped addresses and the reversed path.
				// The SCMP part of the answer is checked only for requests without extension headers: with
				// them the dispatcher is known to produce an inconsistent next-header chain (upstream issue
				// 4128, noted in the source), which the statement does not cover.
				if ext == 0 {
					sc, _ := pkt.Layer(slayers.LayerTypeSCMP).(*slayers.SCMP)
					wantType := slayers.SCMPTypeEchoReply
					if kind == "tr_req" {
						wantType = slayers.SCMPTypeTracerouteReply
					}
					if sc == nil || sc.TypeCode.Type() != wantType {
						rt.Fatalf("reply is not an SCMP message of type %v (%s)", wantType, desc)
					}
					if e, ok := pkt.Layer(slayers.LayerTypeSCMPEcho).(*slayers.SCMPEcho); kind == "echo_req" && (!ok || e.Identifier != port || e.SeqNumber != 7 || !bytes.Equal(e.Payload, []byte("ping"))) {
						rt.Fatalf("echo reply does not carry the request's identifier, sequence number and data (%s)", desc)
					}
					if tr, ok := pkt.Layer(slayers.LayerTypeSCMPTraceroute).(*slayers.SCMPTraceroute); kind == "tr_req" && (!ok || tr.Identifier != port || tr.Sequence != 7) {
						rt.Fatalf("traceroute reply does not carry the request's identifier and sequence number (%s)", desc)
					}
				} else {
					rec.Label("answered_request_with_extension_headers")
				}
				var rp scion.Decoded
				rawPath := make([]byte, sl.Path.Len())
				if err := sl.Path.SerializeTo(rawPath); err != nil || rp.DecodeFromBytes(rawPath) != nil {
					rt.Fatalf("reply path does not decode (%s)", desc)
				}
				// request path: segments (2,3), at the last hop; reversed: segments (3,2), at the first hop
				if rp.PathMeta.SegLen != [3]uint8{3, 2, 0} || rp.PathMeta.CurrHF != 0 || rp.PathMeta.CurrINF != 0 || rp.InfoFields[0].ConsDir || !rp.InfoFields[1].ConsDir ||
					rp.InfoFields[0].SegID != 2 || rp.InfoFields[1].SegID != 1 || rp.HopFields[0].ExpTime != 5 || rp.HopFields[4].ExpTime != 1 || rp.HopFields[2].ExpTime != 3 {
					rt.Fatalf("reply path is not the reversed request path: %+v (%s)", rp, desc)
				}
			} else if want.IsValid() && !bytes.Equal(out, in) {
				rt.Fatalf("forwarded datagram differs from the received one (%s)", desc)
			}
			if !same && kind != "echo_req" && kind != "tr_req" {
				labels["dropped_other_host"] = labels["dropped_other_host"] || why == "other_host"
			}
			rec.Case(want.IsValid() || why == "other_host", desc, keysOf38(labels)...)
			rec.Sample(func() any { return map[string]any{"case": desc, "next_hop": nh.String(), "why": why} })
		}
	})
}

func keysOf38(m map[string]bool) []string {
	var out []string
	for k := range m {
		out = append(out, k)
	}
	return out
}
