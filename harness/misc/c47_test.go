package misc

import (
	"fmt"
	"strings"
	"testing"

	"pgregory.net/rapid"

	"github.com/scionproto/scion/pkg/addr"
	"github.com/scionproto/scion/pkg/segment/iface"
	"github.com/scionproto/scion/pkg/snet"
	"github.com/scionproto/scion/private/path/pathpol"

	"verif/internal/evid"
)

// ---------------------------------------------------------------------------------------------
// C47 — path-policy sequences match exactly the paths their expression describes; ACL and policy
// filters return, in input order, exactly the paths they accept.
//
// Oracle (D): a reference matcher over the hop list (set of reachable positions per
// sub-expression; hop predicates compared numerically) against Sequence.Eval. Expressions are
// rendered fully parenthesised wherever '|' and juxtaposition meet: the statement fixes the meaning
// of the operators, not their relative precedence. ACL: first-match-per-interface reference from
// doc/dev/design/PathPolicy.md. Policy: in-order sub-list, agreement with evaluating each path
// alone, and (without options) acceptance = ACL and sequence.
// ---------------------------------------------------------------------------------------------

type pHop struct {
	IA      addr.IA
	In, Out uint16
}

func (h pHop) String() string { return fmt.Sprintf("%s#%d,%d", h.IA, h.In, h.Out) }

type fakePath struct {
	snet.Path
	md *snet.PathMetadata
	id int
}

func (p fakePath) Metadata() *snet.PathMetadata { return p.md }

func mkPath(id int, hops []pHop) fakePath {
	md := &snet.PathMetadata{}
	for i, h := range hops {
		if i > 0 {
			md.Interfaces = append(md.Interfaces, snet.PathInterface{IA: h.IA, ID: iface.ID(h.In)})
		}
		if i < len(hops)-1 {
			md.Interfaces = append(md.Interfaces, snet.PathInterface{IA: h.IA, ID: iface.ID(h.Out)})
		}
	}
	return fakePath{md: md, id: id}
}

// hop predicate
type hPred struct {
	ISD    int
	HasAS  bool
	AS     uint64 // 0 = wildcard
	asText string
	NIf    int
	If1    uint16
	If2    uint16
}

func (p hPred) match(h pHop) bool {
	if p.ISD != 0 && int(h.IA.ISD()) != p.ISD {
		return false
	}
	if p.HasAS && p.AS != 0 && uint64(h.IA.AS()) != p.AS {
		return false
	}
	switch p.NIf {
	case 1:
		return p.If1 == 0 || h.In == p.If1 || h.Out == p.If1
	case 2:
		return (p.If1 == 0 || h.In == p.If1) && (p.If2 == 0 || h.Out == p.If2)
	}
	return true
}

func (p hPred) String() string {
	s := fmt.Sprint(p.ISD)
	if !p.HasAS {
		return s
	}
	s += "-" + p.asText
	switch p.NIf {
	case 1:
		s += fmt.Sprintf("#%d", p.If1)
	case 2:
		s += fmt.Sprintf("#%d,%d", p.If1, p.If2)
	}
	return s
}

type seqNode struct {
	Op   string // hop, cat, or, ?, +, *
	P    hPred
	Kids []*seqNode
}

func (n *seqNode) size() int {
	s := 1
	for _, k := range n.Kids {
		s += k.size()
	}
	return s
}

func (n *seqNode) hasOperator() bool { return n.Op != "hop" }
func (n *seqNode) hasSpecific() bool {
	if n.Op == "hop" {
		return n.P.ISD != 0 || (n.P.HasAS && n.P.AS != 0)
	}
	for _, k := range n.Kids {
		if k.hasSpecific() {
			return true
		}
	}
	return false
}

// render with random (harmless) whitespace and redundant parentheses
func (n *seqNode) render(ws func() string, extraParen func() bool) string {
	var s string
	switch n.Op {
	case "hop":
		s = n.P.String()
		if extraParen() {
			s = "(" + ws() + s + ws() + ")"
		}
		return s
	case "cat":
		return "(" + ws() + n.Kids[0].render(ws, extraParen) + " " + ws() + n.Kids[1].render(ws, extraParen) + ws() + ")"
	case "or":
		return "(" + ws() + n.Kids[0].render(ws, extraParen) + ws() + "|" + ws() + n.Kids[1].render(ws, extraParen) + ws() + ")"
	default:
		k := n.Kids[0].render(ws, extraParen)
		if n.Kids[0].Op != "hop" || !strings.HasSuffix(k, n.Kids[0].P.String()) {
			// compound operands are already parenthesised by their own rendering; postfix
			// operators stacked on postfix operators get explicit parentheses
			if n.Kids[0].Op == "?" || n.Kids[0].Op == "+" || n.Kids[0].Op == "*" {
				k = "(" + k + ")"
			}
		}
		return k + ws() + n.Op
	}
}

// ends returns the set of positions reachable after matching n starting at position i.
func (n *seqNode) ends(hops []pHop, i int) map[int]bool {
	out := map[int]bool{}
	switch n.Op {
	case "hop":
		if i < len(hops) && n.P.match(hops[i]) {
			out[i+1] = true
		}
	case "cat":
		for m := range n.Kids[0].ends(hops, i) {
			for e := range n.Kids[1].ends(hops, m) {
				out[e] = true
			}
		}
	case "or":
		for e := range n.Kids[0].ends(hops, i) {
			out[e] = true
		}
		for e := range n.Kids[1].ends(hops, i) {
			out[e] = true
		}
	case "?":
		out[i] = true
		for e := range n.Kids[0].ends(hops, i) {
			out[e] = true
		}
	case "*", "+":
		if n.Op == "*" {
			out[i] = true
		}
		front := map[int]bool{i: true}
		seen := map[int]bool{i: true}
		for len(front) > 0 {
			next := map[int]bool{}
			for s := range front {
				for e := range n.Kids[0].ends(hops, s) {
					out[e] = true
					if !seen[e] {
						seen[e] = true
						next[e] = true
					}
				}
			}
			front = next
		}
	}
	return out
}

type asSpelling struct {
	val   uint64
	texts []string
}

var c47AS = []asSpelling{
	{0xff0000000110, []string{"ff00:0:110", "FF00:0:110", "Ff00:0:110", "fF00:0:110"}},
	{0xff0000000111, []string{"ff00:0:111", "FF00:0:111"}},
	{65000, []string{"65000", "0:0:fde8", "0:0:FDE8"}},
	{0x1000a000b, []string{"1:a:b", "1:A:B", "1:A:b"}},
	{0, []string{"0"}},
}

func genHPred(rt *rapid.T) hPred {
	p := hPred{ISD: rapid.IntRange(0, 2).Draw(rt, "isd")}
	p.HasAS = rapid.IntRange(0, 3).Draw(rt, "hasAS") != 0
	if !p.HasAS {
		return p
	}
	a := rapid.SampledFrom(c47AS).Draw(rt, "as")
	p.AS = a.val
	p.asText = rapid.SampledFrom(a.texts).Draw(rt, "spelling")
	p.NIf = rapid.IntRange(0, 2).Draw(rt, "nif")
	p.If1 = uint16(rapid.IntRange(0, 3).Draw(rt, "if1"))
	p.If2 = uint16(rapid.IntRange(0, 3).Draw(rt, "if2"))
	return p
}

func genSeqNode(rt *rapid.T, depth int) *seqNode {
	k := rapid.IntRange(0, 9).Draw(rt, "kind")
	if depth == 0 || k < 3 {
		return &seqNode{Op: "hop", P: genHPred(rt)}
	}
	switch k {
	case 3, 4, 5:
		return &seqNode{Op: "cat", Kids: []*seqNode{genSeqNode(rt, depth-1), genSeqNode(rt, depth-1)}}
	case 6:
		return &seqNode{Op: "or", Kids: []*seqNode{genSeqNode(rt, depth-1), genSeqNode(rt, depth-1)}}
	case 7:
		return &seqNode{Op: "?", Kids: []*seqNode{genSeqNode(rt, depth-1)}}
	case 8:
		return &seqNode{Op: "+", Kids: []*seqNode{genSeqNode(rt, depth-1)}}
	default:
		return &seqNode{Op: "*", Kids: []*seqNode{genSeqNode(rt, depth-1)}}
	}
}

func genHops(rt *rapid.T) []pHop {
	n := rapid.IntRange(0, 6).Draw(rt, "nhops")
	if n == 1 {
		n = 2 // a path has zero or at least two ASes
	}
	var hs []pHop
	for i := 0; i < n; i++ {
		as := c47AS[rapid.IntRange(0, 3).Draw(rt, "has")].val
		h := pHop{IA: addr.MustIAFrom(addr.ISD(rapid.IntRange(1, 2).Draw(rt, "hisd")), addr.AS(as))}
		if i > 0 {
			h.In = uint16(rapid.IntRange(1, 3).Draw(rt, "in"))
		}
		if i < n-1 {
			h.Out = uint16(rapid.IntRange(1, 3).Draw(rt, "out"))
		}
		hs = append(hs, h)
	}
	return hs
}

// biasedHops builds a path likely to match n (walks the expression, choosing branches), so that
// matching cases are frequent for deep expressions too.
func biasedHops(rt *rapid.T, n *seqNode, out *[]pHop, budget *int) {
	if *budget <= 0 {
		return
	}
	switch n.Op {
	case "hop":
		*budget--
		p := n.P
		h := pHop{}
		isd := p.ISD
		if isd == 0 {
			isd = rapid.IntRange(1, 2).Draw(rt, "bisd")
		}
		as := p.AS
		if !p.HasAS || as == 0 {
			as = c47AS[rapid.IntRange(0, 3).Draw(rt, "bas")].val
		}
		h.IA = addr.MustIAFrom(addr.ISD(isd), addr.AS(as))
		h.In, h.Out = uint16(rapid.IntRange(1, 3).Draw(rt, "bin")), uint16(rapid.IntRange(1, 3).Draw(rt, "bout"))
		switch p.NIf {
		case 1:
			if p.If1 != 0 {
				if rapid.Bool().Draw(rt, "bside") {
					h.In = p.If1
				} else {
					h.Out = p.If1
				}
			}
		case 2:
			if p.If1 != 0 {
				h.In = p.If1
			}
			if p.If2 != 0 {
				h.Out = p.If2
			}
		}
		*out = append(*out, h)
	case "cat":
		biasedHops(rt, n.Kids[0], out, budget)
		biasedHops(rt, n.Kids[1], out, budget)
	case "or":
		biasedHops(rt, n.Kids[rapid.IntRange(0, 1).Draw(rt, "bor")], out, budget)
	case "?":
		if rapid.Bool().Draw(rt, "bopt") {
			biasedHops(rt, n.Kids[0], out, budget)
		}
	case "*", "+":
		reps := rapid.IntRange(0, 2).Draw(rt, "breps")
		if n.Op == "+" {
			reps++
		}
		for i := 0; i < reps; i++ {
			biasedHops(rt, n.Kids[0], out, budget)
		}
	}
}

func fixEnds(hs []pHop) []pHop {
	if len(hs) == 1 {
		hs = append(hs, pHop{IA: hs[0].IA, In: 1})
	}
	if len(hs) > 0 {
		hs[0].In = 0
		hs[len(hs)-1].Out = 0
	}
	return hs
}

// ---- ACL reference (first matching entry per interface; PathPolicy.md)
type aclEntry struct {
	allow bool
	all   bool
	p     hPred
}

func (e aclEntry) String() string {
	sign := "-"
	if e.allow {
		sign = "+"
	}
	if e.all {
		return sign
	}
	return sign + " " + e.p.String()
}

func (e aclEntry) matchIface(ia addr.IA, id uint16, ingress bool) bool {
	if e.all {
		return true
	}
	p := e.p
	if p.ISD != 0 && int(ia.ISD()) != p.ISD {
		return false
	}
	if p.HasAS && p.AS != 0 && uint64(ia.AS()) != p.AS {
		return false
	}
	switch p.NIf {
	case 1:
		return p.If1 == 0 || p.If1 == id
	case 2:
		if ingress {
			return p.If1 == 0 || p.If1 == id
		}
		return p.If2 == 0 || p.If2 == id
	}
	return true
}

func aclAccept(entries []aclEntry, hops []pHop) bool {
	check := func(ia addr.IA, id uint16, ingress bool) bool {
		for _, e := range entries {
			if e.matchIface(ia, id, ingress) {
				return e.allow
			}
		}
		return false
	}
	for i, h := range hops {
		if i > 0 && !check(h.IA, h.In, true) {
			return false
		}
		if i < len(hops)-1 && !check(h.IA, h.Out, false) {
			return false
		}
	}
	return true
}

func genACL(rt *rapid.T) []aclEntry {
	n := rapid.IntRange(0, 4).Draw(rt, "nacl")
	var es []aclEntry
	for i := 0; i < n; i++ {
		p := genHPred(rt)
		// ACL hop predicates use the canonical ISD-AS syntax and may not set interfaces on a wildcard AS
		if !p.HasAS {
			p.HasAS, p.AS, p.asText = true, 0, "0"
		}
		if p.AS == 0 {
			p.NIf = 0
		}
		if p.ISD == 0 && p.AS == 0 {
			p.ISD = 1 // a match-all entry must be the last one
		}
		es = append(es, aclEntry{allow: rapid.Bool().Draw(rt, "allow"), p: p})
	}
	es = append(es, aclEntry{allow: rapid.Bool().Draw(rt, "defallow"), all: true})
	return es
}

func TestC47(t *testing.T) {
	rec := evid.New("C47", "rapid: sequence expression trees (<= depth 3; hop predicates in the four forms ISD, ISD-AS, ISD-AS#if, ISD-AS#in,out with 0 wildcards; AS spelled decimal, "+
		"hex, upper/lower/mixed case; ? + * | juxtaposition, random whitespace and redundant parentheses) x 10 paths each (half random over the alphabet, half derived from the expression) "+
		"-> Sequence.Eval vs reference matcher; ACLs (0-4 entries + default) and policies (ACL + sequence + weighted options) over path lists: reference first-match per interface, "+
		"in-order sub-list, per-path consistency. Non-trivial: expression with an operator and a non-wildcard predicate.")
	defer rec.Flush(t)
	rec.Assume("reference matcher (seqNode.ends, 50 lines): regular-expression semantics of ? + * | and juxtaposition over hop lists, numeric comparison of ISD/AS/interfaces",
		"relative precedence of '|' and juxtaposition is not part of the property: the generator parenthesises every binary operator",
		"ACL reference: first matching entry per traversed interface (ingress uses the first, egress the second interface of a two-interface predicate)")
	rec.Require("seq_match", "seq_nomatch", "as_uppercase", "as_hex_bgp", "op_or", "op_star", "op_plus", "op_opt", "acl_denied", "acl_allowed", "policy_options", "empty_path")

	rapid.Check(t, func(rt *rapid.T) {
		n := genSeqNode(rt, 3)
		ws := func() string { return rapid.SampledFrom([]string{"", "", "", " ", "  ", "\t"}).Draw(rt, "ws") }
		extra := func() bool { return rapid.IntRange(0, 7).Draw(rt, "paren") == 0 }
		text := n.render(ws, extra)
		seq, err := pathpol.NewSequence(text)
		if err != nil {
			rt.Fatalf("syntactically valid expression rejected: %q: %v", text, err)
		}
		labels := map[string]bool{}
		var walk func(*seqNode)
		walk = func(x *seqNode) {
			switch x.Op {
			case "or":
				labels["op_or"] = true
			case "*":
				labels["op_star"] = true
			case "+":
				labels["op_plus"] = true
			case "?":
				labels["op_opt"] = true
			case "hop":
				if x.P.HasAS && x.P.asText != strings.ToLower(x.P.asText) {
					labels["as_uppercase"] = true
				}
				if x.P.HasAS && x.P.AS == 65000 && strings.Contains(x.P.asText, ":") {
					labels["as_hex_bgp"] = true
				}
			}
			for _, k := range x.Kids {
				walk(k)
			}
		}
		walk(n)
		var paths []snet.Path
		var hopLists [][]pHop
		var wants []bool
		for i := 0; i < 10; i++ {
			var hs []pHop
			if i%2 == 0 {
				hs = genHops(rt)
			} else {
				budget := 6
				biasedHops(rt, n, &hs, &budget)
				hs = fixEnds(hs)
				// sometimes perturb one hop so near-misses are frequent too
				if len(hs) > 0 && rapid.IntRange(0, 2).Draw(rt, "perturb") == 0 {
					j := rapid.IntRange(0, len(hs)-1).Draw(rt, "pj")
					switch rapid.IntRange(0, 2).Draw(rt, "pk") {
					case 0:
						hs[j].IA = addr.MustIAFrom(3-hs[j].IA.ISD(), hs[j].IA.AS())
					case 1:
						hs[j].IA = addr.MustIAFrom(hs[j].IA.ISD(), addr.AS(c47AS[rapid.IntRange(0, 3).Draw(rt, "pas")].val))
					default:
						if j > 0 {
							hs[j].In = uint16(rapid.IntRange(1, 3).Draw(rt, "pin"))
						}
					}
				}
			}
			want := n.ends(hs, 0)[len(hs)]
			p := mkPath(i, hs)
			got := len(seq.Eval([]snet.Path{p})) == 1
			if got != want {
				rt.Fatalf("sequence %q on path %v: filter keeps=%v, language membership=%v", text, hs, got, want)
			}
			if want {
				labels["seq_match"] = true
			} else {
				labels["seq_nomatch"] = true
			}
			if len(hs) == 0 {
				labels["empty_path"] = true
			}
			paths = append(paths, p)
			hopLists = append(hopLists, hs)
			wants = append(wants, want)
		}
		rec.Eval(10)
		// the whole list at once: in-order sub-list of exactly the matching paths
		ids := func(ps []snet.Path) []int {
			var out []int
			for _, p := range ps {
				out = append(out, p.(fakePath).id)
			}
			return out
		}
		var wantIDs []int
		for i, w := range wants {
			if w {
				wantIDs = append(wantIDs, i)
			}
		}
		if got := ids(seq.Eval(paths)); fmt.Sprint(got) != fmt.Sprint(wantIDs) {
			rt.Fatalf("sequence %q over the path list kept %v, expected %v (in input order)", text, got, wantIDs)
		}

		// ---- ACL
		entries := genACL(rt)
		var aes []*pathpol.ACLEntry
		for _, e := range entries {
			ae := &pathpol.ACLEntry{}
			if err := ae.LoadFromString(e.String()); err != nil {
				rt.Fatalf("ACL entry %q rejected: %v", e.String(), err)
			}
			aes = append(aes, ae)
		}
		acl, err := pathpol.NewACL(aes...)
		if err != nil {
			rt.Fatalf("ACL %v rejected: %v", entries, err)
		}
		var aclWant []int
		for i, hs := range hopLists {
			if aclAccept(entries, hs) {
				aclWant = append(aclWant, i)
				labels["acl_allowed"] = true
			} else {
				labels["acl_denied"] = true
			}
			one := len(acl.Eval([]snet.Path{paths[i]})) == 1
			if one != aclAccept(entries, hs) {
				rt.Fatalf("ACL %v on path %v: filter keeps=%v, first-match reference=%v", entries, hs, one, aclAccept(entries, hs))
			}
		}
		if got := ids(acl.Eval(paths)); fmt.Sprint(got) != fmt.Sprint(aclWant) {
			rt.Fatalf("ACL %v over the path list kept %v, expected %v", entries, got, aclWant)
		}

		// ---- policy = ACL + sequence (+ options)
		pol := pathpol.NewPolicy("p", acl, seq, nil)
		var polWant []int
		for i := range paths {
			if wants[i] && aclAccept(entries, hopLists[i]) {
				polWant = append(polWant, i)
			}
		}
		if got := ids(pol.Filter(paths)); fmt.Sprint(got) != fmt.Sprint(polWant) {
			rt.Fatalf("policy (ACL %v, sequence %q) kept %v, expected %v", entries, text, got, polWant)
		}
		if rapid.Bool().Draw(rt, "withoptions") {
			labels["policy_options"] = true
			var opts []pathpol.Option
			nopt := rapid.IntRange(1, 3).Draw(rt, "nopt")
			for j := 0; j < nopt; j++ {
				on := genSeqNode(rt, 1)
				os, err := pathpol.NewSequence(on.render(func() string { return "" }, func() bool { return false }))
				if err != nil {
					rt.Fatalf("option sequence: %v", err)
				}
				opts = append(opts, pathpol.Option{Weight: rapid.IntRange(0, 2).Draw(rt, "weight"),
					Policy: &pathpol.ExtPolicy{Policy: pathpol.NewPolicy(fmt.Sprint("o", j), nil, os, nil)}})
			}
			// fingerprints identify paths inside option evaluation: make paths distinct first
			polo := pathpol.NewPolicy("po", acl, seq, opts)
			got := ids(polo.Filter(paths))
			// validity: in-order sub-list of the option-free result
			k := 0
			for _, g := range got {
				for k < len(polWant) && polWant[k] != g {
					k++
				}
				if k == len(polWant) {
					rt.Fatalf("policy with options kept %v, not an in-order sub-list of %v", got, polWant)
				}
				k++
			}
		}
		nt := n.hasOperator() && n.hasSpecific()
		var ls []string
		for l := range labels {
			ls = append(ls, l)
		}
		rec.Case(nt, text, ls...)
		rec.Sample(func() any {
			var ps []string
			for _, hs := range hopLists[:4] {
				ps = append(ps, fmt.Sprint(hs))
			}
			var ac []string
			for _, e := range entries {
				ac = append(ac, e.String())
			}
			return map[string]any{"sequence": text, "paths": ps, "kept": wantIDs, "acl": ac, "acl_kept": aclWant}
		})
	})
}
