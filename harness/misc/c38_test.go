package misc

import (
	"bytes"
	"crypto"
	"crypto/ecdsa"
	"crypto/ed25519"
	"crypto/elliptic"
	"crypto/sha256"
	"crypto/sha512"
	"fmt"
	"hash"
	"testing"
	"time"

	"google.golang.org/protobuf/proto"
	"pgregory.net/rapid"

	cryptopb "github.com/scionproto/scion/pkg/proto/crypto"
	"github.com/scionproto/scion/pkg/scrypto/signed"

	"verif/internal/evid"
	"verif/internal/pki"
)

// ---------------------------------------------------------------------------------------------
// C38 — signed control-plane messages verify only when untouched.
// Sign with P-256/384/521 keys and the three ECDSA algorithms over drawn headers (key id,
// metadata, timestamp), bodies and associated-data lists; then verification of (a) the untouched
// message (also with the associated data split differently), (b) exactly one mutation: bit flip in
// header-and-body, in the signature, in the associated data; associated data dropped, extended or
// reordered; another key of the same curve; a key of another curve; a non-ECDSA key; the algorithm
// field rewritten (other hash, unknown value) inside the protobuf header.
// Oracle: reference verification (hash of header-and-body followed by the concatenated associated
// data with the hash named in the header, ecdsa.VerifyASN1) decides "iff"; on success the returned
// header and body equal what was signed.
// ---------------------------------------------------------------------------------------------

func c38RefVerify(msg *cryptopb.SignedMessage, key crypto.PublicKey, ad [][]byte) bool {
	var hb cryptopb.HeaderAndBody
	if proto.Unmarshal(msg.HeaderAndBody, &hb) != nil {
		return false
	}
	var hdr cryptopb.Header
	if proto.Unmarshal(hb.Header, &hdr) != nil {
		return false
	}
	var h hash.Hash
	switch hdr.SignatureAlgorithm {
	case cryptopb.SignatureAlgorithm_SIGNATURE_ALGORITHM_ECDSA_WITH_SHA256:
		h = sha256.New()
	case cryptopb.SignatureAlgorithm_SIGNATURE_ALGORITHM_ECDSA_WITH_SHA384:
		h = sha512.New384()
	case cryptopb.SignatureAlgorithm_SIGNATURE_ALGORITHM_ECDSA_WITH_SHA512:
		h = sha512.New()
	default:
		return false
	}
	n := 0
	for _, d := range ad {
		n += len(d)
	}
	if int(hdr.AssociatedDataLength) != n {
		return false
	}
	pub, ok := key.(*ecdsa.PublicKey)
	if !ok {
		return false
	}
	h.Write(msg.HeaderAndBody)
	for _, d := range ad {
		h.Write(d)
	}
	return ecdsa.VerifyASN1(pub, h.Sum(nil), msg.Signature)
}

func TestC38(t *testing.T) {
	rec := evid.New("C38", "rapid: curve x algorithm x header (key id, metadata, optional timestamp) x body (0-200 B) x 0-4 associated data chunks; one of 14 mutations or none. Oracle: reference verification decides iff; returned header and body equal the signed ones. "+
		"Non-trivial: associated data present, or a mutation applied.")
	defer rec.Flush(t)
	rec.Assume("ECDSA and SHA-2 of the standard library are trusted", "ECDSA signature malleability (r, n-s) is a property of the scheme and not a mutation of this list")
	muts := []string{"none", "none", "rechunk_ad", "flip_header_body", "flip_signature", "flip_ad", "drop_ad", "extend_ad", "reorder_ad", "other_key_same_curve", "key_other_curve", "ed25519_key", "algorithm_other_hash", "algorithm_unknown", "truncate_signature", "empty_signature", "append_to_signature"}
	req := []string{"curve_P-256", "curve_P-384", "curve_P-521", "verified", "with_timestamp", "shared_buffer", "sign_refused_unknown_algorithm"}
	for _, m := range muts[2:] {
		req = append(req, "mut_"+m)
	}
	rec.Require(req...)
	curves := []elliptic.Curve{elliptic.P256(), elliptic.P384(), elliptic.P521()}
	algs := []signed.SignatureAlgorithm{signed.ECDSAWithSHA256, signed.ECDSAWithSHA384, signed.ECDSAWithSHA512}
	_, edPriv, _ := ed25519.GenerateKey(nil)
	rapid.Check(t, func(rt *rapid.T) {
		ci := rapid.IntRange(0, 2).Draw(rt, "curve")
		key := pki.Key(curves[ci], 10)
		var ad [][]byte
		total := 0
		for i := rapid.IntRange(0, 4).Draw(rt, "nAD"); i > 0; i-- {
			d := rapid.SliceOfN(rapid.Byte(), 0, 40).Draw(rt, "ad")
			ad = append(ad, d)
			total += len(d)
		}
		hdr := signed.Header{SignatureAlgorithm: algs[rapid.IntRange(0, 2).Draw(rt, "alg")], VerificationKeyID: rapid.SliceOfN(rapid.Byte(), 0, 24).Draw(rt, "keyID"),
			Metadata: rapid.SliceOfN(rapid.Byte(), 0, 24).Draw(rt, "metadata"), AssociatedDataLength: total}
		labels := []string{"curve_" + curves[ci].Params().Name}
		if rapid.Bool().Draw(rt, "timestamp") {
			hdr.Timestamp = time.Unix(int64(rapid.IntRange(0, 1<<31).Draw(rt, "ts")), int64(rapid.IntRange(0, 999999999).Draw(rt, "ns")))
			labels = append(labels, "with_timestamp")
		}
		body := rapid.SliceOfN(rapid.Byte(), 0, 200).Draw(rt, "body")
		if rapid.IntRange(0, 9).Draw(rt, "signWithUnknownAlgorithm") == 0 {
			hdr.SignatureAlgorithm = signed.SignatureAlgorithm(rapid.SampledFrom([]int{0, 4, 77}).Draw(rt, "unknownAlgorithm"))
		}
		msg, err := signed.Sign(hdr, body, key, ad...)
		if hdr.SignatureAlgorithm < signed.ECDSAWithSHA256 || hdr.SignatureAlgorithm > signed.ECDSAWithSHA512 {
			// an algorithm that does not exist: either signing is refused, or what it produces must
			// not verify (the reference below knows only the three ECDSA algorithms)
			if err != nil {
				rec.Case(true, fmt.Sprintf("sign refused for algorithm %d", hdr.SignatureAlgorithm), "sign_refused_unknown_algorithm")
				return
			}
			if _, verr := signed.Verify(msg, key.Public(), ad...); verr == nil {
				rt.Fatalf("a message signed with the non-existent algorithm %d verifies", int(hdr.SignatureAlgorithm))
			}
			return
		}
		if err != nil {
			rt.Fatalf("sign: %v", err)
		}
		m := rapid.SampledFrom(muts).Draw(rt, "mutation")
		vmsg := &cryptopb.SignedMessage{HeaderAndBody: append([]byte{}, msg.HeaderAndBody...), Signature: append([]byte{}, msg.Signature...)}
		vad := append([][]byte{}, ad...)
		var vkey crypto.PublicKey = key.Public()
		flip := func(b []byte, what string) []byte {
			c := append([]byte{}, b...)
			c[rapid.IntRange(0, len(c)-1).Draw(rt, what+"Off")] ^= 1 << uint(rapid.IntRange(0, 7).Draw(rt, what+"Bit"))
			return c
		}
		var flat []byte
		for _, d := range ad {
			flat = append(flat, d...)
		}
		rewriteAlg := func(a cryptopb.SignatureAlgorithm) {
			var hb cryptopb.HeaderAndBody
			_ = proto.Unmarshal(vmsg.HeaderAndBody, &hb)
			var h cryptopb.Header
			_ = proto.Unmarshal(hb.Header, &h)
			h.SignatureAlgorithm = a
			hb.Header, _ = proto.Marshal(&h)
			vmsg.HeaderAndBody, _ = proto.Marshal(&hb)
		}
		switch m {
		case "rechunk_ad":
			if total < 2 {
				rt.Skip("nothing to split")
			}
			cut := rapid.IntRange(1, total-1).Draw(rt, "cut")
			vad = [][]byte{flat[:cut], flat[cut:]}
		case "flip_header_body":
			vmsg.HeaderAndBody = flip(vmsg.HeaderAndBody, "hb")
		case "flip_signature":
			vmsg.Signature = flip(vmsg.Signature, "sig")
		case "flip_ad":
			if total == 0 {
				rt.Skip("no associated data")
			}
			vad = [][]byte{flip(flat, "ad")}
		case "drop_ad":
			if total == 0 {
				rt.Skip("no associated data")
			}
			vad = nil
		case "extend_ad":
			vad = append(vad, rapid.SliceOfN(rapid.Byte(), 1, 8).Draw(rt, "extra"))
		case "reorder_ad":
			if len(ad) < 2 || bytes.Equal(append(append([]byte{}, ad[1]...), ad[0]...), append(append([]byte{}, ad[0]...), ad[1]...)) {
				rt.Skip("reordering does not change the concatenation")
			}
			vad[0], vad[1] = vad[1], vad[0]
		case "other_key_same_curve":
			vkey = pki.Key(curves[ci], 11).Public()
		case "key_other_curve":
			vkey = pki.Key(curves[(ci+1)%3], 10).Public()
		case "ed25519_key":
			vkey = edPriv.Public()
		case "algorithm_other_hash":
			cur := hdr.SignatureAlgorithm
			rewriteAlg(cryptopb.SignatureAlgorithm(int32(cur)%3 + 1))
		case "algorithm_unknown":
			rewriteAlg(cryptopb.SignatureAlgorithm(rapid.SampledFrom([]int32{0, 4, 99}).Draw(rt, "unknownAlg")))
		case "truncate_signature":
			vmsg.Signature = vmsg.Signature[:rapid.IntRange(1, len(vmsg.Signature)-1).Draw(rt, "sigLen")]
		case "empty_signature":
			vmsg.Signature = nil
		case "append_to_signature":
			vmsg.Signature = append(vmsg.Signature, rapid.SliceOfN(rapid.Byte(), 1, 16).Draw(rt, "trailing")...)
		}
		sharedBuffer := rapid.IntRange(0, 2).Draw(rt, "sharedBuffer") == 0
		if sharedBuffer {
			// header-and-body, signature and associated data lie back to back in one buffer (as after
			// slicing a received frame): verification must not write to any of them
			buf := make([]byte, 0, len(vmsg.HeaderAndBody)+len(vmsg.Signature)+total+64)
			buf = append(buf, vmsg.HeaderAndBody...)
			nh := len(buf)
			buf = append(buf, vmsg.Signature...)
			ns := len(buf)
			vmsg.HeaderAndBody, vmsg.Signature = buf[:nh], buf[nh:ns]
			for i := range vad {
				buf = append(buf, vad[i]...)
				vad[i] = buf[len(buf)-len(vad[i]):]
			}
			labels = append(labels, "shared_buffer")
		}
		snapshot := func() []byte {
			out := append(append([]byte{}, vmsg.HeaderAndBody...), vmsg.Signature...)
			for _, d := range vad {
				out = append(out, d...)
			}
			return out
		}
		before := snapshot()
		want := c38RefVerify(vmsg, vkey, vad)
		got, err := signed.Verify(vmsg, vkey, vad...)
		if !bytes.Equal(before, snapshot()) {
			rt.Fatalf("Verify modified the message or the associated data it was given (shared buffer: %v, mutation %s)", sharedBuffer, m)
		}
		desc := fmt.Sprintf("curve=%s alg=%v mutation=%s ad=%d chunks/%d B body=%d B", curves[ci].Params().Name, hdr.SignatureAlgorithm, m, len(ad), total, len(body))
		if (err == nil) != want {
			rt.Fatalf("Verify returned %v, reference verification says %v (%s)", err, want, desc)
		}
		if m != "none" && m != "rechunk_ad" && err == nil {
			rt.Fatalf("message verifies after mutation (%s)", desc)
		}
		if (m == "none" || m == "rechunk_ad") && err != nil {
			rt.Fatalf("untouched message does not verify: %v (%s)", err, desc)
		}
		if err == nil {
			if !bytes.Equal(got.Body, body) || !bytes.Equal(got.Header.VerificationKeyID, hdr.VerificationKeyID) || !bytes.Equal(got.Header.Metadata, hdr.Metadata) ||
				got.Header.SignatureAlgorithm != hdr.SignatureAlgorithm || got.Header.AssociatedDataLength != total || !got.Header.Timestamp.Equal(hdr.Timestamp) {
				rt.Fatalf("verification returns header %+v / body %x, signed were %+v / %x", got.Header, got.Body, hdr, body)
			}
			labels = append(labels, "verified")
		}
		if m != "none" {
			labels = append(labels, "mut_"+m)
		}
		rec.Case(total > 0 || m != "none", desc+fmt.Sprintf("%x", msg.Signature[:8]), labels...)
		rec.Sample(func() any { return map[string]any{"case": desc, "verified": err == nil} })
	})
}
