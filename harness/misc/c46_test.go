package misc

import (
	"fmt"
	"math/big"
	"net/netip"
	"strings"
	"testing"

	"pgregory.net/rapid"

	"github.com/scionproto/scion/pkg/addr"

	"verif/internal/evid"
)

// ---------------------------------------------------------------------------------------------
// C46 — ISD-AS and address text formats round-trip.
//
// Oracles: (R) parse(format(v)) == v for every value and option set; (D) for generated
// near-miss strings the repository's parsers agree with an independent reader written from
// the documented format (big-integer arithmetic, explicit range checks): they accept exactly
// what the reader accepts and return the reader's value.
// ---------------------------------------------------------------------------------------------

var boundaryAS = []uint64{0, 1, 9, 10, 65535, 65536, 1<<32 - 2, 1<<32 - 1, 1 << 32, 1<<32 + 1,
	0xff00_0000_0110, 0xffff_0000_0000, 0x0001_0000_0000, 0x0000_ffff_ffff, 0xffff_ffff_ffff,
	0xffff_ffff_fffe, 0x000a_000b_000c, 0x1000_0000_0000}

func genAS(rt *rapid.T) addr.AS {
	switch rapid.IntRange(0, 3).Draw(rt, "askind") {
	case 0:
		return addr.AS(rapid.SampledFrom(boundaryAS).Draw(rt, "asb"))
	case 1:
		return addr.AS(rapid.Uint64Range(0, 1<<32-1).Draw(rt, "asbgp"))
	default:
		return addr.AS(rapid.Uint64Range(0, 1<<48-1).Draw(rt, "as48"))
	}
}

func genISD(rt *rapid.T) addr.ISD {
	if rapid.Bool().Draw(rt, "isdb") {
		return addr.ISD(rapid.SampledFrom([]uint16{0, 1, 9, 10, 64, 4095, 4096, 65534, 65535}).Draw(rt, "isdv"))
	}
	return addr.ISD(rapid.Uint16().Draw(rt, "isd"))
}

// Separators: the empty string (documented to mean ':') or a non-empty string with no hex digit
// and no '-' (anything else makes the textual form ambiguous by construction).
func genSep(rt *rapid.T) (string, bool) {
	switch rapid.IntRange(0, 4).Draw(rt, "sepkind") {
	case 0:
		return ":", false // no option
	case 1:
		return "", true
	case 2:
		return "_", true
	default:
		alphabet := []rune(":_./#~@!$%*+=,;GgZzxXhQ ")
		n := rapid.IntRange(1, 3).Draw(rt, "seplen")
		var b strings.Builder
		for i := 0; i < n; i++ {
			b.WriteRune(rapid.SampledFrom(alphabet).Draw(rt, "sepch"))
		}
		return b.String(), true
	}
}

func genHost(rt *rapid.T) addr.Host {
	switch rapid.IntRange(0, 4).Draw(rt, "hostkind") {
	case 0:
		svc := rapid.SampledFrom([]addr.SVC{addr.SvcDS, addr.SvcCS, addr.SvcWildcard}).Draw(rt, "svc")
		if rapid.Bool().Draw(rt, "mcast") {
			svc = svc.Multicast()
		}
		return addr.HostSVC(svc)
	case 1:
		var a [4]byte
		copy(a[:], rapid.SliceOfN(rapid.Byte(), 4, 4).Draw(rt, "ip4"))
		return addr.HostIP(netip.AddrFrom4(a))
	case 2:
		var a [16]byte
		copy(a[:], rapid.SliceOfN(rapid.Byte(), 16, 16).Draw(rt, "ip6"))
		// sparse addresses exercise '::' compression
		if rapid.Bool().Draw(rt, "sparse") {
			for i := range a {
				if rapid.IntRange(0, 3).Draw(rt, "z") != 0 {
					a[i] = 0
				}
			}
		}
		return addr.HostIP(netip.AddrFrom16(a))
	case 3:
		var a [16]byte
		copy(a[:], rapid.SliceOfN(rapid.Byte(), 16, 16).Draw(rt, "ip6z"))
		a[0], a[1] = 0xfe, 0x80
		zone := rapid.StringMatching(`[a-z][a-z0-9]{0,5}`).Draw(rt, "zone")
		return addr.HostIP(netip.AddrFrom16(a).WithZone(zone))
	default:
		var a [4]byte
		copy(a[:], rapid.SliceOfN(rapid.Byte(), 4, 4).Draw(rt, "ip4m"))
		return addr.HostIP(netip.AddrFrom16(netip.AddrFrom4(a).As16())) // v4-mapped v6
	}
}

// ---- independent reader ------------------------------------------------------------------

func refDigits(s string, hex bool) (*big.Int, bool) {
	if s == "" {
		return nil, false
	}
	for _, c := range s {
		switch {
		case c >= '0' && c <= '9':
		case hex && (c >= 'a' && c <= 'f' || c >= 'A' && c <= 'F'):
		default:
			return nil, false
		}
	}
	base := 10
	if hex {
		base = 16
	}
	v, ok := new(big.Int).SetString(s, base)
	return v, ok
}

func refISD(s string, prefix bool) (uint64, bool) {
	if prefix {
		if !strings.HasPrefix(s, "ISD") {
			return 0, false
		}
		s = s[3:]
	}
	v, ok := refDigits(s, false)
	if !ok || v.Cmp(big.NewInt(65535)) > 0 {
		return 0, false
	}
	return v.Uint64(), true
}

func refAS(s string, prefix bool, sep string) (uint64, bool) {
	if prefix {
		if !strings.HasPrefix(s, "AS") {
			return 0, false
		}
		s = s[2:]
	}
	parts := strings.Split(s, sep)
	if len(parts) == 1 {
		v, ok := refDigits(s, false)
		if !ok || v.Cmp(big.NewInt(1<<32-1)) > 0 {
			return 0, false
		}
		return v.Uint64(), true
	}
	if len(parts) != 3 {
		return 0, false
	}
	var out uint64
	for _, p := range parts {
		v, ok := refDigits(p, true)
		if !ok || v.Cmp(big.NewInt(0xffff)) > 0 {
			return 0, false
		}
		out = out<<16 | v.Uint64()
	}
	return out, true
}

func refIA(s string, prefix bool, sep string) (uint64, uint64, bool) {
	parts := strings.Split(s, "-")
	if len(parts) != 2 {
		return 0, 0, false
	}
	i, ok1 := refISD(parts[0], prefix)
	a, ok2 := refAS(parts[1], prefix, sep)
	return i, a, ok1 && ok2
}

// ---- near-miss string generator ------------------------------------------------------------

func genNumText(rt *rapid.T, hex bool) string {
	k := rapid.IntRange(0, 9).Draw(rt, "numkind")
	switch k {
	case 0:
		return ""
	case 1:
		return rapid.SampledFrom([]string{"65535", "65536", "4294967295", "4294967296", "281474976710655",
			"281474976710656", "18446744073709551615", "18446744073709551616", "0", "00", "007",
			"ffff", "10000", "FFFF", "fFfF", "0ffff", "00000000000000000001", "-1", "+1", "1_0", "0x1", " 1", "1 "}).Draw(rt, "numconst")
	case 2:
		return fmt.Sprintf("%d", rapid.Uint64().Draw(rt, "numdec"))
	case 3, 4:
		if hex {
			s := fmt.Sprintf("%x", rapid.Uint32Range(0, 0x1ffff).Draw(rt, "numhex"))
			if rapid.Bool().Draw(rt, "upper") {
				s = strings.ToUpper(s)
			}
			return s
		}
		return fmt.Sprintf("%d", rapid.Uint32Range(0, 70000).Draw(rt, "numsmall"))
	case 5:
		return rapid.StringMatching(`[0-9a-fA-Fg:_\-+ x]{1,6}`).Draw(rt, "numjunk")
	default:
		if hex {
			return fmt.Sprintf("%x", rapid.Uint16().Draw(rt, "numh16"))
		}
		return fmt.Sprintf("%d", rapid.Uint32().Draw(rt, "numd32"))
	}
}

func genASText(rt *rapid.T, sep string) string {
	switch rapid.IntRange(0, 5).Draw(rt, "astextkind") {
	case 0:
		return genNumText(rt, false)
	case 1:
		n := rapid.IntRange(2, 4).Draw(rt, "nparts")
		var ps []string
		for i := 0; i < n; i++ {
			ps = append(ps, genNumText(rt, true))
		}
		return strings.Join(ps, sep)
	default:
		return strings.Join([]string{genNumText(rt, true), genNumText(rt, true), genNumText(rt, true)}, sep)
	}
}

func mutate(rt *rapid.T, s string) string {
	r := []rune(s)
	switch rapid.IntRange(0, 4).Draw(rt, "mutkind") {
	case 0:
		return s
	case 1: // delete
		if len(r) == 0 {
			return s
		}
		i := rapid.IntRange(0, len(r)-1).Draw(rt, "mi")
		return string(append(append([]rune{}, r[:i]...), r[i+1:]...))
	case 2: // insert
		i := rapid.IntRange(0, len(r)).Draw(rt, "mi")
		c := rapid.SampledFrom([]rune("0129afAF:-_, gISD")).Draw(rt, "mc")
		return string(append(append(append([]rune{}, r[:i]...), c), r[i:]...))
	case 3: // replace
		if len(r) == 0 {
			return s
		}
		i := rapid.IntRange(0, len(r)-1).Draw(rt, "mi")
		r2 := append([]rune{}, r...)
		r2[i] = rapid.SampledFrom([]rune("0129afAF:-_, gx")).Draw(rt, "mc")
		return string(r2)
	default: // case swap
		if rapid.Bool().Draw(rt, "up") {
			return strings.ToUpper(s)
		}
		return strings.ToLower(s)
	}
}

func TestC46(t *testing.T) {
	rec := evid.New("C46", "rapid: (a) values of every type (ISD 0..65535, AS 0..2^48-1 boundary-heavy around "+
		"2^32, named SVCs with/without multicast, IPv4/IPv6/zoned/v4-mapped hosts) x format options "+
		"(prefix on/off; separator none, empty, '_', random non-hex strings) -> format -> parse must return the value; "+
		"(b) near-miss strings (boundary numbers, junk, mutated valid text) -> parser must agree with an independent "+
		"big-integer reader on accept/reject and on the value. Non-trivial: custom separator or prefix, AS >= 2^32, "+
		"or a near-miss string the reference rejects.")
	defer rec.Flush(t)
	rec.Assume("reference reader (refISD/refAS/refIA, 60 lines) transcribes doc/ ISD-AS numbering: decimal <= 2^32-1, else three sep-separated hex groups <= ffff; leading zeros not classified as malformed",
		"separator domain: empty string or non-empty without hex digits and '-'", "Go net/netip for IP text")
	rec.Require("roundtrip_customsep", "roundtrip_emptysep", "roundtrip_prefix", "as_hex", "nearmiss_rejected", "nearmiss_accepted", "host_svc", "host_ip6_zone")

	rapid.Check(t, func(rt *rapid.T) {
		// ---------- (a) value -> text -> value
		isd, as := genISD(rt), genAS(rt)
		ia := addr.MustIAFrom(isd, as)
		sep, haveSep := genSep(rt)
		prefix := rapid.Bool().Draw(rt, "prefix")
		var opts []addr.FormatOption
		if prefix {
			opts = append(opts, addr.WithDefaultPrefix())
		}
		if haveSep {
			if sep == "_" && rapid.Bool().Draw(rt, "filesep") {
				opts = append(opts, addr.WithFileSeparator())
			} else {
				opts = append(opts, addr.WithSeparator(sep))
			}
		}
		effSep := sep
		if effSep == "" {
			effSep = ":"
		}
		labels := []string{}
		if haveSep && sep == "" {
			labels = append(labels, "roundtrip_emptysep")
		} else if haveSep && sep != ":" {
			labels = append(labels, "roundtrip_customsep")
		}
		if prefix {
			labels = append(labels, "roundtrip_prefix")
		}
		if as > addr.MaxBGPAS {
			labels = append(labels, "as_hex")
		}

		sISD := addr.FormatISD(isd, opts...)
		if g, err := addr.ParseFormattedISD(sISD, opts...); err != nil || g != isd {
			rt.Fatalf("ISD %d formatted %q parsed (%v, %v)", isd, sISD, g, err)
		}
		sAS := addr.FormatAS(as, opts...)
		if g, err := addr.ParseFormattedAS(sAS, opts...); err != nil || g != as {
			rt.Fatalf("AS %d sep=%q prefix=%v formatted %q parsed (%v, %v)", uint64(as), sep, prefix, sAS, g, err)
		}
		sIA := addr.FormatIA(ia, opts...)
		if g, err := addr.ParseFormattedIA(sIA, opts...); err != nil || g != ia {
			rt.Fatalf("IA %x sep=%q prefix=%v formatted %q parsed (%v, %v)", uint64(ia), sep, prefix, sIA, g, err)
		}
		// the reference reader must read the formatted text as the value too (keeps the reference honest)
		if ri, ra, ok := refIA(sIA, prefix, effSep); !ok || ri != uint64(isd) || ra != uint64(as) {
			rt.Fatalf("reference reader disagrees with formatter on %q: %d %d %v", sIA, ri, ra, ok)
		}
		// default textual forms
		if g, err := addr.ParseIA(ia.String()); err != nil || g != ia {
			rt.Fatalf("IA.String %q parsed (%v, %v)", ia.String(), g, err)
		}
		if g, err := addr.ParseAS(as.String()); err != nil || g != as {
			rt.Fatalf("AS.String %q parsed (%v, %v)", as.String(), g, err)
		}
		if g, err := addr.ParseISD(isd.String()); err != nil || g != isd {
			rt.Fatalf("ISD.String %q parsed (%v, %v)", isd.String(), g, err)
		}
		var ia2 addr.IA
		if b, err := ia.MarshalText(); err != nil || ia2.UnmarshalText(b) != nil || ia2 != ia {
			rt.Fatalf("IA text marshalling round trip failed for %s", ia)
		}
		var as2 addr.AS
		if b, err := as.MarshalText(); err != nil || as2.UnmarshalText(b) != nil || as2 != as {
			rt.Fatalf("AS text marshalling round trip failed for %s", as)
		}
		host := genHost(rt)
		switch {
		case host.Type() == addr.HostTypeSVC:
			labels = append(labels, "host_svc")
			if g, err := addr.ParseSVC(host.SVC().String()); err != nil || g != host.SVC() {
				rt.Fatalf("SVC %v -> %q -> (%v, %v)", host.SVC(), host.SVC().String(), g, err)
			}
		case host.IP().Zone() != "":
			labels = append(labels, "host_ip6_zone")
		case host.IP().Is4():
			labels = append(labels, "host_ip4")
		default:
			labels = append(labels, "host_ip6")
		}
		if g, err := addr.ParseHost(host.String()); err != nil || g != host {
			rt.Fatalf("host %#v -> %q -> (%#v, %v)", host, host.String(), g, err)
		}
		full := addr.Addr{IA: ia, Host: host}
		if g, err := addr.ParseAddr(full.String()); err != nil || g != full {
			rt.Fatalf("addr %q -> (%v, %v)", full.String(), g, err)
		}
		var full2 addr.Addr
		if b, err := full.MarshalText(); err != nil || full2.UnmarshalText(b) != nil || full2 != full {
			rt.Fatalf("Addr text marshalling round trip failed for %s", full)
		}
		port := rapid.Uint16().Draw(rt, "port")
		if g, p, err := addr.ParseAddrPort(addr.FormatAddrPort(full, port)); err != nil || g != full || p != port {
			rt.Fatalf("addrport %q -> (%v, %d, %v)", addr.FormatAddrPort(full, port), g, p, err)
		}

		// ---------- (b) near-miss text -> parser vs. independent reader
		var text string
		if rapid.Bool().Draw(rt, "fromvalid") {
			text = mutate(rt, sIA)
		} else {
			isdT := genNumText(rt, false)
			if prefix && rapid.IntRange(0, 4).Draw(rt, "keepprefix") != 0 {
				isdT = "ISD" + isdT
			}
			asT := genASText(rt, effSep)
			if prefix && rapid.IntRange(0, 4).Draw(rt, "keepprefix2") != 0 {
				asT = "AS" + asT
			}
			text = isdT + rapid.SampledFrom([]string{"-", "-", "-", "", "--", ","}).Draw(rt, "dash") + asT
		}
		gotIA, err := addr.ParseFormattedIA(text, opts...)
		ri, ra, ok := refIA(text, prefix, effSep)
		if (err == nil) != ok {
			rt.Fatalf("near-miss %q (prefix=%v sep=%q): parser err=%v, reference accepts=%v", text, prefix, effSep, err, ok)
		}
		if ok {
			labels = append(labels, "nearmiss_accepted")
			if uint64(gotIA.ISD()) != ri || uint64(gotIA.AS()) != ra {
				rt.Fatalf("near-miss %q parsed as %s, reference reads ISD %d AS %d", text, gotIA, ri, ra)
			}
		} else {
			labels = append(labels, "nearmiss_rejected")
		}
		// The plain parsers on the same text (no options).
		if !prefix && effSep == ":" {
			g2, err2 := addr.ParseIA(text)
			if (err2 == nil) != ok || (ok && g2 != gotIA) {
				rt.Fatalf("ParseIA(%q) = (%v, %v) but ParseFormattedIA accepts=%v", text, g2, err2, ok)
			}
		}
		asText := genASText(rt, ":")
		gAS, errAS := addr.ParseAS(asText)
		rAS, okAS := refAS(asText, false, ":")
		if (errAS == nil) != okAS || (okAS && uint64(gAS) != rAS) {
			rt.Fatalf("ParseAS(%q) = (%d, %v); reference (%d, %v)", asText, uint64(gAS), errAS, rAS, okAS)
		}
		isdText := genNumText(rt, false)
		gI, errI := addr.ParseISD(isdText)
		rI, okI := refISD(isdText, false)
		if (errI == nil) != okI || (okI && uint64(gI) != rI) {
			rt.Fatalf("ParseISD(%q) = (%d, %v); reference (%d, %v)", isdText, gI, errI, rI, okI)
		}

		nt := haveSep || prefix || as > addr.MaxBGPAS || !ok
		rec.Case(nt, sIA+"|"+text+"|"+host.String(), labels...)
		rec.Sample(func() any {
			return map[string]any{"ia": sIA, "sep": sep, "prefix": prefix, "host": host.String(), "nearmiss": text, "nearmiss_accepted": ok}
		})
	})
}
