package store

import (
	"context"
	"crypto/elliptic"
	"encoding/hex"
	"fmt"
	"sort"
	"strings"
	"sync/atomic"
	"testing"
	"time"

	"pgregory.net/rapid"

	"github.com/scionproto/scion/control/beacon"
	"github.com/scionproto/scion/pkg/addr"
	cryptopb "github.com/scionproto/scion/pkg/proto/crypto"
	"github.com/scionproto/scion/pkg/scrypto/signed"
	seg "github.com/scionproto/scion/pkg/segment"
	"github.com/scionproto/scion/pkg/segment/iface"
	"github.com/scionproto/scion/private/pathdb/query"
	storagebeacon "github.com/scionproto/scion/private/storage/beacon"
	beaconsql "github.com/scionproto/scion/private/storage/beacon/sqlite"
	sdb "github.com/scionproto/scion/private/storage/db"
	pathsql "github.com/scionproto/scion/private/storage/path/sqlite"

	"verif/internal/evid"
	"verif/internal/pki"
)

// ---------------------------------------------------------------------------------------------
// C27 — the beacon database and the path-segment database behave like their abstract stores.
// Stateful generated histories against the real SQLite back-ends (named in-memory databases); a
// map model (segment id -> stored version) decides every returned statistic and every query
// result. Clean-up and validity instants are kept >= 5 s away from expiry instants (equality is
// not defined by the statement).
// ---------------------------------------------------------------------------------------------

// tsSigner signs with a fixed header timestamp, which is what the databases use as the "version"
// (signing time of the last AS entry) of a path segment.
type tsSigner struct{ ts time.Time }

func (s tsSigner) Sign(ctx context.Context, msg []byte, ad ...[]byte) (*cryptopb.SignedMessage, error) {
	l := 0
	for _, d := range ad {
		l += len(d)
	}
	return signed.Sign(signed.Header{SignatureAlgorithm: signed.ECDSAWithSHA256, Timestamp: s.ts,
		AssociatedDataLength: l}, msg, pki.Key(elliptic.P256(), 900), ad...)
}

var ias = []addr.IA{addr.MustParseIA("1-ff00:0:110"), addr.MustParseIA("1-ff00:0:111"),
	addr.MustParseIA("2-ff00:0:210"), addr.MustParseIA("2-ff00:0:211")}

var base = time.Unix(1_700_000_000, 0)

const expUnit = 337500 * time.Millisecond // 24h / 256

var dbCounter atomic.Int64

// ------------------------------- path DB ------------------------------------------------------

type pIdent struct {
	hops []addr.IA
	ifs  []uint16
}

var pIdents = []pIdent{
	{[]addr.IA{ias[0], ias[1]}, []uint16{1, 2}},
	{[]addr.IA{ias[0], ias[1]}, []uint16{3, 4}},
	{[]addr.IA{ias[2], ias[3]}, []uint16{1, 2}},
	{[]addr.IA{ias[0], ias[2], ias[3]}, []uint16{5, 6, 7, 8}},
	{[]addr.IA{ias[1], ias[0]}, []uint16{2, 1}},
	{[]addr.IA{ias[2], ias[0], ias[1]}, []uint16{6, 5, 1, 2}},
}

// mkPathSeg builds segment identity id with version v (signing time of the last entry = base+v s),
// hop expiry exp and optionally a peer entry on the last AS (same SegID, different FullID).
func mkPathSeg(id, v int, exp uint8, peer bool) *seg.PathSegment {
	it := pIdents[id]
	ps, err := seg.CreateSegment(base, uint16(1000+id))
	if err != nil {
		panic(err)
	}
	k := 0
	for i, ia := range it.hops {
		var in, out uint16
		if i > 0 {
			in = it.ifs[k]
			k++
		}
		var next addr.IA
		if i < len(it.hops)-1 {
			out = it.ifs[k]
			k++
			next = it.hops[i+1]
		}
		e := seg.ASEntry{Local: ia, Next: next, MTU: 1400,
			HopEntry: seg.HopEntry{HopField: seg.HopField{ConsIngress: in, ConsEgress: out, ExpTime: exp}}}
		if peer && i == len(it.hops)-1 {
			e.PeerEntries = []seg.PeerEntry{{Peer: ias[2], PeerInterface: 9, PeerMTU: 1300,
				HopField: seg.HopField{ConsIngress: 42, ConsEgress: out, ExpTime: exp}}}
		}
		ts := base
		if i == len(it.hops)-1 {
			ts = base.Add(time.Duration(v) * time.Second)
		}
		if err := ps.AddASEntry(context.Background(), e, tsSigner{ts}); err != nil {
			panic(err)
		}
	}
	return ps
}

var pathSegCache = map[string]*seg.PathSegment{}

func pathSeg(id, v int, exp uint8, peer bool) *seg.PathSegment {
	k := fmt.Sprint(id, v, exp, peer)
	if s, ok := pathSegCache[k]; ok {
		return s
	}
	s := mkPathSeg(id, v, exp, peer)
	pathSegCache[k] = s
	return s
}

type pEntry struct {
	version int
	exp     uint8
	peer    bool
	types   map[seg.Type]bool
	groups  map[uint64]bool
}

func (m *pEntry) interfaces(id int) map[string]bool {
	it := pIdents[id]
	out := map[string]bool{}
	k := 0
	for i, ia := range it.hops {
		if i > 0 {
			out[fmt.Sprintf("%s#%d", ia, it.ifs[k])] = true
			k++
		}
		if i < len(it.hops)-1 {
			out[fmt.Sprintf("%s#%d", ia, it.ifs[k])] = true
			k++
		}
		if m.peer && i == len(it.hops)-1 {
			out[fmt.Sprintf("%s#%d", ia, 42)] = true
		}
	}
	return out
}

var segTypes = []seg.Type{seg.TypeUp, seg.TypeDown, seg.TypeCore}

func pathDBHistory(rt *rapid.T, rec *evid.Rec) {
	db, err := pathsql.New(fmt.Sprintf("c27_pathdb_%d_%d", time.Now().UnixNano(), dbCounter.Add(1)), &sdb.SqliteConfig{InMemory: true})
	if err != nil {
		rt.Fatalf("open path DB: %v", err)
	}
	defer db.Close()
	ctx := context.Background()
	model := map[int]*pEntry{}
	nextQ := map[string]int{}
	labels := map[string]bool{}
	var hist []string
	deleted := false
	steps := rapid.IntRange(1, 40).Draw(rt, "steps")
	for s := 0; s < steps; s++ {
		switch op := rapid.IntRange(0, 13).Draw(rt, "op"); {
		case op <= 5: // insert
			id := rapid.IntRange(0, len(pIdents)-1).Draw(rt, "id")
			v := rapid.IntRange(0, 5).Draw(rt, "version")
			exp := uint8(rapid.IntRange(0, 3).Draw(rt, "exp"))
			peer := rapid.Bool().Draw(rt, "peer")
			typ := rapid.SampledFrom(segTypes).Draw(rt, "type")
			var groups []uint64
			useGroups := rapid.Bool().Draw(rt, "usegroups")
			if useGroups {
				groups = rapid.SliceOfNDistinct(rapid.Uint64Range(0, 3), 1, 2, func(x uint64) uint64 { return x }).Draw(rt, "groups")
			}
			hist = append(hist, fmt.Sprintf("insert(seg%d v%d exp%d peer=%v %v groups=%v)", id, v, exp, peer, typ, groups))
			var st struct{ Inserted, Updated int }
			meta := &seg.Meta{Segment: pathSeg(id, v, exp, peer), Type: typ}
			if useGroups {
				r, err := db.InsertWithHPGroupIDs(ctx, meta, groups)
				if err != nil {
					rt.Fatalf("insert: %v\nhistory %v", err, hist)
				}
				st.Inserted, st.Updated = r.Inserted, r.Updated
			} else {
				r, err := db.Insert(ctx, meta)
				if err != nil {
					rt.Fatalf("insert: %v\nhistory %v", err, hist)
				}
				st.Inserted, st.Updated = r.Inserted, r.Updated
				groups = []uint64{0}
			}
			m := model[id]
			wi, wu := 0, 0
			switch {
			case m == nil:
				m = &pEntry{version: v, exp: exp, peer: peer, types: map[seg.Type]bool{}, groups: map[uint64]bool{}}
				model[id] = m
				m.types[typ] = true
				for _, g := range groups {
					m.groups[g] = true
				}
				wi = 1
				if deleted {
					labels["insert_after_delete"] = true
				}
			case v > m.version:
				if !m.types[typ] {
					labels["update_adds_type"] = true
				}
				for _, g := range groups {
					if !m.groups[g] {
						labels["update_adds_group"] = true
					}
					m.groups[g] = true
				}
				if m.peer != peer {
					labels["update_changes_fullid"] = true
				}
				m.version, m.exp, m.peer = v, exp, peer
				m.types[typ] = true
				wu = 1
				labels["update"] = true
			default:
				labels["older_ignored"] = true
				if deleted {
					labels["older_after_delete"] = true
				}
			}
			if st.Inserted != wi || st.Updated != wu {
				rt.Fatalf("insert returned inserted=%d updated=%d, model says %d/%d\nhistory %v", st.Inserted, st.Updated, wi, wu, hist)
			}
		case op == 6: // delete expired
			u := rapid.IntRange(0, 5).Draw(rt, "nowUnits")
			now := base.Add(time.Duration(u)*expUnit + 10*time.Second)
			hist = append(hist, fmt.Sprintf("deleteExpired(+%d units +10s)", u))
			cnt, err := db.DeleteExpired(ctx, now)
			if err != nil {
				rt.Fatalf("deleteExpired: %v", err)
			}
			want := 0
			for id, m := range model {
				if base.Add(time.Duration(int(m.exp)+1) * expUnit).Before(now) {
					delete(model, id)
					want++
				}
			}
			if cnt != want {
				rt.Fatalf("deleteExpired removed %d, model has %d expired\nhistory %v", cnt, want, hist)
			}
			if want > 0 {
				labels["cleanup_removed"] = true
				deleted = true
			}
		case op == 7: // delete by partial id
			id := rapid.IntRange(0, len(pIdents)-1).Draw(rt, "delid")
			full := strings.ToUpper(hex.EncodeToString(pathSeg(id, 0, 0, false).ID()))
			prefix := full[:2*rapid.IntRange(2, len(full)/2).Draw(rt, "plen")]
			hist = append(hist, fmt.Sprintf("deleteSegment(%s)", prefix))
			if err := db.DeleteSegment(ctx, prefix); err != nil {
				rt.Fatalf("deleteSegment: %v", err)
			}
			for mid := range model {
				if strings.HasPrefix(strings.ToUpper(hex.EncodeToString(pathSeg(mid, 0, 0, false).ID())), prefix) {
					delete(model, mid)
					deleted = true
					labels["delete_by_id"] = true
				}
			}
		case op == 8: // next query
			src, dst := ias[rapid.IntRange(0, 1).Draw(rt, "nqsrc")], ias[rapid.IntRange(2, 3).Draw(rt, "nqdst")]
			k := fmt.Sprint(src, dst)
			if rapid.Bool().Draw(rt, "nqinsert") {
				tv := rapid.IntRange(1, 6).Draw(rt, "nqt")
				hist = append(hist, fmt.Sprintf("insertNextQuery(%s, +%ds)", k, tv))
				ok, err := db.InsertNextQuery(ctx, src, dst, base.Add(time.Duration(tv)*time.Second))
				if err != nil {
					rt.Fatalf("insertNextQuery: %v", err)
				}
				want := tv > nextQ[k]
				if ok != want {
					rt.Fatalf("insertNextQuery(+%ds) returned %v, stored +%ds\nhistory %v", tv, ok, nextQ[k], hist)
				}
				if want {
					nextQ[k] = tv
				} else {
					labels["nextquery_older_refused"] = true
				}
			} else {
				got, err := db.GetNextQuery(ctx, src, dst)
				if err != nil {
					rt.Fatalf("getNextQuery: %v", err)
				}
				if nextQ[k] == 0 && !got.IsZero() || nextQ[k] != 0 && !got.Equal(base.Add(time.Duration(nextQ[k])*time.Second)) {
					rt.Fatalf("getNextQuery = %v, model +%ds\nhistory %v", got, nextQ[k], hist)
				}
			}
		default: // query
			p := &query.Params{}
			desc := "get("
			if rapid.Bool().Draw(rt, "fType") {
				p.SegTypes = rapid.SliceOfNDistinct(rapid.SampledFrom(segTypes), 1, 2, func(x seg.Type) seg.Type { return x }).Draw(rt, "qtypes")
				desc += fmt.Sprintf("types=%v ", p.SegTypes)
			}
			if rapid.Bool().Draw(rt, "fGroup") {
				p.HPGroupIDs = rapid.SliceOfNDistinct(rapid.Uint64Range(0, 3), 1, 2, func(x uint64) uint64 { return x }).Draw(rt, "qgroups")
				desc += fmt.Sprintf("groups=%v ", p.HPGroupIDs)
			}
			if rapid.Bool().Draw(rt, "fStart") {
				x := ias[rapid.IntRange(0, 3).Draw(rt, "qs")]
				if rapid.Bool().Draw(rt, "wild") {
					x = addr.MustIAFrom(x.ISD(), 0)
				}
				p.StartsAt = []addr.IA{x}
				desc += fmt.Sprintf("starts=%v ", x)
			}
			if rapid.Bool().Draw(rt, "fEnd") {
				x := ias[rapid.IntRange(0, 3).Draw(rt, "qe")]
				if rapid.IntRange(0, 3).Draw(rt, "ewild") == 0 {
					x = addr.MustIAFrom(x.ISD(), 0)
				}
				p.EndsAt = []addr.IA{x}
				desc += fmt.Sprintf("ends=%v ", x)
			}
			if rapid.Bool().Draw(rt, "fIntf") {
				nif := rapid.IntRange(1, 2).Draw(rt, "nif")
				for j := 0; j < nif; j++ {
					p.Intfs = append(p.Intfs, &query.IntfSpec{IA: ias[rapid.IntRange(0, 3).Draw(rt, "qia")],
						IfID: iface.ID(rapid.SampledFrom([]uint16{1, 2, 5, 6, 42}).Draw(rt, "qif"))})
				}
				desc += fmt.Sprintf("intfs=%v ", func() (o []string) {
					for _, x := range p.Intfs {
						o = append(o, fmt.Sprintf("%s#%d", x.IA, x.IfID))
					}
					return
				}())
			}
			if rapid.IntRange(0, 4).Draw(rt, "fID") == 0 {
				p.SegIDs = [][]byte{pathSeg(rapid.IntRange(0, len(pIdents)-1).Draw(rt, "qid"), 0, 0, false).ID()}
				desc += "segid "
			}
			all := p.SegTypes == nil && p.HPGroupIDs == nil && p.StartsAt == nil && p.EndsAt == nil && p.Intfs == nil && p.SegIDs == nil && rapid.Bool().Draw(rt, "getall")
			hist = append(hist, desc+")")
			var res query.Results
			if all {
				res, err = db.GetAll(ctx)
			} else {
				res, err = db.Get(ctx, p)
			}
			if err != nil {
				rt.Fatalf("get: %v", err)
			}
			var got, want []string
			for _, r := range res {
				ver := -1
				if n := len(r.Seg.ASEntries); n > 0 {
					if hdr, err := signed.ExtractUnverifiedHeader(r.Seg.ASEntries[n-1].Signed); err == nil {
						ver = int(hdr.Timestamp.Unix() - base.Unix())
					}
				}
				got = append(got, fmt.Sprintf("%x/%x/v%d/%v", r.Seg.ID()[:4], r.Seg.FullID()[:6], ver, r.Type))
			}
			for id, m := range model {
				it := pIdents[id]
				if len(p.StartsAt) > 0 {
					x := p.StartsAt[0]
					if x.ISD() != it.hops[0].ISD() || (x.AS() != 0 && x != it.hops[0]) {
						continue
					}
				}
				if len(p.EndsAt) > 0 {
					x, last := p.EndsAt[0], it.hops[len(it.hops)-1]
					if x.ISD() != last.ISD() || (x.AS() != 0 && x != last) {
						continue
					}
				}
				if len(p.HPGroupIDs) > 0 {
					ok := false
					for _, g := range p.HPGroupIDs {
						ok = ok || m.groups[g]
					}
					if !ok {
						continue
					}
				}
				if len(p.Intfs) > 0 {
					ok := false
					ifs := m.interfaces(id)
					for _, x := range p.Intfs {
						ok = ok || ifs[fmt.Sprintf("%s#%d", x.IA, x.IfID)]
					}
					if !ok {
						continue
					}
				}
				s := pathSeg(id, m.version, m.exp, m.peer)
				if len(p.SegIDs) > 0 && string(p.SegIDs[0]) != string(s.ID()) {
					continue
				}
				for typ := range m.types {
					if len(p.SegTypes) > 0 {
						ok := false
						for _, t := range p.SegTypes {
							ok = ok || t == typ
						}
						if !ok {
							continue
						}
					}
					want = append(want, fmt.Sprintf("%x/%x/v%d/%v", s.ID()[:4], s.FullID()[:6], m.version, typ))
				}
			}
			sort.Strings(got)
			sort.Strings(want)
			if fmt.Sprint(got) != fmt.Sprint(want) {
				rt.Fatalf("query %s returned %v, model %v\nhistory %v", desc, got, want, hist)
			}
			for _, r := range res {
				for id, m := range model {
					if string(pathSeg(id, 0, 0, false).ID()) != string(r.Seg.ID()) {
						continue
					}
					for _, g := range r.HPGroupIDs {
						if !m.groups[g] {
							rt.Fatalf("query %s returned segment %d under group %d it was never registered with (stored groups %v)\nhistory %v", desc, id, g, m.groups, hist)
						}
					}
				}
			}
			labels["query"] = true
			if len(want) > 0 {
				labels["query_nonempty"] = true
			}
		}
	}
	var ls []string
	for l := range labels {
		ls = append(ls, "pathdb_"+l)
	}
	nt := labels["older_after_delete"] || labels["update_adds_type"] || labels["update_adds_group"] || labels["insert_after_delete"]
	rec.Case(nt, "P"+strings.Join(hist, ";"), ls...)
	rec.Eval(steps - 1)
	rec.Sample(func() any { return map[string]any{"db": "path", "history": hist} })
}

// ------------------------------- beacon DB ----------------------------------------------------

type bIdent struct {
	hops []addr.IA
	ifs  []uint16 // egress of hop 0, ingress of hop 1, egress of hop 1, ...
}

var bIdents = []bIdent{
	{[]addr.IA{ias[0]}, []uint16{1}},
	{[]addr.IA{ias[0]}, []uint16{2}},
	{[]addr.IA{ias[0], ias[1]}, []uint16{1, 2, 3}},
	{[]addr.IA{ias[2]}, []uint16{1}},
	{[]addr.IA{ias[2], ias[3], ias[1]}, []uint16{1, 2, 3, 4, 5}},
	{[]addr.IA{ias[2], ias[3]}, []uint16{1, 2, 6}},
}

var localIA = addr.MustParseIA("1-ff00:0:199")

func mkBeacon(id int, tsOff int, exp uint8) *seg.PathSegment {
	it := bIdents[id]
	ps, err := seg.CreateSegment(base.Add(time.Duration(tsOff)*time.Second), uint16(id))
	if err != nil {
		panic(err)
	}
	k := 0
	for i, ia := range it.hops {
		var in uint16
		if i > 0 {
			in = it.ifs[k]
			k++
		}
		out := it.ifs[k]
		k++
		next := localIA
		if i < len(it.hops)-1 {
			next = it.hops[i+1]
		}
		e := seg.ASEntry{Local: ia, Next: next, MTU: 1400,
			HopEntry: seg.HopEntry{HopField: seg.HopField{ConsIngress: in, ConsEgress: out, ExpTime: exp}}}
		if err := ps.AddASEntry(context.Background(), e, tsSigner{base}); err != nil {
			panic(err)
		}
	}
	return ps
}

var beaconCache = map[string]*seg.PathSegment{}

func beaconSeg(id, ts int, exp uint8) *seg.PathSegment {
	k := fmt.Sprint(id, ts, exp)
	if s, ok := beaconCache[k]; ok {
		return s
	}
	s := mkBeacon(id, ts, exp)
	beaconCache[k] = s
	return s
}

type bEntry struct {
	ts    int
	exp   uint8
	usage beacon.Usage
	inIf  uint16
}

func (m *bEntry) expiry() time.Time {
	return base.Add(time.Duration(m.ts) * time.Second).Add(time.Duration(int(m.exp)+1) * expUnit)
}

func beaconDBHistory(rt *rapid.T, rec *evid.Rec) {
	db, err := beaconsql.New(fmt.Sprintf("c27_beacondb_%d_%d", time.Now().UnixNano(), dbCounter.Add(1)), localIA, &sdb.SqliteConfig{InMemory: true})
	if err != nil {
		rt.Fatalf("open beacon DB: %v", err)
	}
	defer db.Close()
	ctx := context.Background()
	model := map[int]*bEntry{}
	labels := map[string]bool{}
	var hist []string
	deleted := false
	steps := rapid.IntRange(1, 40).Draw(rt, "steps")
	for s := 0; s < steps; s++ {
		switch op := rapid.IntRange(0, 11).Draw(rt, "op"); {
		case op <= 5:
			id := rapid.IntRange(0, len(bIdents)-1).Draw(rt, "id")
			ts := rapid.IntRange(0, 4).Draw(rt, "ts")
			exp := uint8(rapid.IntRange(0, 3).Draw(rt, "exp"))
			usage := beacon.Usage(rapid.IntRange(1, 15).Draw(rt, "usage"))
			inIf := uint16(rapid.IntRange(1, 3).Draw(rt, "inIf"))
			hist = append(hist, fmt.Sprintf("insert(beacon%d ts+%d exp%d usage=%04b in=%d)", id, ts, exp, usage, inIf))
			st, err := db.InsertBeacon(ctx, beacon.Beacon{Segment: beaconSeg(id, ts, exp), InIfID: inIf}, usage)
			if err != nil {
				rt.Fatalf("insert: %v", err)
			}
			m := model[id]
			wi, wu := 0, 0
			switch {
			case m == nil:
				model[id] = &bEntry{ts, exp, usage, inIf}
				wi = 1
				if deleted {
					labels["insert_after_delete"] = true
				}
			case ts > m.ts:
				if m.usage != usage {
					labels["update_replaces_usage"] = true
				}
				*m = bEntry{ts, exp, usage, inIf}
				wu = 1
				labels["update"] = true
			default:
				labels["older_ignored"] = true
				if deleted {
					labels["older_after_delete"] = true
				}
			}
			if st.Inserted != wi || st.Updated != wu {
				rt.Fatalf("insert returned inserted=%d updated=%d, model %d/%d\nhistory %v", st.Inserted, st.Updated, wi, wu, hist)
			}
		case op == 6:
			u := rapid.IntRange(0, 5).Draw(rt, "u")
			now := base.Add(time.Duration(u)*expUnit + 10*time.Second)
			hist = append(hist, fmt.Sprintf("deleteExpired(+%d units +10s)", u))
			cnt, err := db.DeleteExpiredBeacons(ctx, now)
			if err != nil {
				rt.Fatalf("deleteExpired: %v", err)
			}
			want := 0
			for id, m := range model {
				if m.expiry().Before(now) {
					delete(model, id)
					want++
				}
			}
			if cnt != want {
				rt.Fatalf("deleteExpiredBeacons removed %d, model has %d expired\nhistory %v", cnt, want, hist)
			}
			if want > 0 {
				deleted = true
				labels["cleanup_removed"] = true
			}
		case op == 7:
			id := rapid.IntRange(0, len(bIdents)-1).Draw(rt, "delid")
			full := strings.ToUpper(hex.EncodeToString(beaconSeg(id, 0, 0).ID()))
			prefix := full[:2*rapid.IntRange(2, len(full)/2).Draw(rt, "plen")]
			hist = append(hist, fmt.Sprintf("deleteBeacon(%s)", prefix))
			if err := db.DeleteBeacon(ctx, prefix); err != nil {
				rt.Fatalf("deleteBeacon: %v", err)
			}
			for mid := range model {
				if strings.HasPrefix(strings.ToUpper(hex.EncodeToString(beaconSeg(mid, 0, 0).ID())), prefix) {
					delete(model, mid)
					deleted = true
					labels["delete_by_id"] = true
				}
			}
		case op == 8:
			setSize := rapid.IntRange(1, 6).Draw(rt, "setSize")
			usage := beacon.Usage(1 << rapid.IntRange(0, 3).Draw(rt, "qusage"))
			var src addr.IA
			if rapid.Bool().Draw(rt, "withSrc") {
				src = []addr.IA{ias[0], ias[2]}[rapid.IntRange(0, 1).Draw(rt, "src")]
			}
			hist = append(hist, fmt.Sprintf("candidates(%d, %04b, %v)", setSize, usage, src))
			res, err := db.CandidateBeacons(ctx, setSize, usage, src)
			if err != nil {
				rt.Fatalf("candidates: %v", err)
			}
			var matching []int
			for id, m := range model {
				if m.usage&usage != usage {
					continue
				}
				if !src.IsZero() && bIdents[id].hops[0] != src {
					continue
				}
				matching = append(matching, len(bIdents[id].hops))
			}
			sort.Ints(matching)
			if len(res) != min(setSize, len(matching)) {
				rt.Fatalf("candidateBeacons returned %d, model has %d matching (setSize %d)\nhistory %v", len(res), len(matching), setSize, hist)
			}
			for i, b := range res {
				if len(b.Segment.ASEntries) != matching[i] {
					rt.Fatalf("candidate %d has length %d, the %d shortest matching have lengths %v\nhistory %v", i, len(b.Segment.ASEntries), setSize, matching, hist)
				}
				if i > 0 && len(b.Segment.ASEntries) < len(res[i-1].Segment.ASEntries) {
					rt.Fatalf("candidates not in non-decreasing length order")
				}
			}
			labels["candidates"] = true
			if len(matching) > setSize {
				labels["candidates_truncated"] = true
			}
		default:
			p := &storagebeacon.QueryParams{}
			desc := "get("
			if rapid.Bool().Draw(rt, "fStart") {
				x := []addr.IA{ias[0], ias[2], addr.MustIAFrom(1, 0), addr.MustIAFrom(0, ias[2].AS()), ias[1]}[rapid.IntRange(0, 4).Draw(rt, "qs")]
				p.StartsAt = []addr.IA{x}
				desc += fmt.Sprintf("starts=%v ", x)
			}
			if rapid.Bool().Draw(rt, "fIn") {
				p.IngressInterfaces = []uint16{uint16(rapid.IntRange(1, 3).Draw(rt, "qin"))}
				desc += fmt.Sprintf("in=%v ", p.IngressInterfaces)
			}
			if rapid.Bool().Draw(rt, "fUsage") {
				p.Usages = []beacon.Usage{beacon.Usage(rapid.IntRange(1, 15).Draw(rt, "qu"))}
				desc += fmt.Sprintf("usage=%04b ", p.Usages[0])
			}
			if rapid.Bool().Draw(rt, "fValid") {
				p.ValidAt = base.Add(time.Duration(rapid.IntRange(-1, 5).Draw(rt, "vu"))*expUnit + 10*time.Second)
				desc += fmt.Sprintf("validAt=+%v ", p.ValidAt.Sub(base))
			}
			if rapid.IntRange(0, 4).Draw(rt, "fID") == 0 {
				full := beaconSeg(rapid.IntRange(0, len(bIdents)-1).Draw(rt, "qid"), 0, 0).ID()
				p.SegIDs = [][]byte{full[:rapid.IntRange(2, len(full)).Draw(rt, "qidlen")]}
				desc += fmt.Sprintf("segid=%x ", p.SegIDs[0])
			}
			hist = append(hist, desc+")")
			res, err := db.GetBeacons(ctx, p)
			if err != nil {
				rt.Fatalf("get: %v", err)
			}
			var got, want []string
			for _, r := range res {
				got = append(got, fmt.Sprintf("%x usage=%04b in=%d ts=+%d", r.Beacon.Segment.ID()[:4], r.Usage, r.Beacon.InIfID, r.Beacon.Segment.Info.Timestamp.Unix()-base.Unix()))
			}
			for id, m := range model {
				first := bIdents[id].hops[0]
				if len(p.StartsAt) > 0 {
					x := p.StartsAt[0]
					if (x.ISD() != 0 && x.ISD() != first.ISD()) || (x.AS() != 0 && x.AS() != first.AS()) {
						continue
					}
				}
				if len(p.IngressInterfaces) > 0 && p.IngressInterfaces[0] != m.inIf {
					continue
				}
				if len(p.Usages) > 0 && m.usage&p.Usages[0] != p.Usages[0] {
					continue
				}
				if !p.ValidAt.IsZero() {
					info := base.Add(time.Duration(m.ts) * time.Second)
					if p.ValidAt.Before(info) || p.ValidAt.After(m.expiry()) {
						continue
					}
				}
				if len(p.SegIDs) > 0 && !strings.HasPrefix(string(beaconSeg(id, 0, 0).ID()), string(p.SegIDs[0])) {
					continue
				}
				want = append(want, fmt.Sprintf("%x usage=%04b in=%d ts=+%d", beaconSeg(id, 0, 0).ID()[:4], m.usage, m.inIf, m.ts))
			}
			sort.Strings(got)
			sort.Strings(want)
			if fmt.Sprint(got) != fmt.Sprint(want) {
				rt.Fatalf("query %s returned %v, model %v\nhistory %v", desc, got, want, hist)
			}
			labels["query"] = true
			if len(want) > 0 {
				labels["query_nonempty"] = true
			}
		}
	}
	var ls []string
	for l := range labels {
		ls = append(ls, "beacondb_"+l)
	}
	nt := labels["older_after_delete"] || labels["update_replaces_usage"] || labels["insert_after_delete"]
	rec.Case(nt, "B"+strings.Join(hist, ";"), ls...)
	rec.Eval(steps - 1)
	rec.Sample(func() any { return map[string]any{"db": "beacon", "history": hist} })
}

func TestC27(t *testing.T) {
	rec := evid.New("C27", "rapid stateful: histories of 1-40 operations against the real SQLite path-segment DB (insert with/without hidden-path groups over 6 segment identities x versions 0-5 x peer variants x 3 types x groups 0-3, "+
		"delete by id prefix, deleteExpired, filtered Get/GetAll, next-query insert/get) and the real SQLite beacon DB (insert over 6 identities x timestamps x usages x ingress interfaces, delete by id prefix, deleteExpired, "+
		"CandidateBeacons, filtered GetBeacons); a map model decides every returned statistic and every result set. Non-trivial: history with an insert after a deletion/clean-up or an update that adds a type/group/replaces the usage.")
	defer rec.Flush(t)
	rec.Assume("clean-up and ValidAt instants are >= 5 s away from expiry instants", "group lists returned under a group filter are only checked for inclusion in the stored groups",
		"SQLite (mattn/go-sqlite3) itself is trusted")
	rec.Require("pathdb_update", "pathdb_older_ignored", "pathdb_cleanup_removed", "pathdb_delete_by_id", "pathdb_insert_after_delete", "pathdb_update_adds_type", "pathdb_update_adds_group",
		"pathdb_update_changes_fullid", "pathdb_nextquery_older_refused", "pathdb_query_nonempty",
		"beacondb_update", "beacondb_older_ignored", "beacondb_cleanup_removed", "beacondb_delete_by_id", "beacondb_insert_after_delete", "beacondb_candidates_truncated", "beacondb_query_nonempty")
	t.Run("pathdb", func(t *testing.T) { rapid.Check(t, func(rt *rapid.T) { pathDBHistory(rt, rec) }) })
	t.Run("beacondb", func(t *testing.T) { rapid.Check(t, func(rt *rapid.T) { beaconDBHistory(rt, rec) }) })
}
