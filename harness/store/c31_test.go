package store

import (
	"context"
	"fmt"
	"sort"
	"testing"
	"testing/synctest"
	"time"

	"pgregory.net/rapid"

	"github.com/scionproto/scion/pkg/addr"
	"github.com/scionproto/scion/pkg/private/ctrl/path_mgmt"
	"github.com/scionproto/scion/pkg/segment/iface"
	"github.com/scionproto/scion/private/revcache"
	"github.com/scionproto/scion/private/revcache/memrevcache"

	"verif/internal/evid"
)

// ---------------------------------------------------------------------------------------------
// C31 — the revocation cache keeps the newest live revocation per interface.
// Stateful: generated operation sequences run against the real cache inside a synctest bubble
// (virtual clock); a map model decides every return value. Revocation times are whole seconds and
// the clock runs at +0.5 s, so no operation lands on an expiry instant (the statement does not
// define equality).
// ---------------------------------------------------------------------------------------------

type revOp struct {
	Kind     string // insert, get, getall, clean, advance
	Key      int
	TsOff    int // seconds relative to now (negative = past)
	TTL      int
	AdvanceS int
}

var revKeys = []struct {
	ia addr.IA
	id iface.ID
}{
	{addr.MustParseIA("1-ff00:0:110"), 1}, {addr.MustParseIA("1-ff00:0:110"), 2}, {addr.MustParseIA("1-ff00:0:111"), 1}, {addr.MustParseIA("2-ff00:0:110"), 1},
}

func genRevOps(rt *rapid.T) []revOp {
	n := rapid.IntRange(1, 40).Draw(rt, "n")
	var ops []revOp
	for i := 0; i < n; i++ {
		k := rapid.IntRange(0, 11).Draw(rt, "kind")
		op := revOp{Key: rapid.IntRange(0, len(revKeys)-1).Draw(rt, "key")}
		switch {
		case k < 5:
			op.Kind = "insert"
			op.TsOff = rapid.IntRange(-20, 5).Draw(rt, "tsoff")
			op.TTL = rapid.IntRange(0, 25).Draw(rt, "ttl")
		case k < 8:
			op.Kind = "get"
		case k < 9:
			op.Kind = "getall"
		case k < 10:
			op.Kind = "clean"
		default:
			op.Kind = "advance"
			op.AdvanceS = rapid.IntRange(1, 15).Draw(rt, "adv")
		}
		ops = append(ops, op)
	}
	return ops
}

func TestC31(t *testing.T) {
	rec := evid.New("C31", "rapid: sequences of 1-40 operations (insert with timestamp -20..+5 s and TTL 0..25 s, get, getAll, deleteExpired, advance clock 1-15 s) over 4 (ISD-AS, interface) keys, "+
		"executed on the real in-memory revocation cache under a virtual clock; every return value compared with a map model. "+
		"Non-trivial: history in which an older or expired revocation was refused, or a newer one replaced a live one, and the clock advanced past an expiry.")
	defer rec.Flush(t)
	rec.Assume("virtual clock via testing/synctest; revocation instants on whole seconds, clock at +0.5 s or, in half of the histories, on whole seconds (at the very instant of an expiry either reading of \"unexpired\" is taken; strictly before and after it is asserted)")
	rec.Require("insert_accepted", "insert_refused_older", "insert_refused_expired", "insert_replaces_live", "insert_after_expiry_of_newer", "get_live", "get_expired", "clean_removed", "on_expiry_instant")
	rapid.Check(t, func(rt *rapid.T) {
		ops := genRevOps(rt)
		// Half of the histories run half a second off the whole seconds on which revocations are issued and
		// expire; the others run exactly on them, so that operations fall on the very instant of an expiry.
		// Whether a revocation counts as expired at that one instant is not asserted (either answer is
		// taken); everything strictly before and after it is.
		onSecond := rapid.Bool().Draw(rt, "clockOnWholeSeconds")
		var fail string
		labels := map[string]int{}
		synctest.Test(t, func(t *testing.T) {
			if !onSecond {
				time.Sleep(500 * time.Millisecond)
			}
			c := memrevcache.New()
			ctx := context.Background()
			type entry struct {
				ts, exp   time.Time
				maybeGone bool // expired; a clean-up at the instant of its expiry may or may not have removed it
			}
			model := map[int]*entry{} // what the cache still holds (possibly expired, until cleaned or replaced)
			for i, op := range ops {
				now := time.Now()
				key := revKeys[op.Key]
				switch op.Kind {
				case "insert":
					ts := now.Truncate(time.Second).Add(time.Duration(op.TsOff) * time.Second)
					rev := &path_mgmt.RevInfo{IfID: key.id, RawIsdas: key.ia, RawTimestamp: uint32(ts.Unix()), RawTTL: uint32(op.TTL)}
					ok, err := c.Insert(ctx, rev)
					if err != nil {
						fail = fmt.Sprintf("step %d: insert error %v", i, err)
						return
					}
					exp := ts.Add(time.Duration(op.TTL) * time.Second)
					m := model[op.Key]
					live := m != nil && m.exp.After(now)
					want := exp.After(now) && (!live || ts.After(m.ts))
					if exp.Equal(now) || (m != nil && m.exp.Equal(now)) {
						// on the instant of an expiry: accepted under one reading of "unexpired" at that instant?
						alt := false
						for _, newLive := range []bool{exp.After(now), !exp.Before(now)} {
							for _, oldLive := range []bool{live, m != nil && !m.exp.Before(now)} {
								alt = alt || (ok == (newLive && (!oldLive || ts.After(m.ts))))
							}
						}
						if alt {
							labels["on_expiry_instant"]++
							want = ok
						}
					}
					if ok != want {
						fail = fmt.Sprintf("step %d: insert(key %d, ts=%s, ttl=%ds) at %s accepted=%v, model says %v (stored: %+v)", i, op.Key, ts.Format("15:04:05"), op.TTL, now.Format("15:04:05.0"), ok, want, m)
						return
					}
					switch {
					case want && live:
						labels["insert_replaces_live"]++
					case want && m != nil && !live && !ts.After(m.ts):
						labels["insert_after_expiry_of_newer"]++
					case want:
						labels["insert_accepted"]++
					case !exp.After(now):
						labels["insert_refused_expired"]++
					default:
						labels["insert_refused_older"]++
					}
					if want {
						model[op.Key] = &entry{ts: ts, exp: exp}
					}
				case "get":
					got, err := c.Get(ctx, revcache.NewKey(key.ia, key.id))
					if err != nil {
						fail = fmt.Sprintf("step %d: get error %v", i, err)
						return
					}
					m := model[op.Key]
					live := m != nil && m.exp.After(now)
					if m != nil && m.exp.Equal(now) {
						live = got != nil
						labels["on_expiry_instant"]++
					}
					if (got != nil) != live {
						fail = fmt.Sprintf("step %d: get(key %d) at %s returned %v, model live=%v (stored %+v)", i, op.Key, now.Format("15:04:05.0"), got, live, m)
						return
					}
					if got != nil {
						if !got.Timestamp().Equal(m.ts) || !got.Expiration().Equal(m.exp) || got.IfID != key.id || got.IA() != key.ia {
							fail = fmt.Sprintf("step %d: get(key %d) returned %v, model has ts=%v exp=%v", i, op.Key, got, m.ts, m.exp)
							return
						}
						labels["get_live"]++
					} else if m != nil {
						labels["get_expired"]++
					} else {
						labels["get_absent"]++
					}
				case "getall":
					ch, err := c.GetAll(ctx)
					if err != nil {
						fail = fmt.Sprintf("step %d: getAll error %v", i, err)
						return
					}
					var got []string
					for r := range ch {
						if r.Err != nil {
							fail = fmt.Sprintf("step %d: getAll item error %v", i, r.Err)
							return
						}
						got = append(got, fmt.Sprintf("%s#%d@%d", r.Rev.IA(), r.Rev.IfID, r.Rev.RawTimestamp))
					}
					returned := map[string]bool{}
					for _, g := range got {
						returned[g] = true
					}
					var want []string
					for k, m := range model {
						id := fmt.Sprintf("%s#%d@%d", revKeys[k].ia, revKeys[k].id, m.ts.Unix())
						if m.exp.After(now) || (m.exp.Equal(now) && returned[id]) {
							want = append(want, id)
						}
					}
					sort.Strings(got)
					sort.Strings(want)
					if fmt.Sprint(got) != fmt.Sprint(want) {
						fail = fmt.Sprintf("step %d: getAll at %s returned %v, model's live set %v", i, now.Format("15:04:05.0"), got, want)
						return
					}
					labels["getall"]++
				case "clean":
					cnt, err := c.DeleteExpired(ctx)
					if err != nil {
						fail = fmt.Sprintf("step %d: deleteExpired error %v", i, err)
						return
					}
					want, optional := int64(0), int64(0)
					for k, m := range model {
						switch {
						case m.exp.Equal(now):
							optional++
							m.maybeGone = true
							labels["on_expiry_instant"]++
						case m.exp.Before(now) && m.maybeGone:
							optional++
							delete(model, k)
						case m.exp.Before(now):
							want++
							delete(model, k)
						}
					}
					if cnt < want || cnt > want+optional {
						fail = fmt.Sprintf("step %d: deleteExpired removed %d, model has %d expired entries (and %d on the instant of their expiry)", i, cnt, want, optional)
						return
					}
					if want > 0 {
						labels["clean_removed"]++
					}
				case "advance":
					time.Sleep(time.Duration(op.AdvanceS) * time.Second)
				}
			}
		})
		if fail != "" {
			rt.Fatalf("%s\nhistory: %+v", fail, ops)
		}
		var ls []string
		for l, n := range labels {
			ls = append(ls, l)
			if n > 1 {
				rec.Label(l, n-1)
			}
		}
		nt := labels["insert_refused_older"]+labels["insert_refused_expired"]+labels["insert_replaces_live"] > 0 && labels["get_expired"]+labels["clean_removed"]+labels["insert_after_expiry_of_newer"] > 0
		rec.Case(nt, fmt.Sprint(ops), ls...)
		rec.Eval(len(ops) - 1)
		rec.Sample(func() any { return map[string]any{"history": fmt.Sprintf("%+v", ops)} })
	})
}
