package pkic

import (
	"bytes"
	"context"
	"crypto/ecdsa"
	"crypto/elliptic"
	"crypto/rand"
	"crypto/x509"
	"fmt"
	"testing"
	"time"

	"pgregory.net/rapid"

	"github.com/scionproto/scion/pkg/addr"
	"github.com/scionproto/scion/pkg/scrypto"
	"github.com/scionproto/scion/pkg/scrypto/cms/protocol"
	"github.com/scionproto/scion/pkg/scrypto/cppki"
	"github.com/scionproto/scion/private/ca/renewal"

	"verif/internal/evid"
	"verif/internal/pki"
)

// ---------------------------------------------------------------------------------------------
// C37 — certificate renewal is granted only to the certified AS itself.
// (a) RequestVerifier.VerifyCMSSignedRenewalRequest on requests built per case: certificate signing
//     request of the AS, CMS-signed with the AS certificate and chain, against a TRC store with the
//     latest TRC (and optionally a predecessor with grace period); one defect or none.
// (b) CAPolicy.CreateChain on drawn requests, validity durations and issuing times: an issued chain
//     carries the requested key and subject, validates, verifies against the TRC at the issuing
//     time and lies inside the CA certificate's validity.
// ---------------------------------------------------------------------------------------------

type c37TRCs map[cppki.TRCID]cppki.SignedTRC

func (m c37TRCs) SignedTRC(_ context.Context, id cppki.TRCID) (cppki.SignedTRC, error) {
	if id.Serial == scrypto.LatestVer {
		var best cppki.SignedTRC
		for k, v := range m {
			if k.ISD == id.ISD && (best.IsZero() || k.Serial > best.TRC.ID.Serial) {
				best = v
			}
		}
		return best, nil
	}
	return m[id], nil
}

func c37CMS(payload []byte, signers []*pki.Cert, certs []*x509.Certificate) ([]byte, error) {
	eci, err := protocol.NewDataEncapsulatedContentInfo(payload)
	if err != nil {
		return nil, err
	}
	sd, err := protocol.NewSignedData(eci)
	if err != nil {
		return nil, err
	}
	for _, s := range signers {
		if err := sd.AddSignerInfo([]*x509.Certificate{s.X}, s.Key); err != nil {
			return nil, err
		}
	}
	// certificates carried in the message: exactly the given ones, in this order
	sd.Certificates = nil
	for _, c := range certs {
		if err := sd.AddCertificate(c); err != nil {
			return nil, err
		}
	}
	return sd.ContentInfoDER()
}

func TestC37(t *testing.T) {
	rec := evid.New("C37", "rapid: (a) renewal requests (CSR of the AS inside a CMS SignedData with the AS chain) with one of 16 defects or none, TRC store with the latest TRC valid / not yet valid / expired and optionally a predecessor inside or outside the grace period; "+
		"(b) CAPolicy.CreateChain for drawn subjects, keys, validity durations and issuing times inside and outside the CA validity. Oracle: (a) accepted iff no defect; (b) properties of the issued chain. Non-trivial: a defective request, or an issuing time near the end of the CA validity.")
	defer rec.Flush(t)
	rec.Assume("the CMS library and x509 are trusted", "TRC payloads are placed in the store directly")
	defects := []string{"none", "none", "none", "two_signers", "signed_by_ca_certificate", "root_not_in_latest_trc", "latest_trc_not_yet_valid", "latest_trc_expired", "only_predecessor_after_grace", "only_predecessor_expired_in_grace",
		"payload_replaced_after_signing", "csr_subject_other_as", "csr_subject_without_ia", "csr_signature_corrupt", "as_certificate_expired", "signed_with_other_key", "garbage", "chain_with_three_certificates", "chain_missing", "only_predecessor_in_grace_ok"}
	req := []string{"a_accepted", "a_accepted_in_grace", "b_issued", "b_refused_not_covered", "b_near_ca_end"}
	for _, d := range defects[3 : len(defects)-1] {
		req = append(req, "a_defect_"+d)
	}
	rec.Require(req...)
	rapid.Check(t, func(rt *rapid.T) {
		ctx := context.Background()
		now := time.Now().Truncate(time.Second)
		day := 24 * time.Hour
		must := func(c *pki.Cert, err error) *pki.Cert {
			if err != nil {
				rt.Fatalf("harness: %v", err)
			}
			return c
		}
		core := addr.MustParseIA("1-ff00:0:110")
		ia := addr.MustParseIA("1-ff00:0:111")
		k := rapid.IntRange(0, 40).Draw(rt, "keys")
		nb, na := now.Add(-30*day), now.Add(300*day)
		rootA := must(pki.NewCert(cppki.Root, pki.Subject(core, "root A"), pki.Key(elliptic.P256(), 4700+k), nb, na, nil))
		rootB := must(pki.NewCert(cppki.Root, pki.Subject(core, "root B"), pki.Key(elliptic.P256(), 4750+k), nb, na, nil))
		sens := pool().get(cppki.Sensitive, 0, "A")
		reg := pool().get(cppki.Regular, 0, "A")
		mkTRC := func(serial int, root *pki.Cert, vnb, vna time.Time, grace time.Duration) cppki.SignedTRC {
			t := cppki.TRC{Version: 1, ID: cppki.TRCID{ISD: 1, Base: 1, Serial: uint64v(serial)}, Validity: cppki.Validity{NotBefore: vnb, NotAfter: vna}, Quorum: 1,
				CoreASes: []addr.AS{core.AS()}, AuthoritativeASes: []addr.AS{core.AS()}, Description: "verif", Certificates: []*x509.Certificate{sens.X, reg.X, root.X}}
			if serial > 1 {
				t.Votes, t.GracePeriod = []int{0}, grace
			}
			st, err := pki.SignTRC(t, []*pki.Cert{sens, reg})
			if err != nil {
				rt.Fatalf("harness: %v", err)
			}
			return st
		}
		if rapid.Bool().Draw(rt, "partB") {
			// ---------------- (b) issuing
			caNB, caNA := now.Add(-10*day), now.Add(100*day)
			ca := must(pki.NewCert(cppki.CA, pki.Subject(core, "ca"), pki.Key(elliptic.P256(), 4800+k), caNB, caNA, rootA))
			key := pki.Key(elliptic.P256(), 4850+k)
			subjIA := addr.MustIAFrom(1, addr.AS(0xff0000000100+uint64(rapid.IntRange(1, 500).Draw(rt, "as"))))
			subj := pki.Subject(subjIA, rapid.SampledFrom([]string{"AS", "Ärger & Söhne", ""}).Draw(rt, "cn"))
			csrDER, err := x509.CreateCertificateRequest(rand.Reader, &x509.CertificateRequest{Subject: subj}, key)
			if err != nil {
				rt.Fatalf("harness: %v", err)
			}
			csr, _ := x509.ParseCertificateRequest(csrDER)
			dur := time.Duration(rapid.OneOf(rapid.IntRange(1, 72), rapid.IntRange(24, 120*24)).Draw(rt, "validityHours")) * time.Hour
			at := now.Add(time.Duration(rapid.IntRange(-12*24, 101*24).Draw(rt, "issueAtHours")) * time.Hour)
			pol := cppki.CAPolicy{Validity: dur, Certificate: ca.X, Signer: ca.Key, CurrentTime: at, ForceECDSAWithSHA512: rapid.Bool().Draw(rt, "sha512")}
			chain, err := pol.CreateChain(csr)
			covered := !at.Before(caNB) && !at.Add(dur).After(caNA)
			desc := fmt.Sprintf("b issue at %+.1fd for %v (CA valid -10d..+100d)", at.Sub(now).Hours()/24, dur)
			if err != nil {
				if covered {
					rt.Fatalf("harness/vacuity: issuing refused although the validity is covered by the CA certificate: %v (%s)", err, desc)
				}
				rec.Case(false, desc, "b_refused_not_covered")
				return
			}
			as := chain[0]
			if as.NotAfter.After(ca.X.NotAfter) || as.NotBefore.Before(ca.X.NotBefore) {
				rt.Fatalf("issued AS certificate [%v, %v] outlives the CA certificate [%v, %v] (%s)", as.NotBefore, as.NotAfter, ca.X.NotBefore, ca.X.NotAfter, desc)
			}
			pub, ok := as.PublicKey.(*ecdsa.PublicKey)
			if !ok || !pub.Equal(key.Public()) {
				rt.Fatalf("issued certificate does not carry the requested key (%s)", desc)
			}
			gotIA, err := cppki.ExtractIA(as.Subject)
			if err != nil || gotIA != subjIA || as.Subject.CommonName != subj.CommonName {
				rt.Fatalf("issued certificate subject %v (ISD-AS %v, err %v), requested %v / %s (%s)", as.Subject, gotIA, err, subj, subjIA, desc)
			}
			if len(chain) != 2 || !chain[1].Equal(ca.X) {
				rt.Fatalf("issued chain is not (AS certificate, CA certificate) (%s)", desc)
			}
			if err := cppki.ValidateChain(chain); err != nil {
				rt.Fatalf("issued chain is not a valid chain: %v (%s)", err, desc)
			}
			trc := mkTRC(1, rootA, now.Add(-20*day), now.Add(200*day), 0)
			if err := cppki.VerifyChain(chain, cppki.VerifyOptions{TRC: []*cppki.TRC{&trc.TRC}, CurrentTime: at.Add(time.Second)}); err != nil {
				rt.Fatalf("issued chain does not verify against the TRC at the issuing time: %v (%s)", err, desc)
			}
			labels := []string{"b_issued"}
			near := caNA.Sub(at.Add(dur)) < 48*time.Hour
			if near {
				labels = append(labels, "b_near_ca_end")
			}
			rec.Case(near, desc, labels...)
			rec.Sample(func() any { return map[string]any{"case": desc, "as_not_after": as.NotAfter.String()} })
			return
		}
		// ---------------- (a) request verification
		d := rapid.SampledFrom(defects).Draw(rt, "defect")
		caRoot := rootA
		ca := must(pki.NewCert(cppki.CA, pki.Subject(core, "ca"), pki.Key(elliptic.P256(), 4800+k), nb.Add(day), na.Add(-day), caRoot))
		asNA := now.Add(30 * day)
		if d == "as_certificate_expired" {
			asNA = now.Add(-time.Hour)
		}
		key := pki.Key(elliptic.P256(), 4850+k)
		as := must(pki.NewCert(cppki.AS, pki.Subject(ia, "as"), key, nb.Add(2*day), asNA, ca))
		store := c37TRCs{}
		latestRoot := rootA
		lnb, lna := now.Add(-5*day), now.Add(100*day)
		switch d {
		case "root_not_in_latest_trc":
			latestRoot = rootB
		case "latest_trc_not_yet_valid":
			lnb = now.Add(time.Hour)
		case "latest_trc_expired":
			lna = now.Add(-time.Hour)
		}
		switch d {
		case "only_predecessor_in_grace_ok", "only_predecessor_after_grace", "only_predecessor_expired_in_grace":
			pna := now.Add(50 * day)
			grace := 10 * day
			if d == "only_predecessor_after_grace" {
				grace = 2 * day
			}
			if d == "only_predecessor_expired_in_grace" {
				pna = now.Add(-time.Hour)
			}
			pred := mkTRC(1, rootA, now.Add(-20*day), pna, 0)
			latest := mkTRC(2, rootB, lnb, lna, grace)
			store[pred.TRC.ID], store[latest.TRC.ID] = pred, latest
		default:
			latest := mkTRC(1, latestRoot, lnb, lna, 0)
			store[latest.TRC.ID] = latest
		}
		csrSubj := pki.Subject(ia, "as")
		switch d {
		case "csr_subject_other_as":
			csrSubj = pki.Subject(addr.MustParseIA("1-ff00:0:112"), "as")
		case "csr_subject_without_ia":
			csrSubj.ExtraNames = csrSubj.ExtraNames[:1]
		}
		newKey := pki.Key(elliptic.P256(), 4900+k)
		if rapid.Bool().Draw(rt, "renewSameKey") {
			newKey = key // a renewal for the key the AS already holds
		}
		csrDER, err := x509.CreateCertificateRequest(rand.Reader, &x509.CertificateRequest{Subject: csrSubj}, newKey)
		if err != nil {
			rt.Fatalf("harness: %v", err)
		}
		if d == "csr_signature_corrupt" {
			csrDER = append([]byte{}, csrDER...)
			csrDER[len(csrDER)-3] ^= 0x40 // inside the signature value
		}
		signers := []*pki.Cert{{X: as.X, Key: key}}
		certs := []*x509.Certificate{as.X, ca.X}
		switch d {
		case "two_signers":
			signers = append(signers, ca)
		case "signed_by_ca_certificate":
			signers = []*pki.Cert{ca}
		case "signed_with_other_key":
			signers = []*pki.Cert{wrongKey(&pki.Cert{X: as.X, Key: key}, 0)}
		case "chain_with_three_certificates":
			certs = append(certs, rootA.X)
		case "chain_missing":
			certs = nil
		}
		if rapid.Bool().Draw(rt, "caFirst") && len(certs) == 2 {
			certs[0], certs[1] = certs[1], certs[0] // the order in the message is not significant
		}
		raw, err := c37CMS(csrDER, signers, certs)
		if err != nil {
			rt.Fatalf("harness: building CMS: %v", err)
		}
		switch d {
		case "payload_replaced_after_signing":
			otherCSR, _ := x509.CreateCertificateRequest(rand.Reader, &x509.CertificateRequest{Subject: csrSubj}, pki.Key(elliptic.P256(), 4950+k))
			if len(otherCSR) != len(csrDER) {
				rt.Skip("replacement of different length")
			}
			i := bytes.Index(raw, csrDER)
			if i < 0 {
				rt.Fatalf("harness: payload not found in the message")
			}
			raw = append(append(append([]byte{}, raw[:i]...), otherCSR...), raw[i+len(csrDER):]...)
		case "garbage":
			raw = rapid.SliceOfN(rapid.Byte(), 0, 200).Draw(rt, "garbage")
		}
		got, verr := renewal.RequestVerifier{TRCFetcher: store}.VerifyCMSSignedRenewalRequest(ctx, raw)
		ok := d == "none" || d == "only_predecessor_in_grace_ok"
		if ok {
			if verr != nil {
				rt.Fatalf("harness/vacuity: well-formed renewal request rejected (%s): %v", d, verr)
			}
			if gotIA, _ := cppki.ExtractIA(got.Subject); gotIA != ia {
				rt.Fatalf("accepted request is for %v, expected %v", gotIA, ia)
			}
			l := "a_accepted"
			if d != "none" {
				l = "a_accepted_in_grace"
			}
			rec.Case(false, fmt.Sprint("a ", d, k), l)
			return
		}
		if verr == nil {
			rt.Fatalf("renewal request accepted although: %s", d)
		}
		rec.Case(true, fmt.Sprint("a ", d, k), "a_defect_"+d)
		rec.Sample(func() any { return map[string]any{"request_defect": d, "rejected_with": verr.Error()[:min(len(verr.Error()), 160)]} })
	})
}
