package pkic

import (
	"context"
	"crypto/elliptic"
	"crypto/x509"
	"crypto/x509/pkix"
	"fmt"
	"net"
	"sort"
	"sync/atomic"
	"testing"
	"testing/synctest"
	"time"

	"pgregory.net/rapid"

	"github.com/scionproto/scion/pkg/addr"
	"github.com/scionproto/scion/pkg/scrypto/cppki"
	sdb "github.com/scionproto/scion/private/storage/db"
	trustsql "github.com/scionproto/scion/private/storage/trust/sqlite"
	"github.com/scionproto/scion/private/trust"

	"verif/internal/evid"
	"verif/internal/pki"
)

// ---------------------------------------------------------------------------------------------
// C34 — only properly formed chains rooted in an active TRC are trusted.
// (a) cppki.VerifyChain on chains issued per case (root, CA, AS) with at most one defect in shape,
//     key usages/constraints/ISD-AS attribute, validity nesting, issuer, root membership or
//     verification time. Oracle: accepted iff no defect.
// (b) trust.FetchingProvider.GetChains on a SQLite trust database under a virtual clock: TRC 1 with
//     roots {A,B}, TRC 2 (roots {B,C}, later validity, grace period) inserted at a drawn moment,
//     chains under A, B, C and a short-lived one; queries at drawn times. Oracle: the chains handed
//     out are exactly those that verify, at that time, against the latest TRC if it is valid, or
//     against its predecessor during the grace period; nothing if the latest TRC is not valid.
// ---------------------------------------------------------------------------------------------

func bubble(t *testing.T, f func()) {
	var pv any
	synctest.Test(t, func(t *testing.T) {
		defer func() {
			if r := recover(); r != nil {
				pv = r
			}
		}()
		f()
	})
	if pv != nil {
		panic(pv)
	}
}


// bubbleFail carries a verdict out of a synctest bubble: rapid's Fatalf must run on rapid's own
// goroutine, outside the bubble (inside it, shrinking does not reproduce reliably).
type bubbleFail string

func bubbleCheck(t *testing.T, rt *rapid.T, f func(fatalf func(string, ...any))) {
	var msg string
	failed := false
	bubble(t, func() {
		defer func() {
			if r := recover(); r != nil {
				if bf, ok := r.(bubbleFail); ok {
					msg, failed = string(bf), true
					return
				}
				panic(r)
			}
		}()
		f(func(format string, a ...any) { panic(bubbleFail(fmt.Sprintf(format, a...))) })
	})
	if failed {
		rt.Fatalf("%s", msg)
	}
}

var c34Seq atomic.Int64

type c34NoFetch struct{}

func (c34NoFetch) Chains(context.Context, trust.ChainQuery, net.Addr) ([][]*x509.Certificate, error) {
	return nil, nil
}
func (c34NoFetch) TRC(context.Context, cppki.TRCID, net.Addr) (cppki.SignedTRC, error) {
	return cppki.SignedTRC{}, fmt.Errorf("not available")
}

type c34Allow struct{}

func (c34Allow) AllowRecursion(net.Addr) error { return nil }

func TestC34(t *testing.T) {
	rec := evid.New("C34", "rapid: (a) per-case root/CA/AS certificates with one of 21 defects or none, VerifyChain at a given time; (b) under testing/synctest: trust database history (TRC 2 with changed roots inserted early, on time or never; clock advances up to 70 days) and GetChains queries with and without validity filter. "+
		"Oracle: (a) accepted iff no defect; (b) returned chains == chains verifiable against the active TRC set (latest if valid, plus predecessor in grace) at that time. Non-trivial: (a) a defective chain; (b) a query during the grace period or after a TRC change.")
	defer rec.Flush(t)
	rec.Assume("x509 signature and path validation of the Go standard library is trusted", "TRC payloads in (b) are inserted directly (TRC succession is C35's subject)")
	defects := []string{"none", "none", "none", "none", "length_1", "length_3", "order_swapped", "as_with_certsign", "as_without_digital_signature", "as_without_timestamping", "as_without_ia", "ca_without_ia", "as_basic_constraints_ca",
		"ca_pathlen_1", "ca_without_pathlen_constraint", "ca_with_digital_signature", "ca_ends_before_as", "ca_starts_after_as", "as_issued_by_other_ca", "ca_issued_by_unlisted_root", "time_before_as", "time_after_as", "time_after_ca", "time_after_root", "ca_is_root_type"}
	req := []string{"a_accepted", "b_query_before_trc2", "b_query_in_grace", "b_query_after_grace", "b_latest_not_yet_valid", "b_latest_expired", "b_chain_only_under_predecessor_in_grace", "b_chain_expired", "b_validity_filter"}
	for _, d := range defects[4:] {
		req = append(req, "a_defect_"+d)
	}
	rec.Require(req...)
	rapid.Check(t, func(rt *rapid.T) {
		if rapid.Bool().Draw(rt, "partB") {
			bubbleCheck(t, rt, func(fatalf func(string, ...any)) { c34Provider(rt, rec, fatalf) })
			return
		}
		T := time.Now().Truncate(time.Second)
		ia := addr.MustParseIA("1-ff00:0:111")
		caIA := addr.MustParseIA("1-ff00:0:110")
		d := rapid.SampledFrom(defects).Draw(rt, "defect")
		must := func(c *pki.Cert, err error) *pki.Cert {
			if err != nil {
				rt.Fatalf("harness: issuing certificate: %v", err)
			}
			return c
		}
		k := rapid.IntRange(0, 50).Draw(rt, "keys")
		rootNA := T.Add(300 * 24 * time.Hour)
		if d == "time_after_root" {
			rootNA = T.Add(-time.Hour)
		}
		root := must(pki.NewCert(cppki.Root, pki.Subject(caIA, "root"), pki.Key(elliptic.P256(), 4000+k), T.Add(-100*24*time.Hour), rootNA, nil))
		other := must(pki.NewCert(cppki.Root, pki.Subject(caIA, "other root"), pki.Key(elliptic.P256(), 4100+k), T.Add(-100*24*time.Hour), T.Add(300*24*time.Hour), nil))
		caNB, caNA := T.Add(-50*24*time.Hour), T.Add(200*24*time.Hour)
		asNB, asNA := T.Add(-10*24*time.Hour), T.Add(100*24*time.Hour)
		at := T
		var caMods, asMods []func(*x509.Certificate)
		caSubj, asSubj := pki.Subject(caIA, "ca"), pki.Subject(ia, "as")
		caParent := root
		caType := cppki.CA
		switch d {
		case "as_with_certsign":
			asMods = append(asMods, func(c *x509.Certificate) { c.KeyUsage |= x509.KeyUsageCertSign })
		case "as_without_digital_signature":
			asMods = append(asMods, func(c *x509.Certificate) { c.KeyUsage = x509.KeyUsageContentCommitment })
		case "as_without_timestamping":
			asMods = append(asMods, func(c *x509.Certificate) { c.ExtKeyUsage = []x509.ExtKeyUsage{x509.ExtKeyUsageClientAuth} })
		case "as_without_ia":
			asSubj = pkix.Name{CommonName: "as without ia"}
		case "ca_without_ia":
			caSubj = pkix.Name{CommonName: "ca without ia"}
		case "as_basic_constraints_ca":
			asMods = append(asMods, func(c *x509.Certificate) { c.BasicConstraintsValid, c.IsCA = true, true })
		case "ca_pathlen_1":
			caMods = append(caMods, func(c *x509.Certificate) { c.MaxPathLen, c.MaxPathLenZero = 1, false })
		case "ca_without_pathlen_constraint":
			caMods = append(caMods, func(c *x509.Certificate) { c.MaxPathLen, c.MaxPathLenZero = -1, false })
		case "ca_with_digital_signature":
			caMods = append(caMods, func(c *x509.Certificate) { c.KeyUsage |= x509.KeyUsageDigitalSignature })
		case "ca_ends_before_as":
			caNA = asNA.Add(-time.Hour)
		case "ca_starts_after_as":
			caNB = asNB.Add(time.Hour)
		case "ca_issued_by_unlisted_root":
			caParent = other
		case "time_before_as":
			at = asNB.Add(-time.Minute)
		case "time_after_as":
			at = asNA.Add(time.Minute)
		case "time_after_ca":
			// AS certificate still valid, CA certificate not: needs a CA that does not cover the AS
			// certificate - that is the defect "ca_ends_before_as"; here only the time is moved
			at = caNA.Add(time.Minute)
		case "ca_is_root_type":
			caType = cppki.Root
		case "as_without_authority_key_id":
			asMods = append(asMods, func(c *x509.Certificate) { c.AuthorityKeyId = nil })
		}
		ca := must(pki.NewCert(caType, caSubj, pki.Key(elliptic.P256(), 4200+k), caNB, caNA, caParent, caMods...))
		asParent := ca
		if d == "as_issued_by_other_ca" {
			asParent = must(pki.NewCert(cppki.CA, caSubj, pki.Key(elliptic.P256(), 4300+k), caNB, caNA, root))
		}
		as := must(pki.NewCert(cppki.AS, asSubj, pki.Key(elliptic.P256(), 4400+k), asNB, asNA, asParent, asMods...))
		if d == "as_without_authority_key_id" && len(as.X.AuthorityKeyId) != 0 {
			rt.Skip("the standard library filled in the authority key id")
		}
		chain := []*x509.Certificate{as.X, ca.X}
		switch d {
		case "length_1":
			chain = chain[:1]
		case "length_3":
			chain = append(chain, root.X)
		case "order_swapped":
			chain[0], chain[1] = chain[1], chain[0]
		}
		trc := cppki.TRC{Version: 1, ID: cppki.TRCID{ISD: 1, Base: 1, Serial: 1}, Validity: cppki.Validity{NotBefore: T.Add(-24 * time.Hour), NotAfter: T.Add(24 * time.Hour)},
			Certificates: []*x509.Certificate{pool().get(cppki.Sensitive, 0, "A").X, root.X, pool().get(cppki.Regular, 0, "A").X}}
		err := cppki.VerifyChain(chain, cppki.VerifyOptions{TRC: []*cppki.TRC{&trc}, CurrentTime: at})
		if d == "none" {
			if err != nil {
				rt.Fatalf("harness/vacuity: well-formed chain rejected: %v", err)
			}
			rec.Case(false, fmt.Sprint("a none ", k), "a_accepted")
			return
		}
		if err == nil {
			rt.Fatalf("chain accepted although: %s", d)
		}
		rec.Case(true, fmt.Sprint("a ", d, k), "a_defect_"+d)
	})
}

func c34Provider(rt *rapid.T, rec *evid.Rec, fatalf func(string, ...any)) {
	ctx := context.Background()
	now0 := time.Now().Truncate(time.Second)
	time.Sleep(100 * time.Millisecond)
	day := 24 * time.Hour
	labels := map[string]bool{}
	must := func(c *pki.Cert, err error) *pki.Cert {
		if err != nil {
			fatalf("harness: %v", err)
		}
		return c
	}
	core := addr.MustParseIA("1-ff00:0:110")
	nb, na := now0.Add(-10*day), now0.Add(400*day)
	roots := map[string]*pki.Cert{}
	cas := map[string]*pki.Cert{}
	for i, n := range []string{"A", "B", "C"} {
		roots[n] = must(pki.NewCert(cppki.Root, pki.Subject(core, "root "+n), pki.Key(elliptic.P256(), 4500+i), nb, na, nil))
		cas[n] = must(pki.NewCert(cppki.CA, pki.Subject(core, "ca "+n), pki.Key(elliptic.P256(), 4510+i), nb.Add(day), na.Add(-day), roots[n]))
	}
	sens := must(pki.NewCert(cppki.Sensitive, pki.Subject(core, "sensitive"), pki.Key(elliptic.P256(), 4520), nb, na, nil))
	reg := must(pki.NewCert(cppki.Regular, pki.Subject(core, "regular"), pki.Key(elliptic.P256(), 4521), nb, na, nil))
	graceDays := rapid.IntRange(1, 5).Draw(rt, "graceDays")
	trc2Start := now0.Add(time.Duration(rapid.IntRange(5, 20).Draw(rt, "trc2StartDay")) * day)
	mkTRC := func(serial int, rootNames []string, vnb, vna time.Time) cppki.SignedTRC {
		t := cppki.TRC{Version: 1, ID: cppki.TRCID{ISD: 1, Base: 1, Serial: uint64v(serial)}, Validity: cppki.Validity{NotBefore: vnb, NotAfter: vna}, Quorum: 1,
			CoreASes: []addr.AS{core.AS()}, AuthoritativeASes: []addr.AS{core.AS()}, Description: "verif", Certificates: []*x509.Certificate{sens.X, reg.X}}
		for _, n := range rootNames {
			t.Certificates = append(t.Certificates, roots[n].X)
		}
		if serial > 1 {
			t.Votes, t.GracePeriod = []int{0}, time.Duration(graceDays)*day
		}
		st, err := pki.SignTRC(t, []*pki.Cert{sens, reg})
		if err != nil {
			fatalf("harness: TRC %d: %v", serial, err)
		}
		return st
	}
	trc1 := mkTRC(1, []string{"A", "B"}, now0.Add(-day), now0.Add(30*day))
	trc2 := mkTRC(2, []string{"B", "C"}, trc2Start, now0.Add(60*day))
	db, err := trustsql.New(fmt.Sprintf("c34_%d", c34Seq.Add(1)), &sdb.SqliteConfig{InMemory: true})
	if err != nil {
		fatalf("harness: %v", err)
	}
	defer db.Close()
	if _, err := db.InsertTRC(ctx, trc1); err != nil {
		fatalf("harness: %v", err)
	}
	ia := addr.MustParseIA("1-ff00:0:111")
	key := pki.Key(elliptic.P256(), 4530)
	type ch struct {
		name  string
		root  string
		chain []*x509.Certificate
	}
	var chains []ch
	for _, n := range []string{"A", "B", "C"} {
		as := must(pki.NewCert(cppki.AS, pki.Subject(ia, "as under "+n), key, nb.Add(2*day), na.Add(-2*day), cas[n]))
		chains = append(chains, ch{n, n, []*x509.Certificate{as.X, cas[n].X}})
	}
	short := must(pki.NewCert(cppki.AS, pki.Subject(ia, "short-lived as under B"), key, nb.Add(2*day), now0.Add(time.Duration(rapid.IntRange(2, 25).Draw(rt, "shortDays"))*day), cas["B"]))
	chains = append(chains, ch{"short", "B", []*x509.Certificate{short.X, cas["B"].X}})
	for _, c := range chains {
		if _, err := db.InsertChain(ctx, c.chain); err != nil {
			fatalf("harness: %v", err)
		}
	}
	prov := trust.FetchingProvider{DB: db, Recurser: c34Allow{}, Fetcher: c34NoFetch{}}
	trc2In := false
	var history []string
	nontrivial := false
	steps := rapid.IntRange(2, 8).Draw(rt, "steps")
	for i := 0; i < steps; i++ {
		switch rapid.SampledFrom([]string{"query", "query", "advance", "advance", "insert_trc2"}).Draw(rt, "step") {
		case "insert_trc2":
			if !trc2In {
				if _, err := db.InsertTRC(ctx, trc2); err != nil {
					fatalf("harness: %v", err)
				}
				trc2In = true
				history = append(history, fmt.Sprintf("insert TRC2 at day %.1f", time.Since(now0).Hours()/24))
			}
		case "advance":
			d := time.Duration(rapid.OneOf(rapid.IntRange(1, 72), rapid.IntRange(24, 40*24)).Draw(rt, "advanceHours")) * time.Hour
			// half of the advances aim at the interesting instants of the timeline
			if rapid.Bool().Draw(rt, "aimed") {
				targets := []time.Time{trc2Start.Add(-time.Hour), trc2Start.Add(time.Hour), trc2Start.Add(time.Duration(graceDays) * day / 2), trc2Start.Add(time.Duration(graceDays)*day - time.Hour),
					trc2Start.Add(time.Duration(graceDays)*day + time.Hour), now0.Add(30*day - time.Hour), now0.Add(30*day + time.Hour), now0.Add(60*day + time.Hour)}
				tg := targets[rapid.IntRange(0, len(targets)-1).Draw(rt, "target")]
				if tg.After(time.Now()) {
					d = time.Until(tg) + 13*time.Second // never exactly on a validity boundary
				}
			}
			time.Sleep(d)
			history = append(history, "advance "+d.String())
		case "query":
			now := time.Now()
			latest, pred := trc1.TRC, (*cppki.TRC)(nil)
			if trc2In {
				latest, pred = trc2.TRC, &trc1.TRC
			}
			var active []*cppki.TRC
			switch {
			case !latest.Validity.Contains(now):
				if now.Before(latest.Validity.NotBefore) {
					labels["b_latest_not_yet_valid"] = true
				} else {
					labels["b_latest_expired"] = true
				}
			default:
				active = append(active, &latest)
				if pred != nil && !now.After(latest.Validity.NotBefore.Add(latest.GracePeriod)) {
					active = append(active, pred)
					labels["b_query_in_grace"] = true
					nontrivial = true
				} else if pred != nil {
					labels["b_query_after_grace"] = true
					nontrivial = true
				} else {
					labels["b_query_before_trc2"] = true
				}
			}
			q := trust.ChainQuery{IA: ia, SubjectKeyID: chains[0].chain[0].SubjectKeyId}
			if rapid.Bool().Draw(rt, "validityFilter") {
				q.Validity = cppki.Validity{NotBefore: now, NotAfter: now.Add(time.Duration(rapid.IntRange(0, 48).Draw(rt, "queryHours")) * time.Hour)}
				labels["b_validity_filter"] = true
			}
			var want []string
			for _, c := range chains {
				cv := cppki.Validity{NotBefore: c.chain[0].NotBefore, NotAfter: c.chain[0].NotAfter}
				if !q.Validity.IsZero() && !cv.Covers(q.Validity) {
					continue
				}
				ok := false
				for _, a := range active {
					for _, r := range a.Certificates {
						if r.Equal(roots[c.root].X) && cv.Contains(now) {
							ok = true
							if a == pred {
								labels["b_chain_only_under_predecessor_in_grace"] = labels["b_chain_only_under_predecessor_in_grace"] || c.root == "A"
							}
						}
					}
				}
				if !cv.Contains(now) {
					labels["b_chain_expired"] = true
				}
				if ok {
					want = append(want, c.name)
				}
			}
			got, err := prov.GetChains(ctx, q)
			var gotN []string
			for _, g := range got {
				for _, c := range chains {
					if c.chain[0].Equal(g[0]) {
						gotN = append(gotN, c.name)
					}
				}
			}
			sort.Strings(gotN)
			sort.Strings(want)
			desc := fmt.Sprintf("query at day %.2f (TRC2 from day %.0f, grace %dd, inserted %v) filter=%v after %v", now.Sub(now0).Hours()/24, trc2Start.Sub(now0).Hours()/24, graceDays, trc2In, !q.Validity.IsZero(), history)
			if len(active) == 0 {
				if len(got) != 0 {
					fatalf("chains %v handed out although the latest TRC is not valid at that time: %s", gotN, desc)
				}
			} else {
				if err != nil {
					fatalf("GetChains failed: %v (%s)", err, desc)
				}
				if fmt.Sprint(gotN) != fmt.Sprint(want) {
					fatalf("chains handed out: %v, chains verifiable against the active TRCs at that time: %v (%s)", gotN, want, desc)
				}
			}
			history = append(history, fmt.Sprintf("query day %.1f -> %v", now.Sub(now0).Hours()/24, gotN))
		}
	}
	rec.Case(nontrivial, fmt.Sprint(history, graceDays, trc2Start.Sub(now0)), keysOf(labels)...)
	rec.Sample(func() any { return map[string]any{"history": history} })
}
