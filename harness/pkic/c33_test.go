package pkic

import (
	"bytes"
	"crypto/elliptic"
	"crypto/x509"
	"crypto/x509/pkix"
	"encoding/asn1"
	"fmt"
	"sync"
	"testing"
	"time"

	"pgregory.net/rapid"

	"github.com/scionproto/scion/pkg/addr"
	"github.com/scionproto/scion/pkg/scrypto"
	"github.com/scionproto/scion/pkg/scrypto/cppki"

	"verif/internal/evid"
	"verif/internal/pki"
)

// ---------------------------------------------------------------------------------------------
// C33 — TRC payloads are validated and encoded faithfully.
// A valid TRC is drawn from the pool (class sizes, quorum, AS lists, base or update with votes and
// grace period, validity, description); then at most one rule of the statement is violated.
// Oracle: Validate() (and therefore Encode()) must reject every payload with a violation; valid
// payloads encode, decode to an equal TRC and re-encode to the same bytes.
// ---------------------------------------------------------------------------------------------

type extraCerts struct {
	isd2Sens, asCert, caCert, shortReg, lateReg, bothUsages *pki.Cert
	dupSerialSens, dupSerialReg                             *pki.Cert // same issuer (= subject) and serial
	noIA                                                    map[string]*pki.Cert // "<class>/<i>": certificates without ISD-AS attribute
	noIAShortSens                                           *pki.Cert
}

var (
	extraOnce sync.Once
	extras    *extraCerts
)

func extra() *extraCerts {
	extraOnce.Do(func() {
		p := pool()
		e := &extraCerts{}
		must := func(c *pki.Cert, err error) *pki.Cert {
			if err != nil {
				panic(err)
			}
			return c
		}
		ia := addr.MustIAFrom(isdID, p.ases[5])
		e.isd2Sens = must(pki.NewCert(cppki.Sensitive, pki.Subject(addr.MustIAFrom(2, p.ases[0]), "2 sensitive"), pki.Key(elliptic.P256(), 3800), p.nb, p.na, nil))
		root := p.get(cppki.Root, 0, "A")
		e.caCert = must(pki.NewCert(cppki.CA, pki.Subject(ia, "ca"), pki.Key(elliptic.P256(), 3801), p.nb, p.na, root))
		e.asCert = must(pki.NewCert(cppki.AS, pki.Subject(ia, "as"), pki.Key(elliptic.P256(), 3802), p.nb, p.na, e.caCert))
		e.shortReg = must(pki.NewCert(cppki.Regular, pki.Subject(ia, "short regular"), pki.Key(elliptic.P256(), 3803), p.nb, p.na.Add(-300*24*time.Hour), nil))
		e.lateReg = must(pki.NewCert(cppki.Regular, pki.Subject(ia, "late regular"), pki.Key(elliptic.P256(), 3804), p.nb.Add(150*24*time.Hour), p.na, nil))
		e.bothUsages = must(pki.NewCert(cppki.Sensitive, pki.Subject(ia, "both usages"), pki.Key(elliptic.P256(), 3805), p.nb, p.na, nil, func(t *x509.Certificate) {
			t.UnknownExtKeyUsage = []asn1.ObjectIdentifier{cppki.OIDExtKeyUsageSensitive, cppki.OIDExtKeyUsageRegular}
		}))
		// two self-signed certificates of different classes with the same distinguished name and serial
		name := pki.Subject(ia, "same name")
		e.dupSerialSens = must(pki.NewCert(cppki.Sensitive, name, pki.Key(elliptic.P256(), 3806), p.nb, p.na, nil))
		e.dupSerialReg = must(pki.NewCert(cppki.Regular, name, pki.Key(elliptic.P256(), 3807), p.nb, p.na, nil, func(t *x509.Certificate) { t.SerialNumber = e.dupSerialSens.X.SerialNumber }))
		e.noIA = map[string]*pki.Cert{}
		k := 3820
		for _, typ := range []cppki.CertType{cppki.Sensitive, cppki.Regular} {
			for i := 0; i < 3; i++ {
				e.noIA[fmt.Sprintf("%s/%d", typ, i)] = must(pki.NewCert(typ, pkix.Name{CommonName: fmt.Sprintf("no ia %s %d", typ, i)}, pki.Key(elliptic.P256(), k), p.nb, p.na, nil))
				k++
			}
		}
		// root certificates must name an ISD-AS: one per sampled ISD
		for _, isd := range []int{1, 2, 4095, 4096, 65534, 65535} {
			e.noIA[fmt.Sprintf("root/%d", isd)] = must(pki.NewCert(cppki.Root, pki.Subject(addr.MustIAFrom(addr.ISD(isd), p.ases[0]), fmt.Sprintf("root of isd %d", isd)), pki.Key(elliptic.P256(), k), p.nb, p.na, nil))
			k++
		}
		e.noIAShortSens = must(pki.NewCert(cppki.Sensitive, pkix.Name{CommonName: "no ia short sensitive"}, pki.Key(elliptic.P256(), k), p.nb, p.na.Add(-300*24*time.Hour), nil))
		extras = e
	})
	return extras
}

func TestC33(t *testing.T) {
	rec := evid.New("C33", "rapid: valid TRC payloads from the certificate pool (2-5 sensitive, 2-5 regular voters, 1-3 roots in random order, quorum, core/authoritative lists, base TRCs and updates with votes and grace period, whole-second validity inside every certificate's validity, unicode description) "+
		"with at most one violation of one rule of the statement (24 kinds). Oracle: violation => Validate and Encode fail; none => Encode, DecodeTRC yields an equal TRC, re-encoding yields the same bytes. Non-trivial: a payload with a violation, or an update with votes and grace period.")
	defer rec.Flush(t)
	rec.Assume("certificate classification (ValidateCert) is the production one; only class membership violations visible at TRC level are generated here (certificate-level rules are C34's)")
	viol := []string{"none", "none", "none", "version_0", "version_2", "isd_0", "base_0", "base_gt_serial", "validity_empty", "validity_reversed", "base_with_grace", "base_with_votes", "quorum_0", "quorum_negative", "quorum_256",
		"quorum_gt_sensitive", "quorum_gt_regular", "cores_empty", "auth_empty", "core_wildcard", "auth_wildcard", "core_duplicate", "auth_duplicate", "cert_as", "cert_ca", "cert_both_usages", "cert_other_isd",
		"cert_ends_early", "cert_without_ia_ends_early", "cert_starts_late", "dup_issuer_serial", "dup_subject_in_class", "no_certificates"}
	req := []string{"valid_base", "valid_update", "roundtrip"}
	for _, v := range viol[3:] {
		req = append(req, "violation_"+v)
	}
	rec.Require(req...)
	p, e := pool(), extra()
	rapid.Check(t, func(rt *rapid.T) {
		var certs []*x509.Certificate
		ns := rapid.IntRange(2, 5).Draw(rt, "nSens")
		nr := rapid.IntRange(2, 5).Draw(rt, "nReg")
		nroot := rapid.IntRange(1, 3).Draw(rt, "nRoot")
		pick := func(typ cppki.CertType, n int, name string) {
			for _, a := range rapid.Permutation([]int{0, 1, 2, 3, 4}).Draw(rt, name)[:min(n, 5)] {
				certs = append(certs, p.get(typ, a, rapid.SampledFrom([]string{"A", "B"}).Draw(rt, "ver")).X)
			}
		}
		pick(cppki.Sensitive, ns, "sens")
		pick(cppki.Regular, nr, "reg")
		pick(cppki.Root, nroot, "root")
		certs = rapid.Permutation(certs).Draw(rt, "order")
		nAS := func(name string) []addr.AS {
			var out []addr.AS
			for _, i := range rapid.Permutation([]int{0, 1, 2, 3, 4, 5}).Draw(rt, name)[:rapid.IntRange(1, 4).Draw(rt, name+"N")] {
				out = append(out, p.ases[i])
			}
			return out
		}
		base := rapid.IntRange(1, 5).Draw(rt, "base")
		serial := base + rapid.IntRange(0, 3).Draw(rt, "serialOff")
		nb := p.nb.Add(time.Duration(rapid.IntRange(1, 100*24*3600).Draw(rt, "nbOff")) * time.Second)
		na := nb.Add(time.Duration(rapid.IntRange(1, 200*24*3600).Draw(rt, "dur")) * time.Second)
		trc := cppki.TRC{Version: 1, ID: cppki.TRCID{ISD: addr.ISD(isdID), Base: scrypto.Version(base), Serial: scrypto.Version(serial)},
			Validity: cppki.Validity{NotBefore: nb, NotAfter: na}, NoTrustReset: rapid.Bool().Draw(rt, "ntr"),
			Quorum: rapid.IntRange(1, min(ns, nr)).Draw(rt, "quorum"), CoreASes: nAS("cores"), AuthoritativeASes: nAS("auths"),
			Description: rapid.SampledFrom([]string{"", "verif", "ISD 1 — Prüfung ✓", "line\nbreak"}).Draw(rt, "desc"), Certificates: certs}
		if serial > base {
			trc.GracePeriod = time.Duration(rapid.IntRange(0, 86400).Draw(rt, "grace")) * time.Second
			for i := rapid.IntRange(1, 5).Draw(rt, "nVotes"); i > 0; i-- {
				trc.Votes = append(trc.Votes, rapid.IntRange(0, 12).Draw(rt, "vote"))
			}
		}
		if rapid.IntRange(0, 3).Draw(rt, "anyISD") == 0 {
			// certificates without ISD-AS attribute fit a TRC of any ISD, the boundary values included
			trc.ID.ISD = addr.ISD(rapid.SampledFrom([]int{1, 2, 4095, 4096, 65534, 65535}).Draw(rt, "isd"))
			trc.Certificates = nil
			for _, typ := range []cppki.CertType{cppki.Sensitive, cppki.Regular} {
				for i := 0; i < 3; i++ {
					trc.Certificates = append(trc.Certificates, e.noIA[fmt.Sprintf("%s/%d", typ, i)].X)
				}
			}
			trc.Certificates = append(trc.Certificates, e.noIA[fmt.Sprintf("root/%d", trc.ID.ISD)].X)
			ns, nr, nroot = 3, 3, 1
			trc.Quorum = rapid.IntRange(1, 3).Draw(rt, "quorumAnyISD")
		}
		v := rapid.SampledFrom(viol).Draw(rt, "violation")
		replaceClass := func(typ cppki.CertType, with *x509.Certificate) {
			for i, c := range trc.Certificates {
				if ct, _ := cppki.ValidateCert(c); ct == typ {
					trc.Certificates = append(append([]*x509.Certificate{}, trc.Certificates[:i]...), append([]*x509.Certificate{with}, trc.Certificates[i+1:]...)...)
					return
				}
			}
		}
		switch v {
		case "version_0":
			trc.Version = 0
		case "version_2":
			trc.Version = 2
		case "isd_0":
			trc.ID.ISD = 0
		case "base_0":
			trc.ID.Base = 0
		case "base_gt_serial":
			trc.ID.Base = trc.ID.Serial + 1
		case "validity_empty":
			trc.Validity.NotAfter = trc.Validity.NotBefore
		case "validity_reversed":
			trc.Validity.NotAfter = trc.Validity.NotBefore.Add(-time.Second)
		case "base_with_grace":
			trc.ID.Serial, trc.Votes, trc.GracePeriod = trc.ID.Base, nil, time.Second
		case "base_with_votes":
			trc.ID.Serial, trc.Votes, trc.GracePeriod = trc.ID.Base, []int{0}, 0
		case "quorum_0":
			trc.Quorum = 0
		case "quorum_negative":
			trc.Quorum = -rapid.IntRange(1, 300).Draw(rt, "negQuorum")
		case "quorum_256":
			trc.Quorum = 256
		case "quorum_gt_sensitive":
			// more regular than sensitive voters are needed: add regular voters until quorum can exceed the sensitive ones
			trc.Quorum = ns + 1
			for a := 0; a < 6 && nr < trc.Quorum; a++ {
				c := p.get(cppki.Regular, a, "A").X
				dup := false
				for _, x := range trc.Certificates {
					dup = dup || x.Subject.String() == c.Subject.String()
				}
				if !dup {
					trc.Certificates = append(trc.Certificates, c)
					nr++
				}
			}
			if nr < trc.Quorum {
				rt.Skip("cannot build")
			}
		case "quorum_gt_regular":
			trc.Quorum = nr + 1
			for a := 0; a < 6 && ns < trc.Quorum; a++ {
				c := p.get(cppki.Sensitive, a, "A").X
				dup := false
				for _, x := range trc.Certificates {
					dup = dup || x.Subject.String() == c.Subject.String()
				}
				if !dup {
					trc.Certificates = append(trc.Certificates, c)
					ns++
				}
			}
			if ns < trc.Quorum {
				rt.Skip("cannot build")
			}
		case "cores_empty":
			trc.CoreASes = nil
		case "auth_empty":
			trc.AuthoritativeASes = nil
		case "core_wildcard":
			trc.CoreASes = append(trc.CoreASes, 0)
		case "auth_wildcard":
			trc.AuthoritativeASes = append([]addr.AS{0}, trc.AuthoritativeASes...)
		case "core_duplicate":
			trc.CoreASes = append(trc.CoreASes, trc.CoreASes[0])
		case "auth_duplicate":
			trc.AuthoritativeASes = append(trc.AuthoritativeASes, trc.AuthoritativeASes[len(trc.AuthoritativeASes)-1])
		case "cert_as":
			trc.Certificates = append(trc.Certificates, e.asCert.X)
		case "cert_ca":
			trc.Certificates = append(trc.Certificates, e.caCert.X)
		case "cert_both_usages":
			trc.Certificates = append(trc.Certificates, e.bothUsages.X)
		case "cert_other_isd":
			if trc.ID.ISD == 2 {
				trc.Certificates = append(trc.Certificates, p.get(cppki.Sensitive, 5, "A").X) // an ISD 1 certificate
			} else {
				trc.Certificates = append(trc.Certificates, e.isd2Sens.X)
			}
		case "cert_ends_early":
			// the extra regular voter's certificate ends before the TRC does
			trc.Validity.NotAfter = p.na.Add(-time.Hour)
			trc.Certificates = append(trc.Certificates, e.shortReg.X)
		case "cert_without_ia_ends_early":
			trc.Validity.NotAfter = p.na.Add(-time.Hour)
			trc.Certificates = append(trc.Certificates, e.noIAShortSens.X)
		case "cert_starts_late":
			trc.Certificates = append(trc.Certificates, e.lateReg.X)
		case "dup_issuer_serial":
			trc.Certificates = append(trc.Certificates, e.dupSerialSens.X, e.dupSerialReg.X)
		case "dup_subject_in_class":
			typ := rapid.SampledFrom([]cppki.CertType{cppki.Sensitive, cppki.Regular, cppki.Root}).Draw(rt, "dupClass")
			for _, c := range trc.Certificates {
				if ct, _ := cppki.ValidateCert(c); ct == typ {
					o := p.owner(c)
					if o == nil {
						// not from the A/B pool: a second certificate with the same subject
						twin, err := pki.NewCert(typ, c.Subject, pki.Key(elliptic.P256(), 3899), c.NotBefore, c.NotAfter, nil)
						if err != nil {
							rt.Fatalf("harness: %v", err)
						}
						trc.Certificates = append(trc.Certificates, twin.X)
						break
					}
					for a := 0; a < 6; a++ {
						for _, ver := range []string{"A", "B"} {
							if x := p.get(typ, a, ver); x.X.Subject.String() == o.X.Subject.String() && !x.X.Equal(o.X) {
								trc.Certificates = append(trc.Certificates, x.X)
							}
						}
					}
					break
				}
			}
		case "no_certificates":
			trc.Certificates = nil
		}
		_ = replaceClass
		desc := fmt.Sprintf("violation=%s id=%v quorum=%d sens=%d reg=%d roots=%d votes=%v", v, trc.ID, trc.Quorum, ns, nr, nroot, trc.Votes)
		verr := trc.Validate()
		raw, eerr := trc.Encode()
		if v != "none" {
			if verr == nil {
				rt.Fatalf("payload accepted by Validate although it violates a rule: %s", desc)
			}
			if eerr == nil {
				rt.Fatalf("payload encoded although it violates a rule: %s", desc)
			}
			rec.Case(true, desc, "violation_"+v)
			return
		}
		if verr != nil || eerr != nil {
			rt.Fatalf("harness/vacuity: payload without violation rejected: validate=%v encode=%v (%s)", verr, eerr, desc)
		}
		dec, err := cppki.DecodeTRC(raw)
		if err != nil {
			rt.Fatalf("encoded valid TRC does not decode: %v (%s)", err, desc)
		}
		if d := trcDiff(&trc, &dec); d != "" {
			rt.Fatalf("encode/decode changed the TRC: %s (%s)", d, desc)
		}
		if !bytes.Equal(dec.Raw, raw) {
			rt.Fatalf("decoded TRC does not keep the encoded bytes")
		}
		raw2, err := dec.Encode()
		if err != nil || !bytes.Equal(raw2, raw) {
			rt.Fatalf("re-encoding the decoded TRC: err=%v, identical=%v (%s)", err, bytes.Equal(raw2, raw), desc)
		}
		l := "valid_base"
		if serial > base {
			l = "valid_update"
		}
		rec.Case(serial > base && trc.GracePeriod > 0, desc, l, "roundtrip")
		rec.Sample(func() any { return map[string]any{"case": desc, "encoded_bytes": len(raw)} })
	})
}

func trcDiff(a, b *cppki.TRC) string {
	switch {
	case a.Version != b.Version:
		return "version"
	case a.ID != b.ID:
		return fmt.Sprintf("id %v / %v", a.ID, b.ID)
	case !a.Validity.NotBefore.Equal(b.Validity.NotBefore) || !a.Validity.NotAfter.Equal(b.Validity.NotAfter):
		return fmt.Sprintf("validity %v / %v", a.Validity, b.Validity)
	case a.GracePeriod != b.GracePeriod:
		return fmt.Sprintf("grace period %v / %v", a.GracePeriod, b.GracePeriod)
	case a.NoTrustReset != b.NoTrustReset:
		return "noTrustReset"
	case fmt.Sprint(a.Votes) != fmt.Sprint(b.Votes) && (len(a.Votes) != 0 || len(b.Votes) != 0):
		return fmt.Sprintf("votes %v / %v", a.Votes, b.Votes)
	case a.Quorum != b.Quorum:
		return "quorum"
	case fmt.Sprint(a.CoreASes) != fmt.Sprint(b.CoreASes):
		return fmt.Sprintf("core ASes %v / %v", a.CoreASes, b.CoreASes)
	case fmt.Sprint(a.AuthoritativeASes) != fmt.Sprint(b.AuthoritativeASes):
		return fmt.Sprintf("authoritative ASes %v / %v", a.AuthoritativeASes, b.AuthoritativeASes)
	case a.Description != b.Description:
		return fmt.Sprintf("description %q / %q", a.Description, b.Description)
	case len(a.Certificates) != len(b.Certificates):
		return "number of certificates"
	}
	for i := range a.Certificates {
		if !bytes.Equal(a.Certificates[i].Raw, b.Certificates[i].Raw) {
			return fmt.Sprintf("certificate %d", i)
		}
	}
	return ""
}
