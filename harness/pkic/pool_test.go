package pkic

import (
	"crypto/ecdsa"
	"crypto/elliptic"
	"crypto/x509"
	"fmt"
	"sync"
	"time"

	"github.com/scionproto/scion/pkg/addr"
	"github.com/scionproto/scion/pkg/scrypto/cppki"

	"verif/internal/pki"
)

// A pool of TRC certificates for ISD 1: for each of 6 ASes and each class (sensitive voting, regular
// voting, root) two versions A and B with the same subject and different keys and serial numbers.
type poolT struct {
	nb, na time.Time
	ases   []addr.AS
	certs  map[string]*pki.Cert // "<class>/<as index>/<version>"
	byRaw  map[string]*pki.Cert
}

var (
	poolOnce sync.Once
	thePool  *poolT
)

const isdID = addr.ISD(1)

func pool() *poolT {
	poolOnce.Do(func() {
		now := time.Now().Truncate(time.Second)
		p := &poolT{nb: now.Add(-100 * 24 * time.Hour), na: now.Add(400 * 24 * time.Hour), certs: map[string]*pki.Cert{}, byRaw: map[string]*pki.Cert{}}
		k := 3000
		for i := 0; i < 6; i++ {
			as := addr.MustParseAS(fmt.Sprintf("ff00:0:%x", 0x110+0x10*i))
			p.ases = append(p.ases, as)
			ia := addr.MustIAFrom(isdID, as)
			for _, typ := range []cppki.CertType{cppki.Sensitive, cppki.Regular, cppki.Root} {
				for _, ver := range []string{"A", "B"} {
					c, err := pki.NewCert(typ, pki.Subject(ia, fmt.Sprintf("%s %s", ia, typ)), pki.Key(elliptic.P256(), k), p.nb, p.na, nil)
					if err != nil {
						panic(err)
					}
					k++
					p.certs[fmt.Sprintf("%s/%d/%s", typ, i, ver)] = c
					p.byRaw[string(c.X.Raw)] = c
				}
			}
		}
		thePool = p
	})
	return thePool
}

func (p *poolT) get(typ cppki.CertType, as int, ver string) *pki.Cert {
	return p.certs[fmt.Sprintf("%s/%d/%s", typ, as, ver)]
}

func (p *poolT) owner(x *x509.Certificate) *pki.Cert { return p.byRaw[string(x.Raw)] }

var (
	impMu     sync.Mutex
	impostors = map[string]*pki.Cert{}
)

// wrongKey returns a signer whose CMS signer identifier (issuer and serial number) names c but whose
// key is a different one: a self-signed look-alike certificate with the same subject and serial.
func wrongKey(c *pki.Cert, _ int) *pki.Cert {
	impMu.Lock()
	defer impMu.Unlock()
	if x, ok := impostors[string(c.X.Raw)]; ok {
		return x
	}
	typ, err := cppki.ValidateCert(c.X)
	if err != nil {
		panic(err)
	}
	var k *ecdsa.PrivateKey = pki.Key(elliptic.P256(), 3900+len(impostors))
	x, err := pki.NewCert(typ, c.X.Subject, k, c.X.NotBefore, c.X.NotAfter, nil, func(t *x509.Certificate) { t.SerialNumber = c.X.SerialNumber })
	if err != nil {
		panic(err)
	}
	impostors[string(c.X.Raw)] = x
	return x
}
