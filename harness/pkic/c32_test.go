package pkic

import (
	"crypto/elliptic"
	"crypto/x509"
	"fmt"
	"sort"
	"sync"
	"testing"
	"time"

	"pgregory.net/rapid"

	"github.com/scionproto/scion/pkg/addr"
	"github.com/scionproto/scion/pkg/scrypto"
	"github.com/scionproto/scion/pkg/scrypto/cppki"

	"verif/internal/evid"
	"verif/internal/pki"
)

// ---------------------------------------------------------------------------------------------
// C32 — TRC updates are accepted only with the required votes and signatures.
// Predecessor/successor pairs are built from the certificate pool through the production encoder and
// CMS signing; the successor is derived by drawn edit operations (replace / add / remove voters and
// roots, quorum and AS-list changes, header changes), a drawn vote list (too few, duplicates, wrong
// class, mixed, out of range) and a drawn signer set (missing signer, signature with a wrong key,
// unrelated signer). Oracle: a transcription of the statement decides whether acceptance is
// admissible; SignedTRC.Verify must not accept anything else. Properly formed updates are
// expected to be accepted (counted; a rejection of one is reported because it would make the check vacuous).
// ---------------------------------------------------------------------------------------------

type trcModel struct {
	sens, reg, root map[int]string // AS index -> version
	quorum          int
	cores, auths    []int
	noTrustReset    bool
	order           []string // certificate order: "<class>/<as>"
	twins           []int    // regular voters of these ASes appear a second time as a look-alike certificate (same distinguished name, other ISD-AS attribute and key)
}

func (m *trcModel) clone() *trcModel {
	c := &trcModel{sens: map[int]string{}, reg: map[int]string{}, root: map[int]string{}, quorum: m.quorum, noTrustReset: m.noTrustReset,
		cores: append([]int{}, m.cores...), auths: append([]int{}, m.auths...), order: append([]string{}, m.order...), twins: append([]int{}, m.twins...)}
	for k, v := range m.sens {
		c.sens[k] = v
	}
	for k, v := range m.reg {
		c.reg[k] = v
	}
	for k, v := range m.root {
		c.root[k] = v
	}
	return c
}

func (m *trcModel) class(typ cppki.CertType) map[int]string {
	switch typ {
	case cppki.Sensitive:
		return m.sens
	case cppki.Regular:
		return m.reg
	}
	return m.root
}

func (m *trcModel) certs(p *poolT) []*x509.Certificate {
	var out []*x509.Certificate
	for _, o := range m.order {
		var typ cppki.CertType
		as := asOf(o)
		for _, t := range []cppki.CertType{cppki.Sensitive, cppki.Regular, cppki.Root} {
			if o == fmt.Sprintf("%s/%d", t, as) {
				typ = t
			}
		}
		if v, ok := m.class(typ)[as]; ok {
			out = append(out, p.get(typ, as, v).X)
		}
	}
	for _, a := range m.twins {
		out = append(out, regularTwin(p, a).X)
	}
	return out
}

var (
	twinMu sync.Mutex
	twinOf = map[int]*pki.Cert{}
)

// regularTwin: a regular voting certificate with the distinguished name of AS a's regular voter
// but the ISD-AS attribute of another AS and its own key.
func regularTwin(p *poolT, a int) *pki.Cert {
	twinMu.Lock()
	defer twinMu.Unlock()
	if c, ok := twinOf[a]; ok {
		return c
	}
	orig := p.get(cppki.Regular, a, "A")
	other := addr.MustIAFrom(isdID, p.ases[(a+1)%6])
	c, err := pki.NewCert(cppki.Regular, pki.Subject(other, orig.X.Subject.CommonName), pki.Key(elliptic.P256(), 3950+a), p.nb, p.na, nil)
	if err != nil {
		panic(err)
	}
	twinOf[a] = c
	return c
}

func asOf(o string) int {
	var as int
	for i := len(o) - 1; i >= 0; i-- {
		if o[i] == '/' {
			fmt.Sscanf(o[i+1:], "%d", &as)
			break
		}
	}
	return as
}

func (m *trcModel) ases(p *poolT, idx []int) []addr.AS {
	var out []addr.AS
	for _, i := range idx {
		out = append(out, p.ases[i])
	}
	return out
}

func keysSorted(m map[int]string) []int {
	var k []int
	for x := range m {
		k = append(k, x)
	}
	sort.Ints(k)
	return k
}

func TestC32(t *testing.T) {
	rec := evid.New("C32", "rapid: predecessor TRC (2-4 sensitive, 2-4 regular voters, 1-3 roots, quorum, serial 1-3) and a successor derived by 0-3 edit operations, drawn vote list and signer set, all through the production payload encoder and CMS signer infos; also base TRCs with signer subsets. "+
		"Oracle: transcription of the statement (admissibility of acceptance). Non-trivial: successor rejected for a single reason other than the header, or an accepted update with a replaced voter or root.")
	defer rec.Flush(t)
	rec.Assume("payload validity is decided by TRC.Validate here (checked against a reference in C33)", "CMS library and ECDSA are trusted")
	rec.Require("twin_swap", "certificates_reordered", "accepted_regular", "accepted_sensitive", "accepted_base", "rejected", "replaced_regular_voter", "replaced_root", "new_voter", "too_few_votes", "duplicate_vote", "wrong_class_vote", "mixed_votes", "vote_out_of_range",
		"missing_vote_signature", "missing_new_voter_signature", "missing_root_ack", "wrong_key_signature", "header_base", "header_serial", "header_trust_reset", "regular_votes_for_sensitive_change", "base_missing_signature", "base_with_predecessor")
	p := pool()
	rapid.Check(t, func(rt *rapid.T) {
		labels := map[string]bool{}
		// ---------------- predecessor
		pm := &trcModel{sens: map[int]string{}, reg: map[int]string{}, root: map[int]string{}, noTrustReset: rapid.Bool().Draw(rt, "noTrustReset")}
		perm := rapid.Permutation([]int{0, 1, 2, 3, 4, 5}).Draw(rt, "ases")
		for _, a := range perm[:rapid.IntRange(2, 4).Draw(rt, "nSens")] {
			pm.sens[a] = "A"
		}
		perm = rapid.Permutation([]int{0, 1, 2, 3, 4, 5}).Draw(rt, "ases2")
		for _, a := range perm[:rapid.IntRange(2, 4).Draw(rt, "nReg")] {
			pm.reg[a] = "A"
		}
		perm = rapid.Permutation([]int{0, 1, 2, 3, 4, 5}).Draw(rt, "ases3")
		for _, a := range perm[:rapid.IntRange(1, 3).Draw(rt, "nRoot")] {
			pm.root[a] = "A"
		}
		pm.quorum = rapid.IntRange(1, min(len(pm.sens), len(pm.reg))).Draw(rt, "quorum")
		pm.cores = rapid.Permutation([]int{0, 1, 2, 3, 4, 5}).Draw(rt, "cores")[:rapid.IntRange(1, 3).Draw(rt, "nCores")]
		pm.auths = pm.cores[:rapid.IntRange(1, len(pm.cores)).Draw(rt, "nAuth")]
		var order []string
		for _, t := range []cppki.CertType{cppki.Sensitive, cppki.Regular, cppki.Root} {
			for a := 0; a < 6; a++ {
				order = append(order, fmt.Sprintf("%s/%d", t, a))
			}
		}
		pm.order = rapid.Permutation(order).Draw(rt, "certOrder")
		base := 1
		serial := rapid.IntRange(1, 3).Draw(rt, "predSerial")
		mk := func(m *trcModel, isd addr.ISD, base, serial int, votes []int, grace time.Duration) cppki.TRC {
			return cppki.TRC{Version: 1, ID: cppki.TRCID{ISD: isd, Base: uint64v(base), Serial: uint64v(serial)},
				Validity:    cppki.Validity{NotBefore: p.nb.Add(time.Duration(serial) * time.Hour), NotAfter: p.na.Add(-time.Hour)},
				GracePeriod: grace, NoTrustReset: m.noTrustReset, Votes: votes, Quorum: m.quorum,
				CoreASes: m.ases(p, m.cores), AuthoritativeASes: m.ases(p, m.auths), Description: "verif", Certificates: m.certs(p)}
		}
		var predVotes []int
		var predGrace time.Duration
		if serial > 1 {
			predVotes, predGrace = []int{0}, time.Hour // content of the predecessor's own votes is irrelevant here
		}
		predT := mk(pm, isdID, base, serial, predVotes, predGrace)
		raw, err := predT.Encode()
		if err != nil {
			rt.Fatalf("harness: predecessor does not encode: %v", err)
		}
		pred, err := cppki.DecodeTRC(raw)
		if err != nil {
			rt.Fatalf("harness: predecessor does not decode: %v", err)
		}
		predIdx := func(typ cppki.CertType, as int) int {
			want := p.get(typ, as, pm.class(typ)[as]).X
			for i, c := range pred.Certificates {
				if c.Equal(want) {
					return i
				}
			}
			return -1
		}

		// ---------------- base TRC cases
		if rapid.IntRange(0, 7).Draw(rt, "baseCase") == 0 {
			bt := mk(pm, isdID, 1, 1, nil, 0)
			var signers []*pki.Cert
			missing := false
			for _, typ := range []cppki.CertType{cppki.Sensitive, cppki.Regular} {
				for _, a := range keysSorted(pm.class(typ)) {
					c := p.get(typ, a, "A")
					switch rapid.IntRange(0, 11).Draw(rt, "baseSigner") {
					case 0:
						missing = true
					case 1:
						signers = append(signers, wrongKey(c, a))
						missing = true
						labels["wrong_key_signature"] = true
					default:
						signers = append(signers, c)
					}
				}
			}
			st, err := pki.SignTRC(bt, signers)
			if err != nil {
				rt.Fatalf("harness: signing base TRC: %v", err)
			}
			withPred := rapid.IntRange(0, 5).Draw(rt, "baseWithPredecessor") == 0
			var verr error
			if withPred {
				verr = st.Verify(&pred)
				labels["base_with_predecessor"] = true
			} else {
				verr = st.Verify(nil)
			}
			admissible := !missing && !withPred
			if verr == nil && !admissible {
				rt.Fatalf("base TRC accepted although %s", map[bool]string{true: "a predecessor was supplied", false: "not all voting certificates signed it"}[withPred])
			}
			if verr != nil && admissible {
				rt.Fatalf("harness/vacuity: properly signed base TRC rejected: %v", verr)
			}
			if missing {
				labels["base_missing_signature"] = true
			}
			if verr == nil {
				labels["accepted_base"] = true
			}
			rec.Case(missing, fmt.Sprintf("base missing=%v pred=%v", missing, withPred), keysOf(labels)...)
			return
		}

		// ---------------- successor
		sm := pm.clone()
		if rapid.Bool().Draw(rt, "reorderCertificates") {
			// the successor may list its certificates in any order; votes refer to predecessor positions
			sm.order = rapid.Permutation(order).Draw(rt, "successorCertOrder")
			labels["certificates_reordered"] = true
		}
		free := func(m map[int]string) []int {
			var out []int
			for a := 0; a < 6; a++ {
				if _, ok := m[a]; !ok {
					out = append(out, a)
				}
			}
			return out
		}
		var ops []string
		sensitiveChange := false
		twinSwap := false
		nOps := rapid.IntRange(0, 3).Draw(rt, "nOps")
		for i := 0; i < nOps; i++ {
			op := rapid.SampledFrom([]string{"replace_regular", "replace_regular", "replace_root", "replace_root", "replace_all_roots", "replace_sensitive", "add_sensitive", "remove_sensitive", "add_regular", "remove_regular", "add_root", "remove_root", "quorum", "cores", "auths", "cores_drop_last", "auths_drop_last", "swap_regular_via_twin"}).Draw(rt, "op")
			switch op {
			case "replace_regular", "replace_root", "replace_sensitive":
				typ := map[string]cppki.CertType{"replace_regular": cppki.Regular, "replace_root": cppki.Root, "replace_sensitive": cppki.Sensitive}[op]
				ks := keysSorted(sm.class(typ))
				a := ks[rapid.IntRange(0, len(ks)-1).Draw(rt, "which")]
				if _, inPred := pm.class(typ)[a]; inPred && sm.class(typ)[a] == "A" {
					sm.class(typ)[a] = "B"
					ops = append(ops, fmt.Sprintf("%s(%d)", op, a))
					if op == "replace_sensitive" {
						sensitiveChange = true
					}
				}
			case "replace_all_roots":
				for _, a := range keysSorted(sm.root) {
					if _, inPred := pm.root[a]; inPred {
						sm.root[a] = "B"
					}
				}
				ops = append(ops, "replace_all_roots")
			case "add_sensitive", "add_regular", "add_root":
				typ := map[string]cppki.CertType{"add_regular": cppki.Regular, "add_root": cppki.Root, "add_sensitive": cppki.Sensitive}[op]
				if f := free(sm.class(typ)); len(f) > 0 {
					a := f[rapid.IntRange(0, len(f)-1).Draw(rt, "which")]
					if _, inPred := pm.class(typ)[a]; !inPred {
						sm.class(typ)[a] = "A"
						ops = append(ops, fmt.Sprintf("%s(%d)", op, a))
						sensitiveChange = true
					}
				}
			case "remove_sensitive", "remove_regular", "remove_root":
				typ := map[string]cppki.CertType{"remove_regular": cppki.Regular, "remove_root": cppki.Root, "remove_sensitive": cppki.Sensitive}[op]
				ks := keysSorted(sm.class(typ))
				min := 1
				if typ != cppki.Root {
					min = sm.quorum
				}
				if len(ks) > min {
					a := ks[rapid.IntRange(0, len(ks)-1).Draw(rt, "which")]
					delete(sm.class(typ), a)
					ops = append(ops, fmt.Sprintf("%s(%d)", op, a))
					sensitiveChange = true
				}
			case "quorum":
				q := rapid.IntRange(1, min(len(sm.sens), len(sm.reg))).Draw(rt, "newQuorum")
				if q != sm.quorum {
					sm.quorum = q
					ops = append(ops, "quorum")
					sensitiveChange = true
				}
			case "cores":
				sm.cores = append(sm.cores, free(map[int]string{sm.cores[0]: ""})[0])
				ops = append(ops, "cores")
				sensitiveChange = true
			case "cores_drop_last":
				if len(sm.cores) > 1 && len(sm.cores) > len(sm.auths) {
					sm.cores = sm.cores[:len(sm.cores)-1]
					ops = append(ops, "cores_drop_last")
					sensitiveChange = true
				}
			case "auths_drop_last":
				if len(sm.auths) > 1 {
					sm.auths = sm.auths[:len(sm.auths)-1]
					ops = append(ops, "auths_drop_last")
					sensitiveChange = true
				}
			case "swap_regular_via_twin":
				// one regular voter disappears, another one appears twice (original and look-alike): the
				// number of regular voters is unchanged
				ks := keysSorted(sm.reg)
				if len(ks) >= 3 && len(sm.twins) == 0 {
					b := ks[rapid.IntRange(0, len(ks)-1).Draw(rt, "removedVoter")]
					c := ks[(rapid.IntRange(1, len(ks)-1).Draw(rt, "doubledVoter")+indexOf(ks, b))%len(ks)]
					if _, inPred := pm.reg[b]; inPred && b != c {
						delete(sm.reg, b)
						sm.twins = append(sm.twins, c)
						ops = append(ops, fmt.Sprintf("swap_regular_via_twin(-%d,+twin of %d)", b, c))
						twinSwap = true
					}
				}
			case "auths":
				if len(sm.auths) < len(sm.cores) {
					sm.auths = sm.cores[:len(sm.auths)+1]
					ops = append(ops, "auths")
					sensitiveChange = true
				}
			}
		}
		// the look-alike only doubles a voter that is still there, unchanged, at the end: a later operation
		// may have removed or replaced the original, then the look-alike is left out again (what remains is
		// an ordinary removal)
		if twinSwap {
			c := sm.twins[0]
			if v, still := sm.reg[c]; !still || v != pm.reg[c] {
				sm.twins, twinSwap = nil, false
				ops = append(ops, "look-alike dropped again")
			}
		}
		// keep the payload valid
		if sm.quorum > len(sm.sens) || sm.quorum > len(sm.reg) {
			sm.quorum = min(len(sm.sens), len(sm.reg))
			sensitiveChange = sensitiveChange || sm.quorum != pm.quorum
		}
		// header
		sISD, sBase, sSerial := isdID, base, serial+1
		header := ""
		switch rapid.IntRange(0, 15).Draw(rt, "header") {
		case 0:
			sISD, header = 2, "isd"
		case 1:
			sBase, header = 2, "base"
			if sSerial < sBase {
				sSerial = sBase + 1
			}
		case 2:
			sSerial, header = serial+2, "serial"
		case 3:
			sm.noTrustReset, header = !pm.noTrustReset, "trust_reset"
		}
		if sISD != isdID {
			// certificates of ISD 1 in a TRC of ISD 2 make the payload invalid; that is a different reason
			sISD, header = isdID, ""
		}
		if header != "" {
			labels["header_"+header] = true
		}
		// which voting certificates are new, which regular voters / roots are replaced
		var newVoters []*pki.Cert
		var replacedReg []int // predecessor indices
		var rootAcks []*pki.Cert
		for _, typ := range []cppki.CertType{cppki.Sensitive, cppki.Regular} {
			for _, a := range keysSorted(sm.class(typ)) {
				if v, ok := pm.class(typ)[a]; !ok || v != sm.class(typ)[a] {
					newVoters = append(newVoters, p.get(typ, a, sm.class(typ)[a]))
					labels["new_voter"] = true
					if ok && typ == cppki.Regular {
						replacedReg = append(replacedReg, predIdx(cppki.Regular, a))
						labels["replaced_regular_voter"] = true
					}
				}
			}
		}
		for _, a := range sm.twins {
			newVoters = append(newVoters, regularTwin(p, a))
		}
		for _, a := range keysSorted(sm.root) {
			if v, ok := pm.root[a]; ok && v != sm.root[a] {
				rootAcks = append(rootAcks, p.get(cppki.Root, a, "A"))
				labels["replaced_root"] = true
			}
		}
		// ---------------- votes
		voteClass := cppki.Regular
		if sensitiveChange || rapid.IntRange(0, 3).Draw(rt, "sensitiveVotesAnyway") == 0 {
			voteClass = cppki.Sensitive
		}
		if sensitiveChange && rapid.IntRange(0, 5).Draw(rt, "regularVotesForSensitiveChange") == 0 {
			voteClass = cppki.Regular
			labels["regular_votes_for_sensitive_change"] = true
		}
		var votes []int
		vks := rapid.Permutation(keysSorted(pm.class(voteClass))).Draw(rt, "voters")
		nv := rapid.IntRange(pm.quorum, len(vks)).Draw(rt, "nVotes")
		for _, a := range vks[:nv] {
			votes = append(votes, predIdx(voteClass, a))
		}
		if voteClass == cppki.Regular {
			for _, ri := range replacedReg {
				has := false
				for _, v := range votes {
					has = has || v == ri
				}
				if !has && rapid.IntRange(0, 4).Draw(rt, "replacedDoesNotVote") != 0 {
					votes = append(votes, ri)
				}
			}
		}
		switch rapid.IntRange(0, 11).Draw(rt, "voteDefect") {
		case 0:
			if pm.quorum > 1 {
				votes = votes[:pm.quorum-1]
				labels["too_few_votes"] = true
			}
		case 1:
			votes = append(votes[:min(len(votes), pm.quorum-1)], votes[0])
			if pm.quorum >= 2 {
				labels["duplicate_vote"] = true
			}
		case 2:
			other := cppki.Root
			votes = append(votes, predIdx(other, keysSorted(pm.root)[0]))
			labels["wrong_class_vote"] = true
		case 3:
			other := cppki.Sensitive
			if voteClass == cppki.Sensitive {
				other = cppki.Regular
			}
			votes = append(votes, predIdx(other, keysSorted(pm.class(other))[0]))
			if rapid.Bool().Draw(rt, "mixedFirst") {
				votes[0], votes[len(votes)-1] = votes[len(votes)-1], votes[0]
			}
			labels["mixed_votes"] = true
		case 4:
			votes = append(votes, len(pred.Certificates)+rapid.IntRange(0, 3).Draw(rt, "beyond"))
			labels["vote_out_of_range"] = true
		}
		if len(votes) == 0 {
			votes = []int{predIdx(voteClass, vks[0])}
		}
		// ---------------- signers
		var signers []*pki.Cert
		signed := map[string]bool{}
		add := func(c *pki.Cert, what string) {
			hi := 13
			if what == "root_ack" {
				hi = 5
			}
			switch rapid.IntRange(0, hi).Draw(rt, "signerDefect") {
			case 0:
				labels["missing_"+what] = true
				return
			case 1:
				signers = append(signers, wrongKey(c, len(signers)))
				labels["wrong_key_signature"] = true
				return
			}
			if !signed[string(c.X.Raw)] {
				signers = append(signers, c)
				signed[string(c.X.Raw)] = true
			}
		}
		for _, v := range votes {
			if v >= 0 && v < len(pred.Certificates) {
				if c := p.owner(pred.Certificates[v]); c != nil && !signed[string(c.X.Raw)] {
					add(c, "vote_signature")
				}
			}
		}
		for _, c := range newVoters {
			if !signed[string(c.X.Raw)] {
				add(c, "new_voter_signature")
			}
		}
		for _, c := range rootAcks {
			if !signed[string(c.X.Raw)] {
				add(c, "root_ack")
			}
		}
		if rapid.IntRange(0, 4).Draw(rt, "unrelatedSigner") == 0 {
			signers = append(signers, p.get(cppki.Root, 5, "B"))
		}
		succ := mk(sm, sISD, sBase, sSerial, votes, time.Duration(rapid.IntRange(0, 7200).Draw(rt, "grace"))*time.Second)
		st, err := pki.SignTRC(succ, signers)
		if err != nil {
			if twinSwap {
				// the payload validation refuses two voters with the same distinguished name: the
				// update cannot even be encoded, which is the expected rejection
				labels["twin_swap"] = true
				labels["rejected"] = true
				rec.Case(true, fmt.Sprintf("ops=%v rejected at encoding: %v", ops, err), keysOf(labels)...)
				return
			}
			rt.Skip("successor payload cannot be encoded: " + err.Error())
		}
		verr := st.Verify(&pred)

		// ---------------- reference admissibility
		reason := ""
		fail := func(r string) {
			if reason == "" {
				reason = r
			}
		}
		if twinSwap {
			fail("two regular voting certificates with the same distinguished name (and a regular voter removed)")
			labels["twin_swap"] = true
		}
		if sISD != pred.ID.ISD {
			fail("ISD differs")
		}
		if uint64v(sBase) != pred.ID.Base {
			fail("base number differs")
		}
		if uint64v(sSerial) != pred.ID.Serial+1 {
			fail("serial is not the next one")
		}
		if sm.noTrustReset != pm.noTrustReset {
			fail("trust-reset flag changed")
		}
		distinct := map[int]bool{}
		allSens, allReg := true, true
		for _, v := range votes {
			if v < 0 || v >= len(pred.Certificates) {
				fail("vote index out of range")
				allSens, allReg = false, false
				continue
			}
			if distinct[v] {
				fail("duplicate vote")
			}
			distinct[v] = true
			ct, _ := cppki.ValidateCert(pred.Certificates[v])
			allSens = allSens && ct == cppki.Sensitive
			allReg = allReg && ct == cppki.Regular
		}
		if len(distinct) < pm.quorum {
			fail("fewer distinct votes than the predecessor's quorum")
		}
		for v := range distinct {
			if c := p.owner(pred.Certificates[v]); c == nil || !signed[string(c.X.Raw)] {
				fail("a voter did not sign")
			}
		}
		sameSet := func(a, b map[int]string, sameVersion bool) bool {
			if len(a) != len(b) {
				return false
			}
			for k, v := range a {
				if w, ok := b[k]; !ok || (sameVersion && v != w) {
					return false
				}
			}
			return true
		}
		regularOK := allReg && sm.quorum == pm.quorum && fmt.Sprint(sm.cores) == fmt.Sprint(pm.cores) && fmt.Sprint(sm.auths) == fmt.Sprint(pm.auths) &&
			sameSet(sm.sens, pm.sens, true) && sameSet(sm.root, pm.root, false) && sameSet(sm.reg, pm.reg, false)
		if regularOK {
			for _, ri := range replacedReg {
				if !distinct[ri] {
					regularOK = false
				}
			}
			for _, c := range rootAcks {
				if !signed[string(c.X.Raw)] {
					regularOK = false
				}
			}
		}
		if !allSens && !regularOK {
			fail("neither a sensitive update (all votes by sensitive voters) nor an admissible regular update")
		}
		for _, c := range newVoters {
			if !signed[string(c.X.Raw)] {
				fail("a newly introduced voting certificate did not sign")
			}
		}
		desc := fmt.Sprintf("ops=%v header=%s voteClass=%s votes=%v quorum=%d->%d signers=%d reason=%q", ops, header, voteClass, votes, pm.quorum, sm.quorum, len(signers), reason)
		if verr == nil && reason != "" {
			rt.Fatalf("TRC update accepted although: %s (%s)", reason, desc)
		}
		if verr != nil && reason == "" {
			rt.Fatalf("harness/vacuity: update that meets every condition of the statement rejected: %v (%s)", verr, desc)
		}
		if verr == nil {
			if allSens {
				labels["accepted_sensitive"] = true
			} else {
				labels["accepted_regular"] = true
			}
		} else {
			labels["rejected"] = true
		}
		rec.Case((verr != nil && header == "") || (verr == nil && (labels["replaced_regular_voter"] || labels["replaced_root"])), desc, keysOf(labels)...)
		rec.Sample(func() any { return map[string]any{"case": desc, "accepted": verr == nil} })
	})
}

func indexOf(ks []int, v int) int {
	for i, k := range ks {
		if k == v {
			return i
		}
	}
	return 0
}

func uint64v(i int) scrypto.Version { return scrypto.Version(i) }

func keysOf(m map[string]bool) []string {
	var out []string
	for k := range m {
		out = append(out, k)
	}
	return out
}
