package pkic

import (
	"bytes"
	"context"
	"crypto/x509"
	"encoding/pem"
	"fmt"
	"net"
	"os"
	"path/filepath"
	"sync"
	"testing"
	"time"

	"pgregory.net/rapid"

	"github.com/scionproto/scion/pkg/addr"
	"github.com/scionproto/scion/pkg/scrypto"
	"github.com/scionproto/scion/pkg/scrypto/cppki"
	sdb "github.com/scionproto/scion/private/storage/db"
	trustsql "github.com/scionproto/scion/private/storage/trust/sqlite"
	"github.com/scionproto/scion/private/trust"

	"verif/internal/evid"
	"verif/internal/pki"
)

// ---------------------------------------------------------------------------------------------
// C35 — the trust store only advances along verified TRC successions.
// A succession of 7 properly voted and signed TRCs (serial 1-7, base 1) plus, per serial, defective
// variants (vote signature missing; trust-reset flag flipped; successor of a different predecessor)
// and a TRC of base 2. History on a SQLite trust database that starts with serials 1..k:
// notifications with stale / current / future serials and other base numbers, while a scripted
// remote serves each serial as good, defective or not at all (and changes between notifications).
// Oracle after every notification: stored serials are exactly 1..L for the model's L (advance one
// by one, stop at the first serial that cannot be fetched or verified), stored bytes are the good
// TRCs, L never decreases, error returned iff the requested serial was not reached.
// LoadTRCs: files with validity start before/after now; future ones must not be stored.
// ---------------------------------------------------------------------------------------------

type c35World struct {
	good   map[int]cppki.SignedTRC
	bad    map[string]cppki.SignedTRC // "<serial>/<kind>"
	base2  cppki.SignedTRC
	future cppki.SignedTRC // serial 8, validity starts in 30 days
}

var (
	c35Once sync.Once
	c35W    *c35World
)

func c35Setup() *c35World {
	c35Once.Do(func() {
		p := pool()
		w := &c35World{good: map[int]cppki.SignedTRC{}, bad: map[string]cppki.SignedTRC{}}
		now := time.Now().Truncate(time.Second)
		var certs []*x509.Certificate
		var sens, reg []*pki.Cert
		for a := 0; a < 3; a++ {
			sens = append(sens, p.get(cppki.Sensitive, a, "A"))
			reg = append(reg, p.get(cppki.Regular, a, "A"))
		}
		for _, c := range sens {
			certs = append(certs, c.X)
		}
		for _, c := range reg {
			certs = append(certs, c.X)
		}
		certs = append(certs, p.get(cppki.Root, 0, "A").X, p.get(cppki.Root, 1, "A").X)
		mk := func(base, serial int, ntr bool, nb time.Time) cppki.TRC {
			t := cppki.TRC{Version: 1, ID: cppki.TRCID{ISD: addr.ISD(isdID), Base: scrypto.Version(base), Serial: scrypto.Version(serial)},
				Validity: cppki.Validity{NotBefore: nb, NotAfter: now.Add(300 * 24 * time.Hour)}, NoTrustReset: ntr, Quorum: 2,
				CoreASes: []addr.AS{p.ases[0]}, AuthoritativeASes: []addr.AS{p.ases[0]}, Description: fmt.Sprintf("serial %d", serial), Certificates: certs}
			if serial > base {
				t.Votes, t.GracePeriod = []int{3, 4}, time.Hour // regular voters 0 and 1
			}
			return t
		}
		sign := func(t cppki.TRC, signers ...*pki.Cert) cppki.SignedTRC {
			st, err := pki.SignTRC(t, signers)
			if err != nil {
				panic(err)
			}
			return st
		}
		all := append(append([]*pki.Cert{}, sens...), reg...)
		w.good[1] = sign(mk(1, 1, false, now.Add(-20*24*time.Hour)), all...)
		for s := 2; s <= 7; s++ {
			nb := now.Add(-20*24*time.Hour + time.Duration(s)*time.Hour)
			w.good[s] = sign(mk(1, s, false, nb), reg[0], reg[1])
			w.bad[fmt.Sprintf("%d/missing_signature", s)] = sign(mk(1, s, false, nb), reg[0])
			w.bad[fmt.Sprintf("%d/trust_reset_flipped", s)] = sign(mk(1, s, true, nb), reg[0], reg[1])
			wrongVotes := mk(1, s, false, nb)
			wrongVotes.Votes = []int{3, 6} // a root certificate votes
			w.bad[fmt.Sprintf("%d/vote_by_root", s)] = sign(wrongVotes, reg[0], p.get(cppki.Root, 0, "A"))
		}
		w.base2 = sign(mk(2, 2, false, now.Add(-24*time.Hour)), all...)
		w.future = sign(mk(1, 8, false, now.Add(30*24*time.Hour)), reg[0], reg[1])
		c35W = w
	})
	return c35W
}

type c35Fetcher struct {
	serve map[int]string // serial -> "good" | bad kind | "" (unavailable)
	w     *c35World
	asked []int
}

func (f *c35Fetcher) Chains(context.Context, trust.ChainQuery, net.Addr) ([][]*x509.Certificate, error) {
	return nil, nil
}

func (f *c35Fetcher) TRC(_ context.Context, id cppki.TRCID, _ net.Addr) (cppki.SignedTRC, error) {
	f.asked = append(f.asked, int(id.Serial))
	if id.Base != 1 {
		return cppki.SignedTRC{}, fmt.Errorf("no such TRC")
	}
	switch k := f.serve[int(id.Serial)]; k {
	case "":
		return cppki.SignedTRC{}, fmt.Errorf("TRC %v not available", id)
	case "good":
		return f.w.good[int(id.Serial)], nil
	default:
		return f.w.bad[fmt.Sprintf("%d/%s", id.Serial, k)], nil
	}
}

func TestC35(t *testing.T) {
	rec := evid.New("C35", "rapid stateful: trust database starting with serials 1..k (k 1-3); 2-10 steps: change what the remote serves for a serial (good, signature missing, trust-reset flag flipped, vote by a root certificate, unavailable), notify (serial 0-9, base 1 or 2), load TRC files from a directory (past and future validity, already stored ones). "+
		"Oracle: model of sequential verified advance. Non-trivial: a notification that advanced by >= 2 serials or stopped at a defective / unavailable serial.")
	defer rec.Flush(t)
	rec.Assume("the remote returns only TRCs with the requested id (the production gRPC fetcher rejects others)", "TRC update verification itself is C32's subject")
	rec.Require("advance_1", "advance_multi", "stopped_unavailable", "stopped_missing_signature", "stopped_trust_reset_flipped", "stopped_vote_by_root", "stale_notification", "current_notification", "other_base", "retry_after_fix", "load_future_ignored", "load_stored", "load_already_present", "periodic_loader_repeated", "inserted_out_of_order", "only_latest_at_start", "history_loaded_after_latest")
	w := c35Setup()
	rapid.Check(t, func(rt *rapid.T) {
		ctx := context.Background()
		db, err := trustsql.New(fmt.Sprintf("c35_%d_%d", time.Now().UnixNano(), c34Seq.Add(1)), &sdb.SqliteConfig{InMemory: true})
		if err != nil {
			rt.Fatalf("harness: %v", err)
		}
		defer db.Close()
		L := rapid.IntRange(1, 3).Draw(rt, "initial")
		have := map[int]bool{}
		// the initial content: serials 1..L in order, in any order, or only the latest one (a node
		// bootstrapped with the current TRC whose history arrives later from disk)
		initial := []int{}
		for s := 1; s <= L; s++ {
			initial = append(initial, s)
		}
		labels := map[string]bool{}
		switch rapid.IntRange(0, 2).Draw(rt, "initialMode") {
		case 1:
			initial = rapid.Permutation(initial).Draw(rt, "initialOrder")
			if L > 1 && initial[0] != 1 {
				labels["inserted_out_of_order"] = true
			}
		case 2:
			initial = []int{L}
			if L > 1 {
				labels["only_latest_at_start"] = true
			}
		}
		for _, s := range initial {
			if _, err := db.InsertTRC(ctx, w.good[s]); err != nil {
				rt.Fatalf("harness: %v", err)
			}
			have[s] = true
		}
		f := &c35Fetcher{serve: map[int]string{}, w: w}
		for s := 2; s <= 7; s++ {
			f.serve[s] = rapid.SampledFrom([]string{"good", "good", "good", "good", "", "missing_signature", "trust_reset_flipped", "vote_by_root"}).Draw(rt, "serve")
		}
		prov := trust.FetchingProvider{DB: db, Recurser: c34Allow{}, Fetcher: f}
		var history []string
		nontrivial := false
		failedBefore := false
		check := func(what string) {
			for s := 1; s <= 9; s++ {
				got, err := db.SignedTRC(ctx, cppki.TRCID{ISD: addr.ISD(isdID), Base: 1, Serial: scrypto.Version(s)})
				if err != nil {
					rt.Fatalf("harness: reading TRC %d: %v", s, err)
				}
				if have[s] {
					if got.IsZero() {
						rt.Fatalf("after %s: TRC serial %d is missing although it was stored (latest %d) (%v)", what, s, L, history)
					}
					if !bytes.Equal(got.Raw, w.good[s].Raw) {
						rt.Fatalf("after %s: stored TRC serial %d is not the verified successor (%v)", what, s, history)
					}
				} else if !got.IsZero() {
					rt.Fatalf("after %s: TRC serial %d is stored although the succession only verifies up to %d (%v)", what, s, L, history)
				}
			}
			latest, err := db.SignedTRC(ctx, cppki.TRCID{ISD: addr.ISD(isdID), Base: scrypto.LatestVer, Serial: scrypto.LatestVer})
			if err != nil || int(latest.TRC.ID.Serial) != L || latest.TRC.ID.Base != 1 {
				rt.Fatalf("after %s: latest TRC is %v (err %v), expected serial %d base 1 (%v)", what, latest.TRC.ID, err, L, history)
			}
		}
		dir := ""
		var loader *trust.TRCLoader
		nPeriodic := 0
		defer func() {
			if dir != "" {
				os.RemoveAll(dir)
			}
		}()
		steps := rapid.IntRange(2, 10).Draw(rt, "steps")
		for i := 0; i < steps; i++ {
			switch rapid.SampledFrom([]string{"notify", "notify", "notify", "serve", "load", "load"}).Draw(rt, "step") {
			case "serve":
				s := rapid.IntRange(2, 7).Draw(rt, "serial")
				f.serve[s] = rapid.SampledFrom([]string{"good", "good", "", "missing_signature", "trust_reset_flipped", "vote_by_root"}).Draw(rt, "kind")
				history = append(history, fmt.Sprintf("remote serves %d as %q", s, f.serve[s]))
			case "notify":
				base := 1
				if rapid.IntRange(0, 6).Draw(rt, "otherBase") == 0 {
					base = 2
				}
				s := rapid.IntRange(0, 9).Draw(rt, "notifiedSerial")
				if base == 2 && s < 2 {
					s = 2
				}
				before := L
				wantErr := false
				stop := ""
				switch {
				case base != 1:
					wantErr = true
					labels["other_base"] = true
				case s <= L:
					if s == L {
						labels["current_notification"] = true
					} else {
						labels["stale_notification"] = true
					}
				default:
					for n := L + 1; n <= s; n++ {
						k := f.serve[n]
						if n > 7 {
							k = ""
						}
						if k != "good" {
							wantErr = true
							stop = k
							if k == "" {
								stop = "unavailable"
							}
							break
						}
						L = n
						have[n] = true
					}
				}
				err := prov.NotifyTRC(ctx, cppki.TRCID{ISD: addr.ISD(isdID), Base: scrypto.Version(base), Serial: scrypto.Version(s)}, trust.Server(&net.UDPAddr{IP: net.IPv4(10, 0, 0, 1), Port: 30252}))
				history = append(history, fmt.Sprintf("notify base %d serial %d -> %v (model: latest %d->%d, stop %q)", base, s, err != nil, before, L, stop))
				if (err != nil) != wantErr {
					rt.Fatalf("notification returned %v, the model expects error=%v (%v)", err, wantErr, history)
				}
				check(fmt.Sprintf("notification of serial %d", s))
				switch d := L - before; {
				case d == 1:
					labels["advance_1"] = true
				case d >= 2:
					labels["advance_multi"] = true
					nontrivial = true
				}
				if stop != "" {
					labels["stopped_"+stop] = true
					nontrivial = true
					failedBefore = true
				} else if failedBefore && L > before {
					labels["retry_after_fix"] = true
				}
			case "load":
				// one directory per case, loaded repeatedly: once-only loader (LoadTRCs) or the periodic
				// loader object that remembers the files it has dealt with
				if dir == "" {
					d, err := os.MkdirTemp("", "verif-c35-")
					if err != nil {
						rt.Fatalf("harness: %v", err)
					}
					dir = d
					loader = &trust.TRCLoader{Dir: dir, DB: db}
				}
				write := func(name string, st cppki.SignedTRC, asPEM bool) {
					raw := st.Raw
					if asPEM {
						raw = pem.EncodeToMemory(&pem.Block{Type: "TRC", Bytes: st.Raw})
					}
					if err := os.WriteFile(filepath.Join(dir, name), raw, 0o644); err != nil {
						rt.Fatalf("harness: %v", err)
					}
				}
				write("future.trc", w.future, rapid.Bool().Draw(rt, "pem"))
				next := L + 1
				loadNext := next <= 7 && rapid.Bool().Draw(rt, "loadNext")
				if loadNext {
					write(fmt.Sprintf("next%d.trc", next), w.good[next], rapid.Bool().Draw(rt, "pem2"))
				}
				write("old.trc", w.good[1], false)
				loadedOld := !have[1]
				have[1] = true
				if loadedOld {
					labels["history_loaded_after_latest"] = true
				}
				var res trust.LoadResult
				var err error
				periodic := rapid.Bool().Draw(rt, "periodicLoader")
				if periodic {
					res, err = loader.Load(ctx)
					nPeriodic++
					if nPeriodic >= 2 {
						labels["periodic_loader_repeated"] = true
					}
				} else {
					res, err = trust.LoadTRCs(ctx, dir, db)
				}
				if err != nil {
					rt.Fatalf("loading TRCs: %v", err)
				}
				for _, f := range res.Loaded {
					if filepath.Base(f) == "future.trc" {
						rt.Fatalf("a TRC whose validity starts in 30 days was loaded from disk (periodic loader: %v, round %d): %v", periodic, nPeriodic, res.Loaded)
					}
				}
				labels["load_future_ignored"] = true
				labels["load_already_present"] = true
				if loadNext {
					L = next
					have[next] = true
					labels["load_stored"] = true
				}
				history = append(history, fmt.Sprintf("load dir (next=%v) -> latest %d", loadNext, L))
				check("loading TRCs from disk")
			}
		}
		rec.Case(nontrivial, fmt.Sprint(history), keysOf(labels)...)
		rec.Sample(func() any { return map[string]any{"history": history, "fetched_serials": f.asked} })
	})
}
