package pkic

import (
	"context"
	"crypto"
	"crypto/elliptic"
	"crypto/x509"
	"fmt"
	"testing"
	"time"

	"pgregory.net/rapid"

	"github.com/scionproto/scion/pkg/addr"
	"github.com/scionproto/scion/pkg/scrypto/cppki"
	sdb "github.com/scionproto/scion/private/storage/db"
	trustsql "github.com/scionproto/scion/private/storage/trust/sqlite"
	"github.com/scionproto/scion/private/trust"

	"verif/internal/evid"
	"verif/internal/pki"
)

// ---------------------------------------------------------------------------------------------
// C36 — signers are backed by a currently verifiable chain and expire in time.
// Virtual clock. TRC 1 (roots A,B), TRC 2 (roots B,C; later validity; grace period) inserted at a
// drawn moment; a key ring of 1-3 keys, each with 0-4 chains under roots A/B/C with drawn validity
// (some not yet valid, some expiring soon). At drawn times: SignerGen.Generate; reference: per key
// the latest-expiring chain verifiable against the latest TRC, else (in grace) against the
// predecessor; expiry = min(chain end, TRC end) resp. min(chain end, grace end, predecessor end).
// Every signer signs a message that must verify with a verifier bound to the ISD-AS; after the clock
// passes its expiry, signing must fail.
// ---------------------------------------------------------------------------------------------

type c36Ring []crypto.Signer

func (r c36Ring) PrivateKeys(context.Context) ([]crypto.Signer, error) { return r, nil }

func TestC36(t *testing.T) {
	rec := evid.New("C36", "rapid under testing/synctest: TRC timeline (TRC 2 with changed roots and 1-5 day grace period inserted early / on time / never), key ring of 1-3 keys with 0-4 chains each (roots A/B/C, start -8..+20 days, end +2..+80 days), 2-7 steps of clock advance / TRC insertion / Generate. "+
		"Oracle: reference choice of chain and expiry per key; signed message verifies with a bound verifier; Sign fails after expiry. Non-trivial: a signer generated in the grace period from a predecessor-only chain, a key with >= 2 verifiable chains, or an expiry limited by a TRC.")
	defer rec.Flush(t)
	rec.Assume("chain verification against a TRC is decided by the reference rule of C34(b) (root membership and validity at that time)")
	rec.Require("signer_active_trc", "signer_in_grace", "no_signer_for_key", "generate_error", "latest_of_several_chains", "expiry_limited_by_trc", "expiry_limited_by_grace_end", "expiry_limited_by_chain", "sign_fails_after_expiry", "message_verifies", "chain_not_yet_valid", "several_keys")
	rapid.Check(t, func(rt *rapid.T) { bubbleCheck(t, rt, func(fatalf func(string, ...any)) { c36Case(rt, rec, fatalf) }) })
}

func c36Case(rt *rapid.T, rec *evid.Rec, fatalf func(string, ...any)) {
	ctx := context.Background()
	now0 := time.Now().Truncate(time.Second)
	time.Sleep(100 * time.Millisecond)
	day := 24 * time.Hour
	labels := map[string]bool{}
	must := func(c *pki.Cert, err error) *pki.Cert {
		if err != nil {
			fatalf("harness: %v", err)
		}
		return c
	}
	core := addr.MustParseIA("1-ff00:0:110")
	ia := addr.MustParseIA("1-ff00:0:111")
	nb, na := now0.Add(-10*day), now0.Add(400*day)
	roots, cas := map[string]*pki.Cert{}, map[string]*pki.Cert{}
	for i, n := range []string{"A", "B", "C"} {
		roots[n] = must(pki.NewCert(cppki.Root, pki.Subject(core, "root "+n), pki.Key(elliptic.P256(), 4600+i), nb, na, nil))
		cas[n] = must(pki.NewCert(cppki.CA, pki.Subject(core, "ca "+n), pki.Key(elliptic.P256(), 4610+i), nb.Add(day), na.Add(-day), roots[n]))
	}
	sens := must(pki.NewCert(cppki.Sensitive, pki.Subject(core, "sensitive"), pki.Key(elliptic.P256(), 4620), nb, na, nil))
	reg := must(pki.NewCert(cppki.Regular, pki.Subject(core, "regular"), pki.Key(elliptic.P256(), 4621), nb, na, nil))
	graceDays := rapid.IntRange(1, 5).Draw(rt, "graceDays")
	trc2Start := now0.Add(time.Duration(rapid.IntRange(5, 20).Draw(rt, "trc2StartDay")) * day)
	trc1End := now0.Add(time.Duration(rapid.IntRange(8, 40).Draw(rt, "trc1EndDay")) * day)
	mkTRC := func(serial int, rootNames []string, vnb, vna time.Time) cppki.SignedTRC {
		t := cppki.TRC{Version: 1, ID: cppki.TRCID{ISD: 1, Base: 1, Serial: uint64v(serial)}, Validity: cppki.Validity{NotBefore: vnb, NotAfter: vna}, Quorum: 1,
			CoreASes: []addr.AS{core.AS()}, AuthoritativeASes: []addr.AS{core.AS()}, Description: "verif", Certificates: []*x509.Certificate{sens.X, reg.X}}
		for _, n := range rootNames {
			t.Certificates = append(t.Certificates, roots[n].X)
		}
		if serial > 1 {
			t.Votes, t.GracePeriod = []int{0}, time.Duration(graceDays)*day
		}
		st, err := pki.SignTRC(t, []*pki.Cert{sens, reg})
		if err != nil {
			fatalf("harness: TRC %d: %v", serial, err)
		}
		return st
	}
	trc1 := mkTRC(1, []string{"A", "B"}, now0.Add(-day), trc1End)
	trc2 := mkTRC(2, []string{"B", "C"}, trc2Start, now0.Add(60*day))
	db, err := trustsql.New(fmt.Sprintf("c36_%d", c34Seq.Add(1)), &sdb.SqliteConfig{InMemory: true})
	if err != nil {
		fatalf("harness: %v", err)
	}
	defer db.Close()
	if _, err := db.InsertTRC(ctx, trc1); err != nil {
		fatalf("harness: %v", err)
	}
	type ch struct {
		root  string
		chain []*x509.Certificate
	}
	nKeys := rapid.IntRange(1, 3).Draw(rt, "keys")
	if nKeys > 1 {
		labels["several_keys"] = true
	}
	var ring c36Ring
	chainsOf := map[int][]ch{}
	for k := 0; k < nKeys; k++ {
		key := pki.Key(elliptic.P256(), 4630+k)
		ring = append(ring, key)
		for i := rapid.IntRange(0, 4).Draw(rt, "nChains"); i > 0; i-- {
			r := rapid.SampledFrom([]string{"A", "B", "B", "C"}).Draw(rt, "root")
			cnb := now0.Add(time.Duration(rapid.SampledFrom([]int{-8, -8, -8, 3, 12, 20}).Draw(rt, "startDay")) * day)
			cna := now0.Add(time.Duration(rapid.IntRange(2, 80).Draw(rt, "endDay"))*day + time.Duration(i)*time.Minute)
			if !cna.After(cnb) {
				cna = cnb.Add(day)
			}
			as := must(pki.NewCert(cppki.AS, pki.Subject(ia, fmt.Sprintf("as key %d chain %d", k, i)), key, cnb, cna, cas[r]))
			c := ch{r, []*x509.Certificate{as.X, cas[r].X}}
			chainsOf[k] = append(chainsOf[k], c)
			if _, err := db.InsertChain(ctx, c.chain); err != nil {
				fatalf("harness: %v", err)
			}
		}
	}
	gen := trust.SignerGen{IA: ia, KeyRing: ring, DB: db, ExtKeyUsage: x509.ExtKeyUsageAny}
	verifier := trust.Verifier{BoundIA: ia, Engine: trust.FetchingProvider{DB: db, Recurser: c34Allow{}, Fetcher: c34NoFetch{}}}
	trc2In := false
	var history []string
	if rapid.Bool().Draw(rt, "trc2FromStart") {
		if _, err := db.InsertTRC(ctx, trc2); err != nil {
			fatalf("harness: %v", err)
		}
		trc2In = true
		history = append(history, "TRC2 present from the start")
	}
	nontrivial := false
	steps := rapid.IntRange(3, 10).Draw(rt, "steps")
	for i := 0; i < steps; i++ {
		switch rapid.SampledFrom([]string{"generate", "generate", "advance", "insert_trc2"}).Draw(rt, "step") {
		case "insert_trc2":
			if !trc2In {
				if _, err := db.InsertTRC(ctx, trc2); err != nil {
					fatalf("harness: %v", err)
				}
				trc2In = true
				history = append(history, fmt.Sprintf("insert TRC2 at day %.1f", time.Since(now0).Hours()/24))
			}
		case "advance":
			d := time.Duration(rapid.OneOf(rapid.IntRange(1, 72), rapid.IntRange(24, 30*24)).Draw(rt, "advanceHours")) * time.Hour
			if rapid.Bool().Draw(rt, "aimed") {
				targets := []time.Time{trc2Start.Add(-time.Hour), trc2Start.Add(time.Hour), trc2Start.Add(time.Duration(graceDays) * day / 2), trc2Start.Add(time.Duration(graceDays)*day - time.Hour),
					trc2Start.Add(time.Duration(graceDays)*day + time.Hour), trc1End.Add(-time.Hour), trc1End.Add(time.Hour)}
				if tg := targets[rapid.IntRange(0, len(targets)-1).Draw(rt, "target")]; tg.After(time.Now()) {
					d = time.Until(tg) + 13*time.Second // never exactly on a validity boundary
				}
			}
			time.Sleep(d)
			history = append(history, "advance "+d.String())
		case "generate":
			now := time.Now()
			latest, pred := &trc1.TRC, (*cppki.TRC)(nil)
			if trc2In {
				latest, pred = &trc2.TRC, &trc1.TRC
			}
			desc := fmt.Sprintf("generate at day %.2f (TRC1 ends day %.0f, TRC2 from day %.0f grace %dd inserted %v) after %v", now.Sub(now0).Hours()/24, trc1End.Sub(now0).Hours()/24, trc2Start.Sub(now0).Hours()/24, graceDays, trc2In, history)
			signers, err := gen.Generate(ctx)
			if !latest.Validity.Contains(now) {
				if err == nil {
					fatalf("signers generated although the latest TRC is not valid: %s", desc)
				}
				labels["generate_error"] = true
				history = append(history, "generate -> error (latest TRC not valid)")
				continue
			}
			inGrace := pred != nil && !now.After(latest.Validity.NotBefore.Add(latest.GracePeriod))
			verifies := func(c ch, trc *cppki.TRC) bool {
				if now.Before(c.chain[0].NotBefore) || now.After(c.chain[0].NotAfter) {
					return false
				}
				for _, r := range trc.Certificates {
					if r.Equal(roots[c.root].X) {
						return true
					}
				}
				return false
			}
			type want struct {
				notAfter time.Time // of the chosen chain
				expiry   time.Time
				grace    bool
				nOK      int
			}
			wants := map[int]*want{}
			for k := 0; k < nKeys; k++ {
				best := func(trc *cppki.TRC) (time.Time, int) {
					var b time.Time
					n := 0
					for _, c := range chainsOf[k] {
						if now.Before(c.chain[0].NotBefore) {
							labels["chain_not_yet_valid"] = true
						}
						if verifies(c, trc) {
							n++
							if c.chain[0].NotAfter.After(b) {
								b = c.chain[0].NotAfter
							}
						}
					}
					return b, n
				}
				minT := func(a, b time.Time) time.Time {
					if a.Before(b) {
						return a
					}
					return b
				}
				if b, n := best(latest); n > 0 {
					wants[k] = &want{notAfter: b, expiry: minT(b, latest.Validity.NotAfter), nOK: n}
				} else if inGrace {
					if b, n := best(pred); n > 0 {
						wants[k] = &want{notAfter: b, expiry: minT(minT(b, latest.Validity.NotBefore.Add(latest.GracePeriod)), pred.Validity.NotAfter), grace: true, nOK: n}
					}
				}
				if wants[k] == nil {
					labels["no_signer_for_key"] = true
				}
			}
			if len(wants) == 0 {
				if err == nil {
					fatalf("%d signers generated although no key has a chain verifiable against the active TRC(s): %s", len(signers), desc)
				}
				labels["generate_error"] = true
				history = append(history, "generate -> error (no chain)")
				continue
			}
			if err != nil {
				fatalf("Generate failed: %v (%s)", err, desc)
			}
			seen := map[int]bool{}
			for _, s := range signers {
				k := -1
				for i, key := range ring {
					if key == s.PrivateKey {
						k = i
					}
				}
				w := wants[k]
				if k < 0 || w == nil {
					fatalf("signer for key %d although that key has no verifiable chain: %s", k, desc)
				}
				if seen[k] {
					fatalf("two signers for key %d: %s", k, desc)
				}
				seen[k] = true
				if s.IA != ia || !s.Chain[0].NotAfter.Equal(w.notAfter) {
					fatalf("signer for key %d uses a chain ending %v, the latest-expiring verifiable chain ends %v (in grace: %v): %s", k, s.Chain[0].NotAfter, w.notAfter, w.grace, desc)
				}
				if s.InGrace != w.grace {
					fatalf("signer for key %d: InGrace=%v, expected %v: %s", k, s.InGrace, w.grace, desc)
				}
				if !s.Expiration.Equal(w.expiry) {
					fatalf("signer for key %d expires %v, expected %v (chain ends %v, latest TRC ends %v, grace: %v): %s", k, s.Expiration, w.expiry, w.notAfter, latest.Validity.NotAfter, w.grace, desc)
				}
				switch {
				case w.grace && w.expiry.Equal(latest.Validity.NotBefore.Add(latest.GracePeriod)):
					labels["expiry_limited_by_grace_end"] = true
					nontrivial = true
				case !w.expiry.Equal(w.notAfter):
					labels["expiry_limited_by_trc"] = true
					nontrivial = true
				default:
					labels["expiry_limited_by_chain"] = true
				}
				if w.grace {
					labels["signer_in_grace"] = true
					nontrivial = true
				} else {
					labels["signer_active_trc"] = true
				}
				if w.nOK >= 2 {
					labels["latest_of_several_chains"] = true
					nontrivial = true
				}
				// signs, and the message verifies with a verifier bound to the ISD-AS
				msg, err := s.Sign(ctx, []byte("payload"), []byte("associated"))
				if !w.expiry.After(now) {
					// in the grace period the predecessor TRC may already have ended: the signer is
					// born expired and must refuse to sign
					if err == nil {
						fatalf("signer for key %d whose expiry %v is not after the current time signs: %s", k, w.expiry, desc)
					}
					labels["generated_already_expired"] = true
					continue
				}
				if err != nil {
					fatalf("signer for key %d cannot sign right after generation: %v (%s)", k, err, desc)
				}
				if _, err := verifier.Verify(ctx, msg, []byte("associated")); err != nil {
					fatalf("message signed by the generated signer does not verify with a verifier bound to %s: %v (%s)", ia, err, desc)
				}
				labels["message_verifies"] = true
			}
			for k := range wants {
				if !seen[k] {
					fatalf("no signer for key %d although it has a verifiable chain: %s", k, desc)
				}
			}
			history = append(history, fmt.Sprintf("generate -> %d signers", len(signers)))
			// signing fails once expired (checked on the first signer; the clock moves on)
			if rapid.Bool().Draw(rt, "waitForExpiry") {
				s := signers[0]
				time.Sleep(time.Until(s.Expiration) + time.Second)
				if _, err := s.Sign(ctx, []byte("late")); err == nil {
					fatalf("signer that expired at %v still signs at %v: %s", s.Expiration, time.Now(), desc)
				}
				labels["sign_fails_after_expiry"] = true
				history = append(history, "waited past the expiry of signer 0")
			}
		}
	}
	rec.Case(nontrivial, fmt.Sprint(history, graceDays, nKeys), keysOf(labels)...)
	rec.Sample(func() any { return map[string]any{"history": history, "keys": nKeys} })
}
