package ring

import (
	"fmt"
	"runtime"
	"sort"
	"sync"
	"testing"
	"testing/synctest"
	"time"

	"github.com/anishathalye/porcupine"
	"pgregory.net/rapid"

	"github.com/scionproto/scion/private/ringbuf"

	"verif/internal/evid"
)

// ---------------------------------------------------------------------------------------------
// C48 — the ring buffer is a linearizable bounded FIFO queue.
//
// Part A (sequential, deterministic): one goroutine, generated sequences of batch writes/reads
// (blocking flag set only where the call cannot block) and a close; every return value and every
// entry read is compared with a bounded-FIFO model. This pins wrap-around and index arithmetic.
// Part B (concurrent, -race): 2-8 goroutines run generated scripts of blocking and non-blocking
// batch operations plus one close; the timestamped history is checked for linearizability against
// the same sequential model with porcupine (a blocking call has no legal step while it would
// block), plus direct invariants: each entry read at most once, per-writer order preserved for
// each reader, nothing lost. The harness does not own the Go scheduler: interleavings are those
// reached by many short randomised histories with injected yields (exploration).
// ---------------------------------------------------------------------------------------------

type opKind int

const (
	opWrite opKind = iota
	opRead
	opClose
)

type opIn struct {
	Kind  opKind
	Block bool
	IDs   []int // write: entries; read: len = batch size
}

func (o opIn) String() string {
	switch o.Kind {
	case opWrite:
		return fmt.Sprintf("write(%v,block=%v)", o.IDs, o.Block)
	case opRead:
		return fmt.Sprintf("read(%d,block=%v)", len(o.IDs), o.Block)
	}
	return "close"
}

type opOut struct {
	N   int
	IDs []int
}

type qState struct {
	q      []int
	closed bool
}

// step is the sequential bounded-FIFO specification. ok=false means the observed output is not
// legal in this state (for a blocking call that would block: not legal yet).
func step(capacity int, cur qState, in opIn, out opOut) (bool, qState) {
	switch in.Kind {
	case opClose:
		return true, qState{q: cur.q, closed: true}
	case opWrite:
		k := len(in.IDs)
		free := capacity - len(cur.q)
		if cur.closed {
			return out.N == -1, cur
		}
		if k > 0 && free == 0 {
			if in.Block {
				return false, cur
			}
			return out.N == 0, cur
		}
		n := min(k, free)
		if out.N != n {
			return false, cur
		}
		return true, qState{q: append(append([]int{}, cur.q...), in.IDs[:n]...)}
	case opRead:
		k := len(in.IDs)
		if k > 0 && len(cur.q) == 0 && !cur.closed {
			if in.Block {
				return false, cur
			}
			return out.N == 0, cur
		}
		if cur.closed && len(cur.q) == 0 {
			return out.N == -1, cur
		}
		n := min(k, len(cur.q))
		if out.N != n || len(out.IDs) != n {
			return false, cur
		}
		for j := 0; j < n; j++ {
			if out.IDs[j] != cur.q[j] {
				return false, cur
			}
		}
		return true, qState{q: append([]int{}, cur.q[n:]...), closed: cur.closed}
	}
	return false, cur
}

func model(capacity int) porcupine.Model {
	return porcupine.Model{
		Init: func() any { return qState{} },
		Step: func(s any, i any, o any) (bool, any) {
			ok, ns := step(capacity, s.(qState), i.(opIn), o.(opOut))
			return ok, ns
		},
		Equal: func(a, b any) bool {
			x, y := a.(qState), b.(qState)
			return x.closed == y.closed && fmt.Sprint(x.q) == fmt.Sprint(y.q)
		},
		DescribeOperation: func(i, o any) string { return fmt.Sprintf("%v -> %v", i, o) },
	}
}

func doOp(r *ringbuf.Ring, op opIn) opOut {
	var o opOut
	switch op.Kind {
	case opWrite:
		el := make(ringbuf.EntryList, len(op.IDs))
		for j, id := range op.IDs {
			el[j] = id
		}
		o.N, _ = r.Write(el, op.Block)
	case opRead:
		el := make(ringbuf.EntryList, len(op.IDs))
		o.N, _ = r.Read(el, op.Block)
		for j := 0; j < o.N; j++ {
			id, ok := el[j].(int)
			if !ok {
				id = -999 // a nil or foreign entry handed out
			}
			o.IDs = append(o.IDs, id)
		}
	case opClose:
		r.Close()
	}
	return o
}

func sequential(rt *rapid.T, rec *evid.Rec) {
	capacity := rapid.IntRange(1, 16).Draw(rt, "cap")
	// a ring created with an allocator starts full of the allocated entries (the gateway's free-frame list)
	prealloc := rapid.Bool().Draw(rt, "preallocated")
	var newf ringbuf.NewEntryF
	cur := qState{}
	if prealloc {
		made := 0
		newf = func() any { made++; return -made }
		for i := 1; i <= capacity; i++ {
			cur.q = append(cur.q, -i)
		}
	}
	r := ringbuf.New(capacity, newf, "verif-seq")
	nextID := 1
	nOps := rapid.IntRange(1, 60).Draw(rt, "nops")
	var hist []string
	wrapped, closedReads, partial := false, false, false
	total := 0
	for i := 0; i < nOps; i++ {
		var op opIn
		switch k := rapid.IntRange(0, 20).Draw(rt, "kind"); {
		case k == 0 && i > nOps/2:
			op.Kind = opClose
		case k <= 10:
			op.Kind = opWrite
			sz := rapid.IntRange(0, 20).Draw(rt, "size")
			for j := 0; j < sz; j++ {
				op.IDs = append(op.IDs, nextID)
				nextID++
			}
			// blocking allowed only if the call cannot block
			op.Block = (capacity-len(cur.q) > 0 || cur.closed || sz == 0) && rapid.Bool().Draw(rt, "block")
		default:
			op.Kind = opRead
			op.IDs = make([]int, rapid.IntRange(0, 20).Draw(rt, "size"))
			op.Block = (len(cur.q) > 0 || cur.closed || len(op.IDs) == 0) && rapid.Bool().Draw(rt, "block")
		}
		out := doOp(r, op)
		hist = append(hist, fmt.Sprintf("%v->%d%v", op, out.N, out.IDs))
		ok, ns := step(capacity, cur, op, out)
		if !ok {
			rt.Fatalf("capacity %d, queue %v closed=%v: %v returned %d %v, not what a bounded FIFO queue returns\nhistory %v", capacity, cur.q, cur.closed, op, out.N, out.IDs, hist)
		}
		if op.Kind == opWrite && out.N > 0 {
			total += out.N
			if total > capacity {
				wrapped = true
			}
			if out.N < len(op.IDs) {
				partial = true
			}
		}
		if op.Kind == opRead && cur.closed {
			closedReads = true
		}
		cur = ns
	}
	var labels []string
	if wrapped {
		labels = append(labels, "seq_wrapped")
	}
	if closedReads {
		labels = append(labels, "seq_read_after_close")
	}
	if partial {
		labels = append(labels, "seq_partial_write")
	}
	if prealloc {
		labels = append(labels, "seq_preallocated")
	}
	rec.Case(wrapped, fmt.Sprint("S", capacity, hist), labels...)
	rec.Eval(nOps - 1)
	rec.Sample(func() any { return map[string]any{"part": "sequential", "capacity": capacity, "history": hist} })
}

func concurrent(rt *rapid.T, rec *evid.Rec) {
	capacity := rapid.IntRange(1, 16).Draw(rt, "cap")
	nG := rapid.IntRange(2, 8).Draw(rt, "goroutines")
	nextID := 1
	scripts := make([][]opIn, nG)
	writerOf := map[int]int{}
	written := 0
	for g := range scripts {
		nOps := rapid.IntRange(1, 6).Draw(rt, "nops")
		role := rapid.IntRange(0, 2).Draw(rt, "role") // 0 writer, 1 reader, 2 mixed
		for k := 0; k < nOps; k++ {
			kind := opKind(rapid.IntRange(0, 1).Draw(rt, "kind"))
			if role == 0 {
				kind = opWrite
			} else if role == 1 {
				kind = opRead
			}
			sz := rapid.IntRange(0, 20).Draw(rt, "size")
			if rapid.Bool().Draw(rt, "small") {
				sz = rapid.IntRange(0, 3).Draw(rt, "size3")
			}
			op := opIn{Kind: kind, Block: rapid.Bool().Draw(rt, "block")}
			if kind == opWrite {
				for j := 0; j < sz; j++ {
					op.IDs = append(op.IDs, nextID)
					writerOf[nextID] = g
					nextID++
				}
				written += sz
			} else {
				op.IDs = make([]int, sz)
			}
			scripts[g] = append(scripts[g], op)
		}
	}
	closeDelay := rapid.IntRange(0, 400).Draw(rt, "closeDelayMicros")
	yields := rapid.SliceOfN(rapid.IntRange(0, 3), 16, 16).Draw(rt, "yields")

	r := ringbuf.New(capacity, nil, "verif-conc")
	var mu sync.Mutex
	var ops []porcupine.Operation
	var wg sync.WaitGroup
	start := time.Now()
	record := func(g int, op opIn, call int64, o opOut) {
		ret := time.Since(start).Nanoseconds()
		mu.Lock()
		ops = append(ops, porcupine.Operation{ClientId: g, Input: op, Call: call, Output: o, Return: ret})
		mu.Unlock()
	}
	for g := range scripts {
		wg.Add(1)
		go func(g int) {
			defer wg.Done()
			for k, op := range scripts[g] {
				for y := 0; y < yields[(g*5+k)%len(yields)]; y++ {
					runtime.Gosched()
				}
				call := time.Since(start).Nanoseconds()
				o := doOp(r, op)
				record(g, op, call, o)
			}
		}(g)
	}
	wg.Add(1)
	go func() {
		defer wg.Done()
		time.Sleep(time.Duration(closeDelay) * time.Microsecond)
		call := time.Since(start).Nanoseconds()
		o := doOp(r, opIn{Kind: opClose})
		record(nG, opIn{Kind: opClose}, call, o)
	}()
	done := make(chan struct{})
	go func() { wg.Wait(); close(done) }()
	select {
	case <-done:
	case <-time.After(20 * time.Second):
		// hang detector: a blocked caller was not released by close. Reported as a violation of
		// "blocked callers are released by data, space or close" only after a generous bound.
		rt.Fatalf("goroutines still blocked 20 s after Close (capacity %d, scripts %v)", capacity, scripts)
	}

	// direct invariants
	seen := map[int]bool{}
	read, blockedOps, afterClose := 0, 0, 0
	lastPerReaderWriter := map[[2]int]int{}
	for _, op := range ops {
		in, out := op.Input.(opIn), op.Output.(opOut)
		if in.Block {
			blockedOps++
		}
		if out.N == -1 {
			afterClose++
		}
		if out.N > len(in.IDs) || out.N > capacity {
			rt.Fatalf("%v transferred %d entries (capacity %d)", in, out.N, capacity)
		}
		if in.Kind == opRead {
			for _, id := range out.IDs {
				if id <= 0 || id >= nextID {
					rt.Fatalf("read returned an entry that was never written: %d", id)
				}
				if seen[id] {
					rt.Fatalf("entry %d read twice\nhistory %v", id, ops)
				}
				seen[id] = true
				read++
				key := [2]int{op.ClientId, writerOf[id]}
				if id < lastPerReaderWriter[key] {
					rt.Fatalf("reader %d saw entry %d of writer %d after entry %d: write order not preserved", op.ClientId, id, writerOf[id], lastPerReaderWriter[key])
				}
				lastPerReaderWriter[key] = id
			}
		}
	}
	// drain what is left: nothing lost
	accepted := 0
	for _, op := range ops {
		if in := op.Input.(opIn); in.Kind == opWrite && op.Output.(opOut).N > 0 {
			accepted += op.Output.(opOut).N
		}
	}
	left := 0
	for {
		el := make(ringbuf.EntryList, 7)
		n, _ := r.Read(el, false)
		if n <= 0 {
			break
		}
		for j := 0; j < n; j++ {
			id, _ := el[j].(int)
			if seen[id] {
				rt.Fatalf("entry %d still in the ring after it was read", id)
			}
			seen[id] = true
		}
		left += n
	}
	if read+left != accepted {
		rt.Fatalf("accepted %d entries, read %d, %d left after close: entries lost or invented", accepted, read, left)
	}
	res := porcupine.CheckOperationsTimeout(model(capacity), ops, 10*time.Second)
	if res == porcupine.Illegal {
		rt.Fatalf("history is not linearizable w.r.t. the bounded FIFO queue (capacity %d):\n%v", capacity, describe(ops))
	}
	labels := []string{"conc"}
	if res == porcupine.Unknown {
		labels = append(labels, "conc_linearizability_timeout")
	}
	if afterClose > 0 {
		labels = append(labels, "conc_ops_after_close")
	}
	if accepted > capacity {
		labels = append(labels, "conc_wrapped")
	}
	nt := accepted > capacity && blockedOps > 0 && len(ops) >= 6
	rec.Case(nt, fmt.Sprint("C", capacity, scripts, closeDelay), labels...)
	rec.Eval(len(ops) - 1)
	rec.Sample(func() any { return map[string]any{"part": "concurrent", "capacity": capacity, "goroutines": nG, "history": describe(ops)} })
}

func describe(ops []porcupine.Operation) []string {
	var out []string
	for _, op := range ops {
		o := op.Output.(opOut)
		out = append(out, fmt.Sprintf("g%d [%d..%d] %v -> %d %v", op.ClientId, op.Call/1000, op.Return/1000, op.Input.(opIn), o.N, o.IDs))
	}
	return out
}

// quiescence is Part C: release of blocked callers, decided without timeouts. Inside a synctest
// bubble synctest.Wait returns once every other goroutine is blocked for good (a caller waiting in
// the ring counts as such), so after every step the set of callers still blocked is exact: while the
// ring is open nobody may wait for data when entries are stored, nobody may wait for space when
// there is room, and after a close nobody waits at all.
func quiescence(t *testing.T, rt *rapid.T, rec *evid.Rec) {
	capacity := rapid.IntRange(1, 16).Draw(rt, "cap")
	prealloc := rapid.Bool().Draw(rt, "preallocated")
	type stepT struct {
		kind string
		size int
	}
	n := rapid.IntRange(1, 30).Draw(rt, "steps")
	var steps []stepT
	for i := 0; i < n; i++ {
		k := rapid.SampledFrom([]string{"blocking_read", "blocking_read", "blocking_write", "blocking_write", "write", "write", "read", "read", "close"}).Draw(rt, "step")
		if k == "close" && i < n/2 {
			k = "read"
		}
		steps = append(steps, stepT{k, rapid.IntRange(0, 20).Draw(rt, "size")})
	}
	var fail string
	labels := map[string]bool{}
	synctest.Test(t, func(t *testing.T) {
		var newf ringbuf.NewEntryF
		stored := 0
		if prealloc {
			newf = func() any { return 0 }
			stored = capacity
		}
		r := ringbuf.New(capacity, newf, "verif-quiet")
		var mu sync.Mutex
		type resT struct {
			read bool
			n    int
		}
		var results []resT
		blockedR, blockedW := 0, 0 // callers started and not yet returned
		closed := false
		var wg sync.WaitGroup
		call := func(read bool, size int, block bool) {
			el := make(ringbuf.EntryList, size)
			for i := range el {
				el[i] = 1
			}
			var n int
			if read {
				n, _ = r.Read(el, block)
			} else {
				n, _ = r.Write(el, block)
			}
			mu.Lock()
			results = append(results, resT{read, n})
			mu.Unlock()
		}
		settle := func(i int, st stepT) bool {
			synctest.Wait()
			mu.Lock()
			for _, x := range results {
				if x.read {
					blockedR--
					if x.n > 0 {
						stored -= x.n
					}
				} else {
					blockedW--
					if x.n > 0 {
						stored += x.n
					}
				}
			}
			results = nil
			mu.Unlock()
			switch {
			case stored < 0 || stored > capacity:
				fail = fmt.Sprintf("step %d %v: %d entries stored in a ring of capacity %d", i, st, stored, capacity)
			case closed && blockedR+blockedW > 0:
				fail = fmt.Sprintf("step %d %v: ring is closed but %d readers and %d writers are still blocked", i, st, blockedR, blockedW)
			case !closed && blockedR > 0 && stored > 0:
				fail = fmt.Sprintf("step %d %v: %d readers are still blocked although %d entries are stored and nothing else is running", i, st, blockedR, stored)
			case !closed && blockedW > 0 && stored < capacity:
				fail = fmt.Sprintf("step %d %v: %d writers are still blocked although %d of %d slots are free and nothing else is running", i, st, blockedW, capacity-stored, capacity)
			}
			return fail == ""
		}
		for i, st := range steps {
			switch st.kind {
			case "blocking_read", "blocking_write":
				read := st.kind == "blocking_read"
				if read {
					blockedR++
				} else {
					blockedW++
				}
				wg.Add(1)
				go func() { defer wg.Done(); call(read, st.size, true) }()
			case "read", "write":
				read := st.kind == "read"
				if read {
					blockedR++
				} else {
					blockedW++
				}
				before := blockedR + blockedW
				call(read, st.size, false)
				if before > 1 && st.size > 0 {
					labels["quiet_transfer_with_callers_blocked"] = true
				}
			case "close":
				r.Close()
				closed = true
				labels["quiet_close"] = true
			}
			if !settle(i, st) {
				break
			}
			if blockedR > 1 {
				labels["quiet_several_readers_blocked"] = true
			}
			if blockedW > 1 {
				labels["quiet_several_writers_blocked"] = true
			}
		}
		r.Close()
		closed = true
		if fail == "" {
			settle(len(steps), stepT{"close", 0})
		}
		wg.Wait()
	})
	if fail != "" {
		rt.Fatalf("capacity %d preallocated=%v: %s\nsteps %v", capacity, prealloc, fail, steps)
	}
	var ls []string
	for l := range labels {
		ls = append(ls, l)
	}
	sort.Strings(ls)
	rec.Case(labels["quiet_several_readers_blocked"] || labels["quiet_several_writers_blocked"], fmt.Sprint("Q", capacity, prealloc, steps), ls...)
	rec.Eval(len(steps) - 1)
	rec.Sample(func() any { return map[string]any{"part": "quiescence", "capacity": capacity, "steps": fmt.Sprint(steps)} })
}

func TestC48(t *testing.T) {
	rec := evid.New("C48", "rapid: Part A sequential histories (capacity 1-16, up to 60 batch writes/reads of 0-20 entries, blocking flag where the call cannot block, a close) compared step by step with a bounded-FIFO model; "+
		"Part B concurrent histories under -race (capacity 1-16, 2-8 goroutines with scripts of up to 6 blocking/non-blocking batch operations, one close at a drawn delay, drawn yield pattern) checked with porcupine against the same model "+
		"plus at-most-once, per-writer order and conservation invariants; Part C histories of up to 30 steps (blocking callers started, non-blocking batch transfers, close) in a synctest bubble: after every step, once everything else is blocked for good, "+
		"nobody waits for data while entries are stored, nobody waits for space while slots are free, nobody waits after close. Rings start empty or pre-allocated (full). Non-trivial: more entries accepted than the capacity (wrap-around) and, in Part B, at least one blocking call and >= 6 operations.")
	defer rec.Flush(t)
	rec.Assume("goroutine interleavings are sampled, not enumerated (the harness does not own the Go scheduler)", "porcupine v1.3.0 linearizability checker; a checker timeout is counted, not failed",
		"a caller still blocked 20 s after Close is reported as a violation of the release guarantee")
	rec.Require("seq_wrapped", "seq_read_after_close", "seq_partial_write", "conc", "conc_wrapped", "conc_ops_after_close", "seq_preallocated", "quiet_several_readers_blocked", "quiet_several_writers_blocked", "quiet_transfer_with_callers_blocked", "quiet_close")
	t.Run("sequential", func(t *testing.T) { rapid.Check(t, func(rt *rapid.T) { sequential(rt, rec) }) })
	t.Run("concurrent", func(t *testing.T) { rapid.Check(t, func(rt *rapid.T) { concurrent(rt, rec) }) })
	t.Run("quiescence", func(t *testing.T) { rapid.Check(t, func(rt *rapid.T) { quiescence(t, rt, rec) }) })
}
