package ctrl

import (
	"context"
	"crypto/elliptic"
	"encoding/hex"
	"fmt"
	"net"
	"sort"
	"sync"
	"testing"
	"time"

	"pgregory.net/rapid"

	"github.com/scionproto/scion/control/beacon"
	"github.com/scionproto/scion/control/beaconing"
	"github.com/scionproto/scion/control/ifstate"
	"github.com/scionproto/scion/pkg/addr"
	"github.com/scionproto/scion/pkg/private/ptr"
	"github.com/scionproto/scion/pkg/scrypto/cppki"
	"github.com/scionproto/scion/pkg/scrypto/signed"
	seg "github.com/scionproto/scion/pkg/segment"
	"github.com/scionproto/scion/pkg/snet"
	snetpath "github.com/scionproto/scion/pkg/snet/path"
	beaconsql "github.com/scionproto/scion/private/storage/beacon/sqlite"
	sdb "github.com/scionproto/scion/private/storage/db"
	trustsql "github.com/scionproto/scion/private/storage/trust/sqlite"
	"github.com/scionproto/scion/private/topology"
	"github.com/scionproto/scion/private/trust"
	"github.com/scionproto/scion/private/trust/compat"

	"verif/internal/evid"
	"verif/internal/pki"
)

// ---------------------------------------------------------------------------------------------
// C25 — only valid, policy-conforming beacons are stored and propagated.
// Real Handler + (Core)Store + SQLite beacon database + production segment verification on a
// SQLite trust database + real Propagator and extender with a recording sender. A reference filter
// (length, AS loop, ISD loop, block lists) and a reference admission rule predict the exact database
// content (segment id -> usage bits) after every received beacon; after the history the propagator
// runs and every beacon it sends is checked for AS / ISD loops over the sequence it would create
// (stored entries, the local AS, the neighbour behind the egress interface).
// ---------------------------------------------------------------------------------------------

type c25World struct {
	ases    []c24AS // index 0 = local candidates per ISD: 0,1,2 ; 3.. remote
	trustDB trust.DB
	ver     compat.Verifier
}

var (
	c25Once sync.Once
	c25W    *c25World
)

func c25Setup() *c25World {
	c25Once.Do(func() {
		ctx := context.Background()
		now := time.Now()
		nb, na := now.Add(-72*time.Hour).Truncate(time.Second), now.Add(30*24*time.Hour).Truncate(time.Second)
		db, err := trustsql.New(fmt.Sprintf("c25_trust_%d", now.UnixNano()), &sdb.SqliteConfig{InMemory: true})
		if err != nil {
			panic(err)
		}
		w := &c25World{trustDB: db}
		k := 0
		for isd := addr.ISD(1); isd <= 3; isd++ {
			x, err := pki.NewISD(isd, []addr.AS{addr.MustParseAS("ff00:0:110")}, nb, na, 1200+100*int(isd))
			if err != nil {
				panic(err)
			}
			if _, err := db.InsertTRC(ctx, x.Base); err != nil {
				panic(err)
			}
			// local candidate (…:500) and three remote ASes per ISD
			for _, as := range []uint64{0x500, 0x201, 0x202, 0x203} {
				a := c24AS{ia: addr.MustIAFrom(isd, addr.AS(0xff0000000000+as)), key: pki.Key(elliptic.P256(), 1500+k)}
				k++
				a.chain, err = x.ASChain(a.ia, a.key, 0, nb.Add(time.Hour), na.Add(-time.Hour))
				if err != nil {
					panic(err)
				}
				if _, err := db.InsertChain(ctx, a.chain); err != nil {
					panic(err)
				}
				w.ases = append(w.ases, a)
			}
		}
		w.ver = compat.Verifier{Verifier: trust.Verifier{Engine: trust.FetchingProvider{DB: db, Recurser: trust.NeverRecurser{}}}}
		c25W = w
	})
	return c25W
}

func (w *c25World) as(ia addr.IA) c24AS {
	for _, a := range w.ases {
		if a.ia == ia {
			return a
		}
	}
	panic("unknown AS " + ia.String())
}

// reference filter --------------------------------------------------------------------------

type c25Filter struct {
	max      int
	asBlock  []addr.AS
	isdBlock []addr.ISD
	isdLoop  bool // allowed
}

func refASLoop(h []addr.IA) bool {
	for i := range h {
		for j := i + 1; j < len(h); j++ {
			if h[i] == h[j] {
				return true
			}
		}
	}
	return false
}

// refISDLoop: the sequence leaves an ISD and enters it again.
func refISDLoop(h []addr.IA) bool {
	var runs []addr.ISD
	for _, ia := range h {
		if len(runs) == 0 || runs[len(runs)-1] != ia.ISD() {
			runs = append(runs, ia.ISD())
		}
	}
	for i := range runs {
		for j := i + 1; j < len(runs); j++ {
			if runs[i] == runs[j] {
				return true
			}
		}
	}
	return false
}

func (f c25Filter) accepts(h []addr.IA) bool {
	if len(h) > f.max || refASLoop(h) || (!f.isdLoop && refISDLoop(h)) {
		return false
	}
	for _, ia := range h {
		for _, b := range f.asBlock {
			if ia.AS() == b {
				return false
			}
		}
		for _, b := range f.isdBlock {
			if ia.ISD() == b {
				return false
			}
		}
	}
	return true
}

func c25DrawFilter(rt *rapid.T, w *c25World, name string) (beacon.Filter, c25Filter) {
	var f beacon.Filter
	r := c25Filter{max: beacon.DefaultMaxHopsLength, isdLoop: true}
	if m := rapid.OneOf(rapid.Just(0), rapid.Just(0), rapid.IntRange(1, 8)).Draw(rt, name+"MaxHops"); m > 0 {
		f.MaxHopsLength, r.max = m, m
	}
	for i := rapid.SampledFrom([]int{0, 0, 0, 1, 2}).Draw(rt, name+"BlockedASes"); i > 0; i-- {
		as := rapid.SampledFrom([]uint64{0x201, 0x202, 0x203, 0x500}).Draw(rt, name+"BlockedAS")
		f.AsBlackList = append(f.AsBlackList, addr.AS(0xff0000000000+as))
	}
	r.asBlock = f.AsBlackList
	if rapid.IntRange(0, 6).Draw(rt, name+"BlockISD") == 0 {
		f.IsdBlackList = []addr.ISD{addr.ISD(rapid.IntRange(1, 3).Draw(rt, name+"BlockedISD"))}
	}
	r.isdBlock = f.IsdBlackList
	switch rapid.IntRange(0, 2).Draw(rt, name+"IsdLoop") {
	case 0:
		f.AllowIsdLoop, r.isdLoop = ptr.To(false), false
	case 1:
		f.AllowIsdLoop = ptr.To(true)
	}
	return f, r
}

type c25Sent struct {
	egress uint16
	seg    *seg.PathSegment
}

type c25Sender struct {
	mu   *sync.Mutex
	out  *[]c25Sent
	intf uint16
}

func (s c25Sender) Send(_ context.Context, b *seg.PathSegment) error {
	c, err := seg.BeaconFromPB(seg.PathSegmentToPB(b))
	if err != nil {
		return err
	}
	s.mu.Lock()
	defer s.mu.Unlock()
	*s.out = append(*s.out, c25Sent{egress: s.intf, seg: c})
	return nil
}
func (s c25Sender) Close() error { return nil }

type c25SenderFactory struct {
	mu  sync.Mutex
	out []c25Sent
}

func (f *c25SenderFactory) NewSender(_ context.Context, _ addr.IA, egress uint16, _ *net.UDPAddr) (beaconing.Sender, error) {
	return c25Sender{mu: &f.mu, out: &f.out, intf: egress}, nil
}

func iasOf(ps *seg.PathSegment) []addr.IA {
	var h []addr.IA
	for _, e := range ps.ASEntries {
		h = append(h, e.Local)
	}
	return h
}

func TestC25(t *testing.T) {
	rec := evid.New("C25", "rapid: local AS (core or not, ISD 1-3) with 6 interfaces of drawn link types towards distinct neighbours; per-policy filters drawn (max length 1-8/default, AS and ISD block lists, ISD-loop switch); "+
		"history of 1-6 received beacons of 1-9 entries over a 12-AS universe in 3 ISDs (repeated ASes, ISD re-entry, the local AS inside the beacon, wrong last entry, wrong next AS, unknown/child/peer ingress interface, one entry signed with a wrong key, same hop sequence re-sent with a newer timestamp); "+
		"then one propagation run with the ISD-loop switch drawn. Oracle: database content (segment id -> usage) equals the reference admission model after every beacon; every propagated beacon is loop-free over (stored entries, local AS, neighbour). "+
		"Non-trivial: history with at least one stored and one rejected beacon, or a propagation run that sent >= 1 beacon.")
	defer rec.Flush(t)
	rec.Assume("signature verification is the production stack on a shared read-only trust database (covered in depth by C24)", "the store's best-set selection decides which stored beacons are offered; only what is sent is checked")
	rec.Require("stored", "updated", "rejected_link_type", "rejected_unknown_interface", "rejected_last_entry", "rejected_next", "rejected_signature", "rejected_all_policies", "partial_usage", "core_store", "noncore_store",
		"as_loop_in_beacon", "isd_loop_in_beacon", "blocked", "too_long", "propagated", "propagation_suppressed_as_loop", "propagation_suppressed_isd_loop", "local_as_in_beacon")
	w := c25Setup()
	rapid.Check(t, func(rt *rapid.T) {
		ctx := context.Background()
		labels := map[string]bool{}
		localISD := addr.ISD(rapid.IntRange(1, 3).Draw(rt, "localISD"))
		local := addr.MustIAFrom(localISD, addr.AS(0xff0000000500))
		core := rapid.Bool().Draw(rt, "core")
		// neighbours: 6 distinct remote ASes
		var remotes []addr.IA
		for _, a := range w.ases {
			if a.ia.AS() != local.AS() {
				remotes = append(remotes, a.ia)
			}
		}
		perm := rapid.Permutation(remotes).Draw(rt, "neighbours")
		infos := map[uint16]ifstate.InterfaceInfo{}
		lts := []topology.LinkType{topology.Parent, topology.Core, topology.Child, topology.Peer}
		for i := 0; i < 6; i++ {
			id := uint16(i + 1)
			lt := rapid.SampledFrom(lts).Draw(rt, "linkType")
			infos[id] = ifstate.InterfaceInfo{ID: id, IA: perm[i], LinkType: lt, RemoteID: uint16(100 + i), MTU: 1400}
		}
		intfs := ifstate.NewInterfaces(infos, ifstate.Config{})
		bdb, err := beaconsql.New(fmt.Sprintf("c25_%d_%d", time.Now().UnixNano(), c24Seq.Add(1)), local, &sdb.SqliteConfig{InMemory: true})
		if err != nil {
			rt.Fatalf("harness: %v", err)
		}
		defer bdb.Close()
		type pol struct {
			usage beacon.Usage
			f     c25Filter
		}
		var pols []pol
		var inserter beaconing.BeaconInserter
		var provider beaconing.BeaconProvider
		if core {
			labels["core_store"] = true
			var cp beacon.CorePolicies
			var r1, r2 c25Filter
			cp.Prop.Filter, r1 = c25DrawFilter(rt, w, "prop")
			cp.CoreReg.Filter, r2 = c25DrawFilter(rt, w, "coreReg")
			pols = []pol{{beacon.UsageProp, r1}, {beacon.UsageCoreReg, r2}}
			st, err := beacon.NewCoreBeaconStore(cp, bdb)
			if err != nil {
				rt.Fatalf("harness: %v", err)
			}
			inserter, provider = st, st
		} else {
			labels["noncore_store"] = true
			var np beacon.Policies
			var r1, r2, r3 c25Filter
			np.Prop.Filter, r1 = c25DrawFilter(rt, w, "prop")
			np.UpReg.Filter, r2 = c25DrawFilter(rt, w, "upReg")
			np.DownReg.Filter, r3 = c25DrawFilter(rt, w, "downReg")
			pols = []pol{{beacon.UsageProp, r1}, {beacon.UsageUpReg, r2}, {beacon.UsageDownReg, r3}}
			st, err := beacon.NewBeaconStore(np, bdb)
			if err != nil {
				rt.Fatalf("harness: %v", err)
			}
			inserter, provider = st, st
		}
		h := beaconing.Handler{LocalIA: local, Inserter: inserter, Verifier: w.ver, Interfaces: intfs}

		model := map[string]beacon.Usage{}
		modelTS := map[string]time.Time{}
		base := time.Now().Add(-time.Hour).Truncate(time.Second)
		universe := append([]addr.IA{}, remotes...)
		nStored, nRejected := 0, 0
		var history []string
		nBeacons := rapid.IntRange(1, 6).Draw(rt, "beacons")
		var prev [][]addr.IA
		var prevIn []uint16
		for bi := 0; bi < nBeacons; bi++ {
			ts := base.Add(time.Duration(bi) * time.Minute)
			inIf := uint16(rapid.IntRange(1, 6).Draw(rt, "ingress"))
			if rapid.IntRange(0, 3).Draw(rt, "anyLinkType") != 0 {
				// prefer an interface beacons may arrive on
				for d := 0; d < 6; d++ {
					c := uint16((int(inIf)-1+d)%6 + 1)
					if lt := infos[c].LinkType; lt == topology.Parent || lt == topology.Core {
						inIf = c
						break
					}
				}
			}
			if rapid.IntRange(0, 9).Draw(rt, "unknownInterface") == 0 {
				inIf = 99
			}
			var ias []addr.IA
			if len(prev) > 0 && rapid.IntRange(0, 3).Draw(rt, "resend") == 0 {
				j := rapid.IntRange(0, len(prev)-1).Draw(rt, "resendWhich")
				ias, inIf = prev[j], prevIn[j]
			} else {
				// mostly loop-free sequences (prefix of a permutation), then optional defects
				k := rapid.IntRange(1, 9).Draw(rt, "len")
				ias = append(ias, rapid.Permutation(universe).Draw(rt, "ias")[:k]...)
				if info, ok := infos[inIf]; ok && rapid.IntRange(0, 7).Draw(rt, "wrongLast") != 0 {
					for i := range ias {
						if ias[i] == info.IA {
							ias[i] = ias[k-1]
						}
					}
					ias[k-1] = info.IA
				}
				if k >= 2 && rapid.IntRange(0, 5).Draw(rt, "repeatAS") == 0 {
					ias[rapid.IntRange(0, k-2).Draw(rt, "repeatAt")] = ias[rapid.IntRange(0, k-1).Draw(rt, "repeatOf")]
				}
				if k >= 2 && rapid.IntRange(0, 9).Draw(rt, "localInside") == 0 {
					ias[rapid.IntRange(0, k-2).Draw(rt, "localAt")] = local
				}
			}
			prev, prevIn = append(prev, ias), append(prevIn, inIf)
			next := local
			if rapid.IntRange(0, 7).Draw(rt, "wrongNext") == 0 {
				next = rapid.SampledFrom(universe).Draw(rt, "nextIA")
			}
			badSig := -1
			if rapid.IntRange(0, 6).Draw(rt, "badSignature") == 0 {
				badSig = rapid.IntRange(0, len(ias)-1).Draw(rt, "badSigAt")
			}
			// build through the production signing path
			ps, err := seg.CreateSegment(ts, uint16(bi+1))
			if err != nil {
				rt.Fatalf("harness: %v", err)
			}
			for i, ia := range ias {
				ent := seg.ASEntry{Local: ia, MTU: 1400, HopEntry: seg.HopEntry{IngressMTU: 1400, HopField: seg.HopField{ExpTime: 63, ConsIngress: uint16(10 + i), ConsEgress: uint16(20 + i), MAC: [6]byte{byte(i), 1, 2, 3, 4, 5}}}}
				if i == 0 {
					ent.HopEntry.HopField.ConsIngress = 0
				}
				if i < len(ias)-1 {
					ent.Next = ias[i+1]
				} else {
					ent.Next = next
				}
				a := w.as(ia)
				key := a.key
				if i == badSig {
					key = pki.Key(elliptic.P256(), 1900)
				}
				signer := trust.Signer{PrivateKey: key, Algorithm: signed.ECDSAWithSHA256, IA: ia, SubjectKeyID: a.chain[0].SubjectKeyId,
					Expiration: time.Now().Add(time.Hour), TRCID: cppki.TRCID{ISD: ia.ISD(), Base: 1, Serial: 1}}
				if err := ps.AddASEntry(ctx, ent, signer); err != nil {
					rt.Fatalf("harness: %v", err)
				}
			}
			wire, err := seg.BeaconFromPB(seg.PathSegmentToPB(ps))
			if err != nil {
				rt.Fatalf("harness: generated beacon does not parse: %v", err)
			}
			// ---- reference admission
			var usage beacon.Usage
			for _, p := range pols {
				if p.f.accepts(ias) {
					usage |= p.usage
				}
			}
			info, known := infos[inIf]
			reason := ""
			switch {
			case !known:
				reason = "unknown_interface"
			case usage == 0:
				reason = "all_policies"
			case info.LinkType != topology.Parent && info.LinkType != topology.Core:
				reason = "link_type"
			case ias[len(ias)-1] != info.IA:
				reason = "last_entry"
			case next != local:
				reason = "next"
			case badSig >= 0:
				reason = "signature"
			}
			if refASLoop(ias) {
				labels["as_loop_in_beacon"] = true
			} else if refISDLoop(ias) {
				labels["isd_loop_in_beacon"] = true
			}
			if len(ias) > 8 {
				labels["too_long"] = true
			}
			for _, ia := range ias {
				if ia == local {
					labels["local_as_in_beacon"] = true
				}
			}
			id := hex.EncodeToString(wire.ID())
			if reason == "" {
				_, had := model[id]
				if !had {
					model[id], modelTS[id] = usage, ts
					labels["stored"] = true
				} else if ts.After(modelTS[id]) {
					model[id], modelTS[id] = usage, ts
					labels["updated"] = true
				}
				nStored++
				full := beacon.UsageProp | beacon.UsageUpReg | beacon.UsageDownReg
				if core {
					full = beacon.UsageProp | beacon.UsageCoreReg
				}
				if usage != full {
					labels["partial_usage"] = true
				}
			} else {
				nRejected++
				labels["rejected_"+reason] = true
				if reason == "all_policies" {
					for _, p := range pols {
						for _, ia := range ias {
							for _, b := range p.f.asBlock {
								if ia.AS() == b {
									labels["blocked"] = true
								}
							}
						}
					}
				}
			}
			peer := &snet.UDPAddr{IA: ias[len(ias)-1], Path: snetpath.Empty{}, Host: &net.UDPAddr{IP: net.IPv4(10, 0, 0, 1), Port: 30252}}
			herr := h.HandleBeacon(ctx, beacon.Beacon{Segment: wire, InIfID: inIf}, peer)
			history = append(history, fmt.Sprintf("beacon %d %v next=%s in=%d badSig=%d -> model:%s code:%v", bi, ias, next, inIf, badSig, map[bool]string{true: "stored usage " + fmt.Sprint(int(usage)), false: "rejected " + reason}[reason == ""], herr))
			// ---- database content equals the model
			got, err := bdb.GetBeacons(ctx, nil)
			if err != nil {
				rt.Fatalf("harness: reading beacon database: %v", err)
			}
			gotM := map[string]beacon.Usage{}
			for _, g := range got {
				gotM[hex.EncodeToString(g.Beacon.Segment.ID())] = g.Usage
				// no stored beacon violates the policy of a usage it is stored with
				gi := iasOf(g.Beacon.Segment)
				for _, p := range pols {
					if g.Usage&p.usage != 0 && !p.f.accepts(gi) {
						rt.Fatalf("stored beacon %v carries usage %d although that policy rejects it (max %d, blocked AS %v ISD %v, ISD loops allowed %v)\n%s", gi, int(p.usage), p.f.max, p.f.asBlock, p.f.isdBlock, p.f.isdLoop, fmt.Sprint(history))
					}
				}
			}
			if len(gotM) != len(model) {
				rt.Fatalf("beacon database holds %d beacons, reference model %d after:\n%s", len(gotM), len(model), joinLines(history))
			}
			for k, u := range model {
				if gu, ok := gotM[k]; !ok || gu != u {
					rt.Fatalf("beacon %s: stored=%v with usage %d, reference usage %d after:\n%s", k[:8], ok, int(gu), int(u), joinLines(history))
				}
			}
			if (herr == nil) != (reason == "") {
				rt.Fatalf("handler returned %v although the reference %s the beacon:\n%s", herr, map[bool]string{true: "admits", false: "rejects (" + reason + ")"}[reason == ""], joinLines(history))
			}
		}
		// ---- propagation
		allowIsdLoop := rapid.Bool().Draw(rt, "propagatorAllowIsdLoop")
		sf := &c25SenderFactory{}
		lt := topology.Child
		if core {
			lt = topology.Core
		}
		me := w.as(local)
		ext := c23Extender(c23AS{ia: local, master: []byte("0123456789abcdef"), key: me.key}, infos, 63,
			[]beaconing.Signer{trust.Signer{PrivateKey: me.key, Algorithm: signed.ECDSAWithSHA256, IA: local, SubjectKeyID: me.chain[0].SubjectKeyId,
				Expiration: time.Now().Add(24 * time.Hour), TRCID: cppki.TRCID{ISD: local.ISD(), Base: 1, Serial: 1},
				ChainValidity: cppki.Validity{NotBefore: me.chain[0].NotBefore, NotAfter: me.chain[0].NotAfter}}}, 1400)
		ext.Intfs = intfs
		p := &beaconing.Propagator{Extender: ext, SenderFactory: sf, Provider: provider, IA: local, AllInterfaces: intfs,
			PropagationInterfaces: func() []*ifstate.Interface {
				return intfs.Filtered(func(i *ifstate.Interface) bool { return i.TopoInfo().LinkType == lt })
			},
			AllowIsdLoop: allowIsdLoop, Tick: beaconing.NewTick(time.Nanosecond)}
		p.Run(ctx)
		sort.Slice(sf.out, func(i, j int) bool { return sf.out[i].egress < sf.out[j].egress })
		for _, s := range sf.out {
			hops := iasOf(s.seg)
			if hops[len(hops)-1] != local {
				rt.Fatalf("propagated beacon %v on interface %d does not end with the local AS", hops, s.egress)
			}
			full := append(append([]addr.IA{}, hops...), infos[s.egress].IA)
			if refASLoop(full) {
				rt.Fatalf("beacon propagated over interface %d creates an AS loop: %v (stored entries, local AS %s, neighbour %s)\n%s", s.egress, full, local, infos[s.egress].IA, joinLines(history))
			}
			if !allowIsdLoop && refISDLoop(full) {
				rt.Fatalf("beacon propagated over interface %d creates an ISD loop although ISD loops are disallowed: %v (stored entries, local AS %s, neighbour %s)\n%s", s.egress, full, local, infos[s.egress].IA, joinLines(history))
			}
			// it is a stored beacon with propagation usage
			pre := &seg.PathSegment{ASEntries: s.seg.ASEntries[:len(s.seg.ASEntries)-1]}
			if u, ok := model[hex.EncodeToString(pre.ID())]; !ok || u&beacon.UsageProp == 0 {
				rt.Fatalf("propagated beacon %v is not a stored beacon with propagation usage (stored=%v usage=%d)", hops, ok, int(u))
			}
			labels["propagated"] = true
		}
		// how many (stored prop beacon, interface) pairs the loop rule suppresses
		for _, id := range sortedKeys(model) {
			if model[id]&beacon.UsageProp == 0 {
				continue
			}
			for j := range prev {
				// find the IA list of that id
				_ = j
			}
		}
		for i, ias := range prev {
			_ = i
			for id, info := range infos {
				_ = id
				if info.LinkType != lt {
					continue
				}
				full := append(append(append([]addr.IA{}, ias...), local), info.IA)
				if refASLoop(full) {
					labels["propagation_suppressed_as_loop"] = true
				} else if !allowIsdLoop && refISDLoop(full) {
					labels["propagation_suppressed_isd_loop"] = true
				}
			}
		}
		rec.Case((nStored > 0 && nRejected > 0) || len(sf.out) > 0, joinLines(history)+fmt.Sprint(core, allowIsdLoop), keys(labels)...)
		rec.Sample(func() any {
			return map[string]any{"local": local.String(), "core": core, "beacons": nBeacons, "stored": nStored, "rejected": nRejected, "propagated": len(sf.out), "history": history}
		})
	})
}

func joinLines(s []string) string {
	out := ""
	for _, l := range s {
		out += "  " + l + "\n"
	}
	return out
}

func sortedKeys(m map[string]beacon.Usage) []string {
	var k []string
	for x := range m {
		k = append(k, x)
	}
	sort.Strings(k)
	return k
}
