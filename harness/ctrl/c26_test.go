package ctrl

import (
	"context"
	"fmt"
	"testing"

	"pgregory.net/rapid"

	"github.com/scionproto/scion/control/beacon"
	"github.com/scionproto/scion/pkg/addr"
	seg "github.com/scionproto/scion/pkg/segment"

	"verif/internal/evid"
)

// ---------------------------------------------------------------------------------------------
// C26 — beacon selection returns the shortest beacons plus the most diverse one.
// Oracle (D): direct transcription of the statement; link diversity computed on (AS, egress
// interface) sets. For k = 1 the statement leaves the choice under-determined ("k-1 first ones" is
// empty): only "exactly one of the candidates, no panic" is asserted there.
// ---------------------------------------------------------------------------------------------

type c26Link struct {
	as  int
	ifc int
}

func c26Beacon(id int, links []c26Link) beacon.Beacon {
	ps := &seg.PathSegment{}
	for _, l := range links {
		ps.ASEntries = append(ps.ASEntries, seg.ASEntry{Local: addr.MustIAFrom(1, addr.AS(l.as)),
			HopEntry: seg.HopEntry{HopField: seg.HopField{ConsEgress: uint16(l.ifc)}}})
	}
	return beacon.Beacon{Segment: ps, InIfID: uint16(id)}
}

// refDiversity: number of links of a that do not appear in b.
func refDiversity(a, b []c26Link) int {
	n := 0
	for _, x := range a {
		found := false
		for _, y := range b {
			if x == y {
				found = true
				break
			}
		}
		if !found {
			n++
		}
	}
	return n
}

func TestC26(t *testing.T) {
	rec := evid.New("C26", "rapid: n in [0,40] candidate beacons in non-decreasing length order with links drawn from a small (AS, interface) alphabet so that sharing is frequent, "+
		"k in [1,25]; SelectBeacons compared with a transcription of the statement. Non-trivial: n > k >= 2 and the most diverse remaining candidate is not the first remaining one.")
	defer rec.Flush(t)
	rec.Assume("candidates are supplied ordered by length, as the beacon stores do", "for k = 1 only: one candidate returned, no panic")
	rec.Require("n_le_k", "k1", "diverse_picked", "first_remaining", "diverse_tie_shortest")
	algo := beacon.DefaultSelectionAlgorithm()
	rapid.Check(t, func(rt *rapid.T) {
		n := rapid.IntRange(0, 40).Draw(rt, "n")
		if rapid.Bool().Draw(rt, "smalln") {
			n = rapid.IntRange(0, 8).Draw(rt, "n8")
		}
		k := rapid.IntRange(1, 25).Draw(rt, "k")
		if rapid.Bool().Draw(rt, "smallk") {
			k = rapid.IntRange(1, 5).Draw(rt, "k5")
		}
		nAS := rapid.IntRange(2, 6).Draw(rt, "alphabet")
		var bs []beacon.Beacon
		var ls [][]c26Link
		l := 1
		for i := 0; i < n; i++ {
			l += rapid.IntRange(0, 1).Draw(rt, "grow")
			var links []c26Link
			for j := 0; j < l; j++ {
				links = append(links, c26Link{rapid.IntRange(1, nAS).Draw(rt, "as"), rapid.IntRange(1, 3).Draw(rt, "if")})
			}
			ls = append(ls, links)
			bs = append(bs, c26Beacon(i, links))
		}
		var got []beacon.Beacon
		func() {
			defer func() {
				if r := recover(); r != nil {
					rt.Fatalf("SelectBeacons(n=%d, k=%d) panicked: %v", n, k, r)
				}
			}()
			got = algo.SelectBeacons(context.Background(), append([]beacon.Beacon{}, bs...), k)
		}()
		var ids []int
		for _, b := range got {
			ids = append(ids, int(b.InIfID))
		}
		var labels []string
		nt := false
		switch {
		case n <= k:
			labels = append(labels, "n_le_k")
			if len(got) != n {
				rt.Fatalf("n=%d <= k=%d: %d beacons returned", n, k, len(got))
			}
			for i := range got {
				if ids[i] != i {
					rt.Fatalf("n <= k: returned %v, expected all candidates in order", ids)
				}
			}
		case k == 1:
			labels = append(labels, "k1")
			if len(got) != 1 || ids[0] < 0 || ids[0] >= n {
				rt.Fatalf("k=1, n=%d: returned %v, expected exactly one candidate", n, ids)
			}
		default:
			if len(got) != k {
				rt.Fatalf("n=%d > k=%d: %d beacons returned", n, k, len(got))
			}
			for i := 0; i < k-1; i++ {
				if ids[i] != i {
					rt.Fatalf("the first k-1 results are %v, expected the k-1 first candidates", ids[:k-1])
				}
			}
			bestFirst := -1
			for i := 0; i < k-1; i++ {
				bestFirst = max(bestFirst, refDiversity(ls[0], ls[i]))
			}
			bestRest, idx, ties := -1, -1, 0
			for i := k - 1; i < n; i++ {
				d := refDiversity(ls[0], ls[i])
				switch {
				case d > bestRest:
					bestRest, idx, ties = d, i, 0
				case d == bestRest:
					ties++
					if len(ls[i]) < len(ls[idx]) {
						idx = i
					}
				}
			}
			want := k - 1
			if bestRest > bestFirst {
				want = idx
				labels = append(labels, "diverse_picked")
				if ties > 0 {
					labels = append(labels, "diverse_tie_shortest")
				}
				nt = idx != k-1
			} else {
				labels = append(labels, "first_remaining")
			}
			if ids[k-1] != want {
				// equally diverse and equally long candidates are interchangeable under the statement
				if !(bestRest > bestFirst && refDiversity(ls[0], ls[ids[k-1]]) == bestRest && len(ls[ids[k-1]]) == len(ls[want]) && ids[k-1] >= k-1) {
					rt.Fatalf("n=%d k=%d: last pick is candidate %d, statement gives %d (diversity rest=%d, served=%d)\ncandidates %v", n, k, ids[k-1], want, bestRest, bestFirst, ls)
				}
			}
		}
		rec.Case(nt, fmt.Sprint(k, ls), labels...)
		rec.Sample(func() any { return map[string]any{"n": n, "k": k, "candidates_links": fmt.Sprint(ls), "selected": ids} })
	})
}
