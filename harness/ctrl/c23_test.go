package ctrl

import (
	"context"
	"crypto/ecdsa"
	"crypto/elliptic"
	"fmt"
	"testing"
	"testing/synctest"
	"time"

	"google.golang.org/protobuf/proto"
	"pgregory.net/rapid"

	"github.com/scionproto/scion/control/beaconing"
	"github.com/scionproto/scion/control/ifstate"
	"github.com/scionproto/scion/pkg/addr"
	cppb "github.com/scionproto/scion/pkg/proto/control_plane"
	"github.com/scionproto/scion/pkg/scrypto"
	"github.com/scionproto/scion/pkg/scrypto/cppki"
	"github.com/scionproto/scion/pkg/scrypto/signed"
	seg "github.com/scionproto/scion/pkg/segment"
	"github.com/scionproto/scion/pkg/segment/extensions/discovery"
	"github.com/scionproto/scion/pkg/slayers/path"
	"github.com/scionproto/scion/private/topology"
	"github.com/scionproto/scion/private/trust"

	"verif/internal/evid"
	"verif/internal/pki"
	"verif/internal/ref"
)

// ---------------------------------------------------------------------------------------------
// C23 — beacon extension produces verifiable, correctly bounded AS entries.
// A segment of 0-8 entries (built by the extenders of a chain of ASes) is extended by the real
// DefaultExtender of the AS under test with generated ingress/egress/peers, maximum expiry and 1-3
// signers with different validity windows. Oracle: entry names local AS and the neighbour behind the
// egress interface; signature verifies over info || earlier (header-and-body, signature) pairs
// recomputed from the protobuf form; hop and peer MACs equal the reference MAC with an independently
// XOR-chained accumulator; expiry bounded by the maximum and by the chosen signer's expiry (and
// maximal); inconsistent ingress/egress for the position => error and the segment is unchanged.
// ---------------------------------------------------------------------------------------------

type c23AS struct {
	ia     addr.IA
	master []byte
	key    *ecdsa.PrivateKey
}

func c23Extender(a c23AS, infos map[uint16]ifstate.InterfaceInfo, maxExp uint8, signers []beaconing.Signer, mtu uint16) *beaconing.DefaultExtender {
	macF, err := scrypto.HFMacFactory(a.master)
	if err != nil {
		panic(err)
	}
	return &beaconing.DefaultExtender{
		IA: a.ia, MAC: macF, Intfs: ifstate.NewInterfaces(infos, ifstate.Config{}), MTU: mtu,
		SignerGen:            beaconing.SignerGenFunc(func(context.Context) ([]beaconing.Signer, error) { return signers, nil }),
		MaxExpTime:           func() uint8 { return maxExp },
		Task:                 "verif",
		StaticInfo:           func() *beaconing.StaticInfoCfg { return nil },
		DiscoveryInformation: func() *discovery.Extension { return nil },
	}
}

func c23Signer(a c23AS, notBefore, notAfter time.Time) trust.Signer {
	return trust.Signer{PrivateKey: a.key, Algorithm: signed.ECDSAWithSHA256, IA: a.ia, TRCID: cppki.TRCID{ISD: a.ia.ISD(), Base: 1, Serial: 1},
		SubjectKeyID: []byte("skid"), Expiration: notAfter, ChainValidity: cppki.Validity{NotBefore: notBefore, NotAfter: notAfter.Add(time.Hour)}}
}

func TestC23(t *testing.T) {
	rec := evid.New("C23", "rapid: segment of 0-8 earlier entries (chain of ASes with their own keys) extended by the real extender with ingress/egress drawn from {consistent, zero where non-zero is required, non-zero where zero is required, both zero}, "+
		"0-3 peer interfaces (some without remote interface id), MTU, maximum ExpTime 0-255, 1-3 signers whose validity windows lie around the segment timestamp and now (some expiring before the maximum hop lifetime, some not covering), "+
		"origination / propagation / termination. Oracle: see header comment. Non-trivial: signer expiry shortens the hop lifetime, or peer entries present.")
	defer rec.Flush(t)
	rec.Assume("reference MAC and XOR chaining from the header specification (internal/ref)", "ECDSA and protobuf are trusted; signature verification recomputes the associated data from the wire form")
	rec.Require("originate", "propagate", "terminate", "peers", "peer_skipped_no_remote_id", "expiry_limited_by_signer", "expiry_limited_by_max", "inconsistent_rejected", "no_covering_signer_rejected", "several_signers", "signer_shorter_than_one_unit_rejected")
	rapid.Check(t, func(rt *rapid.T) { bubble(t, func() { c23Case(rt, rec) }) })
}

// bubble runs f under testing/synctest's virtual clock, so that "now" is the same instant for the
// check and for the extender (a wall clock made the signer-coverage oracle race with the code).
// rapid's control-flow panics are carried out of the bubble and re-raised on rapid's goroutine.
func bubble(t *testing.T, f func()) {
	var pv any
	synctest.Test(t, func(t *testing.T) {
		defer func() {
			if r := recover(); r != nil {
				pv = r
			}
		}()
		f()
	})
	if pv != nil {
		panic(pv)
	}
}

func c23Case(rt *rapid.T, rec *evid.Rec) {
	{
		ctx := context.Background()
		now := time.Now()
		nPrev := rapid.IntRange(0, 8).Draw(rt, "earlierEntries")
		age := time.Duration(rapid.IntRange(0, 3600).Draw(rt, "ageSeconds")) * time.Second
		ts := now.Add(-age).Truncate(time.Second)
		segID := rapid.Uint16().Draw(rt, "segmentID")
		ps, err := seg.CreateSegment(ts, segID)
		if err != nil {
			rt.Fatalf("CreateSegment: %v", err)
		}
		mkAS := func(i int) c23AS {
			return c23AS{ia: addr.MustIAFrom(1, addr.AS(0xff0000000100+uint64(i))), master: rapid.SliceOfN(rapid.Byte(), 16, 16).Draw(rt, "master"), key: pki.Key(elliptic.P256(), 300+i)}
		}
		// earlier entries: AS i has ingress interface 10+i (from AS i-1) and egress 20+i (to AS i+1)
		ases := []c23AS{}
		for i := 0; i <= nPrev; i++ {
			ases = append(ases, mkAS(i))
		}
		for i := 0; i < nPrev; i++ {
			infos := map[uint16]ifstate.InterfaceInfo{uint16(20 + i): {ID: uint16(20 + i), IA: ases[i+1].ia, LinkType: topology.Child, RemoteID: uint16(10 + i + 1), MTU: 1400}}
			in := uint16(0)
			if i > 0 {
				in = uint16(10 + i)
				infos[in] = ifstate.InterfaceInfo{ID: in, IA: ases[i-1].ia, LinkType: topology.Parent, RemoteID: uint16(20 + i - 1), MTU: 1400}
			}
			ext := c23Extender(ases[i], infos, 63, []beaconing.Signer{c23Signer(ases[i], ts.Add(-time.Hour), now.Add(48*time.Hour))}, 1400)
			if err := ext.Extend(ctx, ps, in, uint16(20+i), nil); err != nil {
				rt.Fatalf("building earlier entry %d: %v", i, err)
			}
		}
		// ---- the AS under test
		me := ases[nPrev]
		first := nPrev == 0
		inID, egID := uint16(10+nPrev), uint16(20+nPrev)
		nextIA := mkAS(nPrev + 1).ia
		infos := map[uint16]ifstate.InterfaceInfo{egID: {ID: egID, IA: nextIA, LinkType: topology.Child, RemoteID: 77, MTU: uint16(rapid.IntRange(1200, 1500).Draw(rt, "egressMTU"))}}
		inMTU := uint16(rapid.IntRange(1200, 1500).Draw(rt, "ingressMTU"))
		if !first {
			infos[inID] = ifstate.InterfaceInfo{ID: inID, IA: ases[nPrev-1].ia, LinkType: topology.Parent, RemoteID: uint16(20 + nPrev - 1), MTU: inMTU}
		} else {
			infos[inID] = ifstate.InterfaceInfo{ID: inID, IA: addr.MustParseIA("1-ff00:0:99"), LinkType: topology.Parent, RemoteID: 5, MTU: inMTU}
		}
		var peers []uint16
		type peerInfo struct {
			id       uint16
			remoteIA addr.IA
			remoteID uint16
			mtu      uint16
		}
		var wantPeers []peerInfo
		labels := map[string]bool{}
		for i := rapid.IntRange(0, 3).Draw(rt, "nPeers"); i > 0; i-- {
			id := uint16(40 + i)
			pi := peerInfo{id: id, remoteIA: addr.MustIAFrom(2, addr.AS(0xff0000000300+uint64(i))), remoteID: uint16(rapid.IntRange(0, 3).Draw(rt, "peerRemoteID")), mtu: uint16(rapid.IntRange(1200, 1500).Draw(rt, "peerMTU"))}
			infos[id] = ifstate.InterfaceInfo{ID: id, IA: pi.remoteIA, LinkType: topology.Peer, RemoteID: pi.remoteID, MTU: pi.mtu}
			peers = append(peers, id)
			if pi.remoteID != 0 {
				wantPeers = append(wantPeers, pi)
			} else {
				labels["peer_skipped_no_remote_id"] = true
			}
		}
		maxExp := uint8(rapid.IntRange(0, 255).Draw(rt, "maxExpTime"))
		// signers
		var signers []beaconing.Signer
		var sigs []trust.Signer
		nSig := rapid.IntRange(1, 3).Draw(rt, "nSigners")
		for i := 0; i < nSig; i++ {
			nb := ts.Add(time.Duration(rapid.OneOf(rapid.IntRange(-7200, 0), rapid.IntRange(-7200, 0), rapid.IntRange(-5, 600)).Draw(rt, "notBeforeOff")) * time.Second)
			na := now.Add(time.Duration(rapid.OneOf(rapid.IntRange(0, 90000), rapid.IntRange(0, 90000), rapid.IntRange(-600, 5)).Draw(rt, "notAfterOff")) * time.Second)
			s := c23Signer(me, nb, na)
			signers = append(signers, s)
			sigs = append(sigs, s)
		}
		if nSig > 1 {
			labels["several_signers"] = true
		}
		// the signer the statement's rule selects: covers [ts, now], latest expiry
		var chosen *trust.Signer
		for i := range sigs {
			v := sigs[i].Validity()
			if !v.NotBefore.After(ts) && !v.NotAfter.Before(now) {
				if chosen == nil || v.NotAfter.After(chosen.Validity().NotAfter) {
					chosen = &sigs[i]
				}
			}
		}
		// ingress/egress choice
		mode := rapid.SampledFrom([]string{"consistent", "consistent", "consistent", "consistent", "consistent", "consistent", "ingress_zero_midway", "ingress_nonzero_first", "both_zero"}).Draw(rt, "ifMode")
		terminate := rapid.IntRange(0, 3).Draw(rt, "terminate") == 0 && !first
		in, eg := inID, egID
		if first {
			in = 0
		}
		if terminate {
			eg = 0
		}
		inconsistent := false
		switch mode {
		case "ingress_zero_midway":
			if !first {
				in, inconsistent = 0, true
			}
		case "ingress_nonzero_first":
			if first {
				in, inconsistent = inID, true
			}
		case "both_zero":
			in, eg = 0, 0
			inconsistent = true
		}
		ext := c23Extender(me, infos, maxExp, signers, uint16(rapid.IntRange(1200, 1500).Draw(rt, "asMTU")))
		before := len(ps.ASEntries)
		err = ext.Extend(ctx, ps, in, eg, peers)
		desc := fmt.Sprintf("earlier=%d in=%d eg=%d peers=%v maxExp=%d signers=%d chosen=%v mode=%s age=%v", nPrev, in, eg, peers, maxExp, nSig, chosen != nil, mode, age)
		if inconsistent {
			if err == nil {
				rt.Fatalf("extension succeeded although ingress/egress are inconsistent with the entry's position: %s", desc)
			}
			if len(ps.ASEntries) != before {
				rt.Fatalf("failed extension changed the segment: %s", desc)
			}
			labels["inconsistent_rejected"] = true
			rec.Case(true, desc, keys(labels)...)
			return
		}
		if chosen == nil {
			if err == nil {
				rt.Fatalf("extension succeeded although no signer covers [segment timestamp, now]: %s", desc)
			}
			labels["no_covering_signer_rejected"] = true
			rec.Case(true, desc, keys(labels)...)
			return
		}
		if chosen.Validity().NotAfter.Sub(ts) < path.ExpTimeToDuration(0) && ts.Add(path.ExpTimeToDuration(maxExp)).After(chosen.Validity().NotAfter) {
			// no ExpTime value keeps the hop within the signer's validity: the only correct outcome is an error
			if err == nil {
				rt.Fatalf("extension succeeded although the signer expires before the shortest possible hop lifetime: %s", desc)
			}
			if len(ps.ASEntries) != before {
				rt.Fatalf("failed extension changed the segment: %s", desc)
			}
			labels["signer_shorter_than_one_unit_rejected"] = true
			rec.Case(true, desc, keys(labels)...)
			return
		}
		if err != nil {
			rt.Fatalf("extension failed: %v: %s", err, desc)
		}
		e := ps.ASEntries[len(ps.ASEntries)-1]
		wantNext := nextIA
		if eg == 0 {
			wantNext = 0
		}
		if e.Local != me.ia || e.Next != wantNext {
			rt.Fatalf("entry names local %s next %s, expected %s and %s: %s", e.Local, e.Next, me.ia, wantNext, desc)
		}
		// ---- signature over info || earlier entries and signatures (recomputed from the wire form)
		pb := seg.PathSegmentToPB(ps)
		assoc := [][]byte{pb.SegmentInfo}
		for i := 0; i < len(pb.AsEntries)-1; i++ {
			assoc = append(assoc, pb.AsEntries[i].Signed.HeaderAndBody, pb.AsEntries[i].Signed.Signature)
		}
		last := pb.AsEntries[len(pb.AsEntries)-1]
		msg, err := signed.Verify(last.Signed, chosen.PrivateKey.Public(), assoc...)
		if err != nil {
			rt.Fatalf("signature of the new entry does not verify over segment info and all earlier entries and signatures: %v: %s", err, desc)
		}
		var body cppb.ASEntrySignedBody
		if err := proto.Unmarshal(msg.Body, &body); err != nil {
			rt.Fatalf("signed body does not decode: %v", err)
		}
		if addr.IA(body.IsdAs) != me.ia || addr.IA(body.NextIsdAs) != wantNext {
			rt.Fatalf("signed body names %s -> %s: %s", addr.IA(body.IsdAs), addr.IA(body.NextIsdAs), desc)
		}
		// ---- MACs with the independently chained accumulator
		key := ref.HopKey(me.master)
		beta := segID
		for _, pe := range ps.ASEntries[:len(ps.ASEntries)-1] {
			beta ^= uint16(pe.HopEntry.HopField.MAC[0])<<8 | uint16(pe.HopEntry.HopField.MAC[1])
		}
		hf := e.HopEntry.HopField
		if hf.ConsIngress != in || hf.ConsEgress != eg {
			rt.Fatalf("hop field interfaces %d/%d, expected %d/%d: %s", hf.ConsIngress, hf.ConsEgress, in, eg, desc)
		}
		if want := ref.HopMAC(key, beta, uint32(ts.Unix()), hf.ExpTime, in, eg); hf.MAC != want {
			rt.Fatalf("hop field MAC %x does not verify under the AS key with the accumulated segment identifier %#04x (reference %x): %s", hf.MAC, beta, want, desc)
		}
		peerBeta := beta ^ (uint16(hf.MAC[0])<<8 | uint16(hf.MAC[1]))
		if len(e.PeerEntries) != len(wantPeers) {
			rt.Fatalf("%d peer entries, expected %d (peers with a remote interface id): %s", len(e.PeerEntries), len(wantPeers), desc)
		}
		for i, pe := range e.PeerEntries {
			wp := wantPeers[i]
			if pe.Peer != wp.remoteIA || pe.PeerInterface != wp.remoteID || pe.HopField.ConsIngress != wp.id || pe.HopField.ConsEgress != eg {
				rt.Fatalf("peer entry %d is %+v, expected peer %s#%d via local interface %d: %s", i, pe, wp.remoteIA, wp.remoteID, wp.id, desc)
			}
			if want := ref.HopMAC(key, peerBeta, uint32(ts.Unix()), pe.HopField.ExpTime, wp.id, eg); pe.HopField.MAC != want {
				rt.Fatalf("peer hop field %d MAC %x does not verify with accumulator %#04x (reference %x): %s", i, pe.HopField.MAC, peerBeta, want, desc)
			}
			labels["peers"] = true
		}
		// ---- expiry bounds (hop and peer hop fields)
		signerExp := chosen.Validity().NotAfter
		exps := []uint8{hf.ExpTime}
		for _, pe := range e.PeerEntries {
			exps = append(exps, pe.HopField.ExpTime)
		}
		limited := ts.Add(path.ExpTimeToDuration(maxExp)).After(signerExp)
		for i, x := range exps {
			if x > maxExp {
				rt.Fatalf("hop field %d ExpTime %d exceeds the configured maximum %d: %s", i, x, maxExp, desc)
			}
			if ts.Add(path.ExpTimeToDuration(x)).After(signerExp) {
				rt.Fatalf("hop field %d (ExpTime %d) expires %v after the signer used (%v): %s", i, x, ts.Add(path.ExpTimeToDuration(x)).Sub(signerExp), signerExp, desc)
			}
			if (!limited && x != maxExp) || (limited && x < 255 && !ts.Add(path.ExpTimeToDuration(x+1)).After(signerExp)) {
				labels["observed_expiry_shorter_than_allowed"] = true // not demanded by the property, only counted
			}
		}
		if limited {
			labels["expiry_limited_by_signer"] = true
		} else {
			labels["expiry_limited_by_max"] = true
		}
		switch {
		case first:
			labels["originate"] = true
		case eg == 0:
			labels["terminate"] = true
		default:
			labels["propagate"] = true
		}
		if e.MTU != int(ext.MTU) || (in != 0 && e.HopEntry.IngressMTU != int(inMTU)) {
			rt.Fatalf("entry MTU %d / ingress MTU %d, expected %d / %d: %s", e.MTU, e.HopEntry.IngressMTU, ext.MTU, inMTU, desc)
		}
		rec.Case(limited || len(e.PeerEntries) > 0, desc, keys(labels)...)
		rec.Sample(func() any {
			return map[string]any{"case": desc, "exp_time": hf.ExpTime, "peer_entries": len(e.PeerEntries), "signer_limits_expiry": limited}
		})
	}
}

func keys(m map[string]bool) []string {
	var out []string
	for k := range m {
		out = append(out, k)
	}
	return out
}
