package ctrl

import (
	"context"
	"crypto/ecdsa"
	"crypto/elliptic"
	"crypto/x509"
	"encoding/asn1"
	"fmt"
	"math/big"
	"net"
	"sync"
	"sync/atomic"
	"testing"
	"time"

	"github.com/patrickmn/go-cache"
	"google.golang.org/protobuf/proto"
	"pgregory.net/rapid"

	"github.com/scionproto/scion/pkg/addr"
	cppb "github.com/scionproto/scion/pkg/proto/control_plane"
	cryptopb "github.com/scionproto/scion/pkg/proto/crypto"
	"github.com/scionproto/scion/pkg/scrypto/cppki"
	"github.com/scionproto/scion/pkg/scrypto/signed"
	seg "github.com/scionproto/scion/pkg/segment"
	"github.com/scionproto/scion/pkg/slayers/path"
	"github.com/scionproto/scion/private/segment/segverifier"
	sdb "github.com/scionproto/scion/private/storage/db"
	trustsql "github.com/scionproto/scion/private/storage/trust/sqlite"
	"github.com/scionproto/scion/private/trust"
	"github.com/scionproto/scion/private/trust/compat"
	trustgrpc "github.com/scionproto/scion/private/trust/grpc"

	"verif/internal/evid"
	"verif/internal/findings"
	"verif/internal/pki"
)

// ---------------------------------------------------------------------------------------------
// C24 — segment verification detects any alteration of signed content.
// Real stack: seg.PathSegment.AddASEntry (signing) -> protobuf -> SegmentFromPB/BeaconFromPB ->
// segverifier.VerifySegment -> compat/trust.Verifier (with and without its chain cache) ->
// trust.FetchingProvider on an in-memory SQLite trust database, missing chains served by a remote
// that answers sloppily and is filtered by the production CheckChainsMatchQuery.
// Oracle ("iff"): the segment verifies exactly when every entry was signed with the key certified
// for that entry's ISD-AS by a chain whose AS certificate covers [timestamp, timestamp+lifetime(hop)].
// Then one mutation of the wire form: any alteration must be rejected (at parsing or verification),
// a prefix must verify.
// ---------------------------------------------------------------------------------------------

var (
	c24Once sync.Once
	c24ISD  *pki.ISD
	c24Seq  atomic.Int64
)

type c24AS struct {
	ia    addr.IA
	key   *ecdsa.PrivateKey
	chain []*x509.Certificate
}

type c24Remote struct {
	chains [][]*x509.Certificate
	asked  int
	// appended: chains a dishonest remote adds after the matching ones in replies for that AS
	appended map[addr.IA][][]*x509.Certificate
}

func (r *c24Remote) Chains(ctx context.Context, q trust.ChainQuery, _ net.Addr) ([][]*x509.Certificate, error) {
	r.asked++
	// a sloppy remote: everything it has for that AS; the production fetcher rejects a reply that
	// does not match the query
	var out [][]*x509.Certificate
	for _, c := range r.chains {
		ia, _ := cppki.ExtractIA(c[0].Subject)
		if ia == q.IA {
			out = append(out, c)
		}
	}
	out = append(out, r.appended[q.IA]...)
	if err := trustgrpc.CheckChainsMatchQuery(q, out); err != nil {
		return nil, err
	}
	return out, nil
}

func (r *c24Remote) TRC(context.Context, cppki.TRCID, net.Addr) (cppki.SignedTRC, error) {
	return cppki.SignedTRC{}, fmt.Errorf("no TRC at remote")
}

type c24Allow struct{}

func (c24Allow) AllowRecursion(net.Addr) error { return nil }

type c24Entry struct {
	as       int // index of the AS named in the entry
	signerAS int // index of the AS whose key and key id sign it
	claimIA  int // index of the AS named in the verification key id
	skidAS   int // index of the AS whose subject key id is named (-1: the signer's)
	exp      uint8
	reason   string // why the entry must not verify ("" = must verify)
}

func c24Build(ctx context.Context, ases []c24AS, entries []c24Entry, ts time.Time, segID uint16, beacon bool) (*seg.PathSegment, error) {
	ps, err := seg.CreateSegment(ts, segID)
	if err != nil {
		return nil, err
	}
	for i, e := range entries {
		a := ases[e.as]
		ent := seg.ASEntry{Local: a.ia, MTU: 1400, HopEntry: seg.HopEntry{IngressMTU: 1400, HopField: seg.HopField{ExpTime: e.exp, ConsIngress: uint16(10 + i), ConsEgress: uint16(20 + i), MAC: [6]byte{byte(i), 1, 2, 3, 4, 5}}}}
		if i == 0 {
			ent.HopEntry.HopField.ConsIngress = 0
			ent.HopEntry.IngressMTU = 0
		}
		if i < len(entries)-1 {
			ent.Next = ases[entries[i+1].as].ia
		} else if beacon {
			ent.Next = addr.MustParseIA("1-ff00:0:999")
		} else {
			ent.HopEntry.HopField.ConsEgress = 0
		}
		if i%3 == 1 {
			ent.PeerEntries = []seg.PeerEntry{{Peer: addr.MustParseIA("1-ff00:0:777"), PeerInterface: 5, PeerMTU: 1300,
				HopField: seg.HopField{ExpTime: e.exp, ConsIngress: 99, ConsEgress: ent.HopEntry.HopField.ConsEgress, MAC: [6]byte{9, 9, 9, 9, 9, byte(i)}}}}
		}
		s := ases[e.signerAS]
		skid := s.chain[0].SubjectKeyId
		if e.skidAS >= 0 {
			skid = ases[e.skidAS].chain[0].SubjectKeyId
		}
		signer := trust.Signer{PrivateKey: s.key, Algorithm: signed.ECDSAWithSHA256, IA: ases[e.claimIA].ia, SubjectKeyID: skid,
			Expiration: time.Now().Add(time.Hour), TRCID: cppki.TRCID{ISD: 1, Base: 1, Serial: 1}}
		if err := ps.AddASEntry(ctx, ent, signer); err != nil {
			return nil, err
		}
	}
	return ps, nil
}

// c24Verify sends the segment through its wire form, as a receiver would get it.
func c24Verify(ctx context.Context, v compat.Verifier, pb *cppb.PathSegment) (parseErr, verifyErr error) {
	raw, err := proto.Marshal(pb)
	if err != nil {
		return err, nil
	}
	var got cppb.PathSegment
	if err := proto.Unmarshal(raw, &got); err != nil {
		return err, nil
	}
	ps, err := seg.SegmentFromPB(&got)
	if err != nil {
		if ps, err = seg.BeaconFromPB(&got); err != nil {
			return err, nil
		}
	}
	return nil, segverifier.VerifySegment(ctx, v, &net.UDPAddr{IP: net.IPv4(127, 0, 0, 9), Port: 30252}, ps)
}

func TestC24(t *testing.T) {
	rec := evid.New("C24", "rapid: segments of 1-10 AS entries signed through the production AddASEntry by per-AS keys with AS certificates of drawn validity windows (chains in the local trust database or only at a remote); "+
		"per entry the hop lifetime is drawn to lie inside or outside the certificate validity (start and end), the signer is the named AS, another AS under its own identity, another AS's key under the named identity, or the named identity and key id with a different key; "+
		"verifier with and without the chain cache, optionally warmed by an earlier valid segment of the same ASes; then one wire-level mutation: bit flip in a signed header-and-body, in a signature, in the segment info, malleated earlier signature, swap, removal, duplication, foreign insertion, or truncation to a prefix. "+
		"Oracle: verifies iff every entry honestly signed and certificate covers the hop lifetime; every mutation except truncation rejected; every prefix verifies. Non-trivial: a valid segment that was mutated, or an invalid entry placed after >= 1 valid entries.")
	defer rec.Flush(t)
	rec.Assume("ECDSA, X.509 and protobuf libraries are trusted", "the remote chain source is filtered by the production CheckChainsMatchQuery as in the gRPC fetcher")
	rec.Require("valid", "invalid_cert_start", "invalid_cert_end", "invalid_foreign_identity", "invalid_foreign_key_under_named_identity", "invalid_wrong_key", "invalid_forger_chain_appended_by_remote", "cache_on", "cache_warm", "chain_from_remote",
		"mut_flip_body", "mut_flip_signature", "mut_flip_info", "mut_malleate_earlier_signature", "mut_swap", "mut_remove", "mut_duplicate", "mut_insert_foreign", "mut_truncate", "rejected_at_parse", "rejected_at_verify", "len_10")
	c24Once.Do(func() {
		now := time.Now()
		var err error
		c24ISD, err = pki.NewISD(1, []addr.AS{addr.MustParseAS("ff00:0:110"), addr.MustParseAS("ff00:0:120")}, now.Add(-72*time.Hour).Truncate(time.Second), now.Add(30*24*time.Hour).Truncate(time.Second), 900)
		if err != nil {
			panic(err)
		}
	})
	rapid.Check(t, func(rt *rapid.T) {
		ctx := context.Background()
		now := time.Now().Truncate(time.Second)
		db, err := trustsql.New(fmt.Sprintf("c24_%d_%d", time.Now().UnixNano(), c24Seq.Add(1)), &sdb.SqliteConfig{InMemory: true})
		if err != nil {
			rt.Fatalf("harness: %v", err)
		}
		defer db.Close()
		if _, err := db.InsertTRC(ctx, c24ISD.Base); err != nil {
			rt.Fatalf("harness: %v", err)
		}
		n := rapid.OneOf(rapid.IntRange(1, 10), rapid.Just(10)).Draw(rt, "entries")
		ts := now.Add(-time.Duration(rapid.IntRange(0, 7200).Draw(rt, "age")) * time.Second)
		labels := map[string]bool{}
		remote := &c24Remote{}
		// n ASes plus one spare identity
		var ases []c24AS
		var entries []c24Entry
		bad := rapid.IntRange(-1, n-1).Draw(rt, "invalidEntry") // -1: all valid
		if rapid.Bool().Draw(rt, "forceValid") {
			bad = -1
		}
		for i := 0; i <= n; i++ {
			a := c24AS{ia: addr.MustIAFrom(1, addr.AS(0xff0000000200+uint64(i))), key: pki.Key(elliptic.P256(), 400+i)}
			e := c24Entry{as: i, signerAS: i, claimIA: i, skidAS: -1}
			// certificate validity: must contain the wall clock (chains are verified against the TRC "now")
			nb := ts.Add(-time.Duration(rapid.IntRange(1, 86400).Draw(rt, "certBefore")) * time.Second)
			maxExp := rapid.IntRange(0, 255).Draw(rt, "exp")
			e.exp = uint8(maxExp)
			end := ts.Add(path.ExpTimeToDuration(e.exp))
			// X.509 times have whole seconds, hop lifetimes are multiples of 337.5 s: round up
			na := end.Add(time.Duration(rapid.IntRange(0, 86400).Draw(rt, "certAfter"))*time.Second + time.Second - 1).Truncate(time.Second)
			if i == bad {
				switch rapid.SampledFrom([]string{"cert_start", "cert_end", "foreign_identity", "foreign_key_under_named_identity", "wrong_key", "forger_chain_appended_by_remote"}).Draw(rt, "defect") {
				case "cert_start":
					late := ts.Add(time.Duration(rapid.IntRange(1, 600).Draw(rt, "late")) * time.Second)
					if !late.Before(now.Add(-30 * time.Second)) { // the certificate must be valid now
						late = ts.Add(time.Second)
					}
					if late.Before(now.Add(-30 * time.Second)) {
						nb, e.reason = late, "cert_start"
					}
				case "cert_end":
					early := end.Add(-time.Duration(rapid.IntRange(1, 300).Draw(rt, "early")) * time.Second).Truncate(time.Second)
					if early.After(now.Add(60 * time.Second)) {
						na, e.reason = early, "cert_end"
					}
				case "foreign_identity":
					e.signerAS, e.claimIA, e.reason = n, n, "foreign_identity"
				case "foreign_key_under_named_identity":
					// the impersonator is the spare AS or an AS that signed an earlier entry of this
					// segment (whose chain the verifier has just used and cached)
					e.signerAS, e.reason = rapid.SampledFrom(append([]int{n}, seqTo(i)...)).Draw(rt, "impersonator"), "foreign_key_under_named_identity"
				case "wrong_key":
					e.reason = "wrong_key"
				case "forger_chain_appended_by_remote":
					// the spare AS signs with its own key under the named AS's identity and key id; the
					// named AS's chain is only available remotely and the remote appends the forger's chain
					e.signerAS, e.skidAS, e.reason = n, i, "forger_chain_appended_by_remote"
				}
			}
			if !na.After(now.Add(60 * time.Second)) {
				na = now.Add(61 * time.Second)
				if na.Before(end) && e.reason == "" {
					e.reason = "cert_end"
				}
			}
			chain, err := c24ISD.ASChain(a.ia, a.key, i%2, nb, na)
			if err != nil {
				rt.Fatalf("harness: issuing chain: %v", err)
			}
			a.chain = chain
			if e.reason == "wrong_key" {
				// named identity and key id, but the signature is made with a different key
				a.key = pki.Key(elliptic.P256(), 600+i)
			}
			if onlyRemote := rapid.IntRange(0, 3).Draw(rt, "chainOnlyRemote") == 0; onlyRemote || e.reason == "forger_chain_appended_by_remote" {
				remote.chains = append(remote.chains, chain)
				labels["chain_from_remote"] = true
			} else if _, err := db.InsertChain(ctx, chain); err != nil {
				rt.Fatalf("harness: %v", err)
			}
			ases = append(ases, a)
			if i < n {
				entries = append(entries, e)
			}
		}
		for i, e := range entries {
			if e.reason == "forger_chain_appended_by_remote" {
				remote.appended = map[addr.IA][][]*x509.Certificate{ases[i].ia: {ases[n].chain}}
			}
		}
		wantErrAt := -1
		for i, e := range entries {
			if e.reason != "" {
				wantErrAt = i
				labels["invalid_"+e.reason] = true
				break
			}
		}
		ps, err := c24Build(ctx, ases, entries, ts, rapid.Uint16().Draw(rt, "segID"), false)
		if err != nil {
			rt.Fatalf("harness: building segment: %v", err)
		}
		tv := trust.Verifier{Engine: trust.FetchingProvider{DB: db, Recurser: c24Allow{}, Fetcher: remote}}
		if rapid.Bool().Draw(rt, "cache") {
			tv.Cache = cache.New(time.Minute, time.Minute)
			labels["cache_on"] = true
			if rapid.Bool().Draw(rt, "warm") {
				// an earlier, valid segment of the same ASes (shortest hop lifetime) fills the cache
				var warm []c24Entry
				okWarm := true
				for _, e := range entries {
					w := c24Entry{as: e.as, signerAS: e.as, claimIA: e.as, skidAS: -1, exp: 0}
					c := ases[e.as].chain[0]
					if e.reason == "wrong_key" || e.reason == "forger_chain_appended_by_remote" || ts.Before(c.NotBefore) || ts.Add(path.ExpTimeToDuration(0)).After(c.NotAfter) {
						okWarm = false
					}
					warm = append(warm, w)
				}
				if okWarm {
					wps, err := c24Build(ctx, ases, warm, ts, 1, false)
					if err != nil {
						rt.Fatalf("harness: %v", err)
					}
					if pe, ve := c24Verify(ctx, compat.Verifier{Verifier: tv}, seg.PathSegmentToPB(wps)); pe != nil || ve != nil {
						rt.Fatalf("a valid segment (shortest hop lifetimes, honest signers) does not verify: parse=%v verify=%v", pe, ve)
					}
					labels["cache_warm"] = true
				}
			}
		}
		v := compat.Verifier{Verifier: tv}
		if n == 10 {
			labels["len_10"] = true
		}
		desc := fmt.Sprintf("entries=%d invalid_at=%d", n, wantErrAt)
		if wantErrAt >= 0 {
			desc += " reason=" + entries[wantErrAt].reason
		}
		pb := seg.PathSegmentToPB(ps)
		pe, ve := c24Verify(ctx, v, pb)
		if pe != nil {
			rt.Fatalf("harness: built segment does not parse: %v", pe)
		}
		if wantErrAt >= 0 {
			if ve == nil {
				sig := "C24/cached-chain-ignores-validity"
				if labels["cache_warm"] && (entries[wantErrAt].reason == "cert_end" || entries[wantErrAt].reason == "cert_start") && findings.Listed(sig) {
					rec.Known(sig)
					rec.Case(true, desc+" known", keys(labels)...)
					return
				}
				rt.Fatalf("segment verifies although entry %d must not (%s): cert validity [%v, %v], segment timestamp %v, hop ExpTime %d (ends %v); cache=%v warm=%v",
					wantErrAt, entries[wantErrAt].reason, ases[wantErrAt].chain[0].NotBefore, ases[wantErrAt].chain[0].NotAfter, ts, entries[wantErrAt].exp,
					ts.Add(path.ExpTimeToDuration(entries[wantErrAt].exp)), labels["cache_on"], labels["cache_warm"])
			}
			rec.Case(wantErrAt > 0, desc, keys(labels)...)
			return
		}
		if ve != nil {
			rt.Fatalf("a segment whose entries are all honestly signed under covering certificates does not verify: %v (%s)", ve, desc)
		}
		labels["valid"] = true
		// ---- one mutation of the wire form
		mut := proto.Clone(pb).(*cppb.PathSegment)
		kinds := []string{"flip_body", "flip_signature", "flip_info", "truncate"}
		if n >= 2 {
			kinds = append(kinds, "malleate_earlier_signature", "swap", "remove", "duplicate", "insert_foreign")
		}
		kind := rapid.SampledFrom(kinds).Draw(rt, "mutation")
		labels["mut_"+kind] = true
		i := rapid.IntRange(0, n-1).Draw(rt, "at")
		flip := func(b []byte, what string) []byte {
			c := append([]byte{}, b...)
			o := rapid.IntRange(0, len(c)-1).Draw(rt, what+"Offset")
			c[o] ^= 1 << uint(rapid.IntRange(0, 7).Draw(rt, what+"Bit"))
			return c
		}
		wantOK := false
		switch kind {
		case "flip_body":
			mut.AsEntries[i].Signed.HeaderAndBody = flip(mut.AsEntries[i].Signed.HeaderAndBody, "body")
		case "flip_signature":
			mut.AsEntries[i].Signed.Signature = flip(mut.AsEntries[i].Signed.Signature, "sig")
		case "flip_info":
			mut.SegmentInfo = flip(mut.SegmentInfo, "info")
		case "malleate_earlier_signature":
			i = rapid.IntRange(0, n-2).Draw(rt, "earlier")
			var rs struct{ R, S *big.Int }
			if _, err := asn1.Unmarshal(mut.AsEntries[i].Signed.Signature, &rs); err != nil {
				rt.Fatalf("harness: %v", err)
			}
			rs.S = new(big.Int).Sub(elliptic.P256().Params().N, rs.S)
			m, err := asn1.Marshal(rs)
			if err != nil {
				rt.Fatalf("harness: %v", err)
			}
			mut.AsEntries[i].Signed.Signature = m
		case "swap":
			j := rapid.IntRange(0, n-2).Draw(rt, "with")
			if j >= i {
				j++
			}
			mut.AsEntries[i], mut.AsEntries[j] = mut.AsEntries[j], mut.AsEntries[i]
		case "remove":
			i = rapid.IntRange(0, n-2).Draw(rt, "removed")
			mut.AsEntries = append(mut.AsEntries[:i:i], mut.AsEntries[i+1:]...)
		case "duplicate":
			j := rapid.IntRange(0, n).Draw(rt, "insertAt")
			d := proto.Clone(mut.AsEntries[i]).(*cppb.ASEntry)
			mut.AsEntries = append(mut.AsEntries[:j:j], append([]*cppb.ASEntry{d}, mut.AsEntries[j:]...)...)
		case "insert_foreign":
			// an entry of another valid segment of the same ASes (same position, other segment id)
			other, err := c24Build(ctx, ases, entries, ts, 4711, false)
			if err != nil {
				rt.Fatalf("harness: %v", err)
			}
			opb := seg.PathSegmentToPB(other)
			if rapid.Bool().Draw(rt, "replace") {
				mut.AsEntries[i] = opb.AsEntries[i]
			} else {
				mut.AsEntries = append(mut.AsEntries[:i:i], append([]*cppb.ASEntry{opb.AsEntries[i]}, mut.AsEntries[i:]...)...)
			}
		case "truncate":
			k := rapid.IntRange(1, n).Draw(rt, "keep")
			mut.AsEntries = mut.AsEntries[:k]
			wantOK = true
		}
		if !wantOK && proto.Equal(mut, pb) {
			rt.Skip("mutation is the identity")
		}
		pe, ve = c24Verify(ctx, v, mut)
		switch {
		case wantOK && (pe != nil || ve != nil):
			rt.Fatalf("prefix of %d entries of a verifiable %d-entry segment does not verify: parse=%v verify=%v", len(mut.AsEntries), n, pe, ve)
		case !wantOK && pe == nil && ve == nil:
			rt.Fatalf("altered segment verifies: mutation %s at entry %d of %d (cache=%v)", kind, i, n, labels["cache_on"])
		case pe != nil:
			labels["rejected_at_parse"] = true
		case ve != nil:
			labels["rejected_at_verify"] = true
		}
		rec.Case(true, fmt.Sprintf("%s mut=%s at=%d", desc, kind, i), keys(labels)...)
		rec.Sample(func() any {
			return map[string]any{"entries": n, "mutation": kind, "at": i, "cache": labels["cache_on"], "rejected_at_parse": labels["rejected_at_parse"]}
		})
	})
}

var _ = cryptopb.SignedMessage{}

func seqTo(n int) []int {
	var out []int
	for i := 0; i < n; i++ {
		out = append(out, i)
	}
	return out
}
