package ctrl

import (
	"context"
	"crypto/elliptic"
	"encoding/hex"
	"fmt"
	"net"
	"sort"
	"testing"
	"time"

	"pgregory.net/rapid"

	"github.com/scionproto/scion/pkg/addr"
	"github.com/scionproto/scion/pkg/experimental/hiddenpath"
	"github.com/scionproto/scion/pkg/scrypto/cppki"
	"github.com/scionproto/scion/pkg/scrypto/signed"
	seg "github.com/scionproto/scion/pkg/segment"
	"github.com/scionproto/scion/pkg/snet"
	sdb "github.com/scionproto/scion/private/storage/db"
	storageutils "github.com/scionproto/scion/private/storage/utils"
	pathsql "github.com/scionproto/scion/private/storage/path/sqlite"
	"github.com/scionproto/scion/private/trust"

	"verif/internal/evid"
	"verif/internal/pki"
)

// ---------------------------------------------------------------------------------------------
// C45 — hidden segments are registered only by writers and served only to members.
// Real RegistryServer and AuthoritativeServer over the production Storer on a SQLite path database,
// production segment verification (trust database of C25). Stateful: 2-10 registrations / requests
// with drawn group configurations (owner, writers, readers, registries), registering ASes, segment
// sets (down / up / core typed, one with a bad signature, the same segment registered again under
// another group) and requests (group lists incl. unknown groups, requesters, destinations).
// Oracle: reference admission rules and a reference store (set of (segment, group) pairs).
// ---------------------------------------------------------------------------------------------

func TestC45(t *testing.T) {
	rec := evid.New("C45", "rapid stateful: 1-3 groups with drawn owner/writers/readers/registries over 6 ASes, a pool of 6 signed down segments (2-4 entries) to 3 destinations, history of 2-10 registrations and requests on a real SQLite segment store. "+
		"Oracle: reference admission + reference store. Non-trivial: a request answered with >= 1 segment after >= 2 registrations, or a registration refused for exactly one reason.")
	defer rec.Flush(t)
	rec.Assume("segment verification is the production stack on the shared trust database (in depth: C24)")
	rec.Require("registered", "refused_unknown_group", "refused_not_writer", "refused_not_registry", "refused_wrong_type", "refused_bad_signature", "served", "served_several_groups", "request_unknown_group", "request_not_member", "request_not_authoritative", "request_no_groups",
		"same_segment_second_group", "newer_version_replaces", "not_newer_version_ignored", "reader_served", "owner_served")
	w := c25Setup()
	rapid.Check(t, func(rt *rapid.T) {
		ctx := context.Background()
		labels := map[string]bool{}
		local := addr.MustParseIA("1-ff00:0:500")
		var ases []addr.IA
		for _, a := range w.ases {
			if a.ia.ISD() == 1 && a.ia != local {
				ases = append(ases, a.ia)
			}
		}
		ases = append(ases, local, addr.MustParseIA("2-ff00:0:201"), addr.MustParseIA("2-ff00:0:202"))
		subset := func(name string, p int) map[addr.IA]struct{} {
			m := map[addr.IA]struct{}{}
			for _, a := range ases {
				if rapid.IntRange(0, 9).Draw(rt, name) < p {
					m[a] = struct{}{}
				}
			}
			return m
		}
		groups := map[hiddenpath.GroupID]*hiddenpath.Group{}
		var gids []hiddenpath.GroupID
		for i := rapid.IntRange(1, 3).Draw(rt, "groups"); i > 0; i-- {
			owner := rapid.SampledFrom(ases).Draw(rt, "owner")
			id := hiddenpath.GroupID{OwnerAS: owner.AS(), Suffix: uint16(i)}
			g := &hiddenpath.Group{ID: id, Owner: owner, Writers: subset("writer", 5), Readers: subset("reader", 3), Registries: subset("registry", 3)}
			if rapid.IntRange(0, 3).Draw(rt, "localIsRegistry") != 0 {
				g.Registries[local] = struct{}{}
			}
			groups[id] = g
			gids = append(gids, id)
		}
		unknown := hiddenpath.GroupID{OwnerAS: addr.MustParseAS("ff00:0:999"), Suffix: 9}
		// segment pool
		now := time.Now().Truncate(time.Second)
		type pseg struct {
			s   [2]*seg.PathSegment // two versions of the same hop sequence; [1] is signed later
			ver [2]int64
			dst addr.IA
			bad bool
			id  string
		}
		var pool []pseg
		mk := func(idx int, chain []addr.IA, bad bool, ts time.Time) *seg.PathSegment {
			ps, err := seg.CreateSegment(ts, uint16(idx+1))
			if err != nil {
				rt.Fatalf("harness: %v", err)
			}
			for i, ia := range chain {
				e := seg.ASEntry{Local: ia, MTU: 1400, HopEntry: seg.HopEntry{HopField: seg.HopField{ExpTime: 63, ConsIngress: uint16(10 + i), ConsEgress: uint16(20 + i + 10*idx), MAC: [6]byte{byte(i), 1, 2, 3, 4, 5}}}}
				if i == 0 {
					e.HopEntry.HopField.ConsIngress = 0
				}
				if i < len(chain)-1 {
					e.Next = chain[i+1]
				} else {
					e.HopEntry.HopField.ConsEgress = 0
				}
				a := w.as(ia)
				key := a.key
				if bad && i == len(chain)-1 {
					key = pki.Key(elliptic.P256(), 1900)
				}
				if err := ps.AddASEntry(ctx, e, trust.Signer{PrivateKey: key, Algorithm: signed.ECDSAWithSHA256, IA: ia, SubjectKeyID: a.chain[0].SubjectKeyId,
					Expiration: time.Now().Add(time.Hour), TRCID: cppki.TRCID{ISD: ia.ISD(), Base: 1, Serial: 1}}); err != nil {
					rt.Fatalf("harness: %v", err)
				}
			}
			wire, err := seg.SegmentFromPB(seg.PathSegmentToPB(ps))
			if err != nil {
				rt.Fatalf("harness: %v", err)
			}
			return wire
		}
		isd1 := []addr.IA{addr.MustParseIA("1-ff00:0:201"), addr.MustParseIA("1-ff00:0:202"), addr.MustParseIA("1-ff00:0:203")}
		var chains [][]addr.IA
		for i := 0; i < 6; i++ {
			perm := rapid.Permutation(isd1).Draw(rt, "chain")
			chain := append([]addr.IA{local}, perm[:rapid.IntRange(1, 3).Draw(rt, "chainLen")]...)
			chains = append(chains, chain)
			v0 := mk(i, chain, i == 5, now.Add(-time.Duration(i)*time.Minute))
			pool = append(pool, pseg{s: [2]*seg.PathSegment{v0, nil}, dst: chain[len(chain)-1], bad: i == 5, id: hex.EncodeToString(v0.ID())})
		}
		time.Sleep(2 * time.Millisecond)
		for i := range pool {
			pool[i].s[1] = mk(i, chains[i], pool[i].bad, now.Add(-time.Duration(i)*time.Minute+time.Second))
			for v := 0; v < 2; v++ {
				x, err := storageutils.ExtractLastHopVersion(pool[i].s[v])
				if err != nil {
					rt.Fatalf("harness: %v", err)
				}
				pool[i].ver[v] = x
			}
			if pool[i].ver[1] <= pool[i].ver[0] || hex.EncodeToString(pool[i].s[1].ID()) != pool[i].id {
				rt.Fatalf("harness: second version of segment %d is not newer / not the same hop sequence", i)
			}
		}
		pdb, err := pathsql.New(fmt.Sprintf("c45_%d_%d", time.Now().UnixNano(), c24Seq.Add(1)), &sdb.SqliteConfig{InMemory: true})
		if err != nil {
			rt.Fatalf("harness: %v", err)
		}
		defer pdb.Close()
		store := &hiddenpath.Storer{DB: pdb}
		reg := hiddenpath.RegistryServer{Groups: groups, DB: store, Verifier: hiddenpath.VerifierAdapter{Verifier: w.ver}, LocalIA: local}
		auth := hiddenpath.AuthoritativeServer{Groups: groups, DB: store, LocalIA: local}
		// reference store with the path database's versioning rule (property C27): a strictly newer
		// version replaces the stored one and adds its group, an equal or older one is ignored
		type stored struct {
			ver    int64
			groups map[hiddenpath.GroupID]bool
		}
		model := map[string]*stored{}
		var history []string
		nReg := 0
		nontrivial := false
		gidOrUnknown := func(name string) hiddenpath.GroupID {
			if rapid.IntRange(0, 7).Draw(rt, name+"Unknown") == 0 {
				return unknown
			}
			return rapid.SampledFrom(gids).Draw(rt, name)
		}
		steps := rapid.IntRange(2, 10).Draw(rt, "steps")
		for st := 0; st < steps; st++ {
			if rapid.Bool().Draw(rt, "register") {
				gid := gidOrUnknown("regGroup")
				peer := rapid.SampledFrom(ases).Draw(rt, "registeringAS")
				if g, ok := groups[gid]; ok && rapid.IntRange(0, 2).Draw(rt, "anyPeer") != 0 {
					// mostly a writer of the group
					for _, a := range ases {
						if _, isW := g.Writers[a]; isW {
							peer = a
							break
						}
					}
				}
				var metas []*seg.Meta
				var reasons []string
				var which, vers []int
				nSeg := rapid.IntRange(1, 3).Draw(rt, "nSegs")
				for _, i := range rapid.Permutation([]int{0, 1, 2, 3, 4, 5}).Draw(rt, "segs")[:nSeg] {
					ty := seg.TypeDown
					if rapid.IntRange(0, 11).Draw(rt, "otherType") == 0 {
						ty = rapid.SampledFrom([]seg.Type{seg.TypeUp, seg.TypeCore}).Draw(rt, "type")
					}
					if i == 5 && rapid.IntRange(0, 2).Draw(rt, "keepBad") != 0 {
						i = 0
					}
					v := rapid.IntRange(0, 1).Draw(rt, "version")
					metas = append(metas, &seg.Meta{Segment: pool[i].s[v], Type: ty})
					which, vers = append(which, i), append(vers, v)
				}
				g, ok := groups[gid]
				switch {
				case !ok:
					reasons = append(reasons, "unknown_group")
				default:
					if _, isW := g.Writers[peer]; !isW {
						reasons = append(reasons, "not_writer")
					}
					if _, isR := g.Registries[local]; !isR {
						reasons = append(reasons, "not_registry")
					}
				}
				for k, m := range metas {
					if m.Type != seg.TypeDown {
						reasons = append(reasons, "wrong_type")
						break
					}
					_ = k
				}
				for _, i := range which {
					if pool[i].bad {
						reasons = append(reasons, "bad_signature")
						break
					}
				}
				err := reg.Register(ctx, hiddenpath.Registration{Segments: metas, GroupID: gid, Peer: &snet.SVCAddr{IA: peer, SVC: addr.SvcCS, NextHop: &net.UDPAddr{IP: net.IPv4(10, 0, 0, 1), Port: 30252}}})
				history = append(history, fmt.Sprintf("register %v versions %v in %v by %s -> err=%v (reference: %v)", which, vers, gid, peer, err != nil, reasons))
				if (err == nil) != (len(reasons) == 0) {
					rt.Fatalf("registration returned %v, reference reasons to refuse: %v\n%s", err, reasons, joinLines(history))
				}
				if err == nil {
					for k, i := range which {
						st := model[pool[i].id]
						v := pool[i].ver[vers[k]]
						switch {
						case st == nil:
							model[pool[i].id] = &stored{ver: v, groups: map[hiddenpath.GroupID]bool{gid: true}}
						case v > st.ver:
							st.ver = v
							if !st.groups[gid] {
								labels["same_segment_second_group"] = true
							}
							st.groups[gid] = true
							labels["newer_version_replaces"] = true
						default:
							if !st.groups[gid] {
								labels["not_newer_version_ignored"] = true
							}
						}
					}
					labels["registered"] = true
					nReg++
				} else if len(reasons) == 1 {
					labels["refused_"+reasons[0]] = true
					nontrivial = true
				}
			} else {
				var req []hiddenpath.GroupID
				for i := rapid.IntRange(0, 3).Draw(rt, "nReqGroups"); i > 0; i-- {
					req = append(req, gidOrUnknown("reqGroup"))
				}
				peer := rapid.SampledFrom(ases).Draw(rt, "requester")
				dst := rapid.SampledFrom(isd1).Draw(rt, "dst")
				reason := ""
				if len(req) == 0 {
					reason = "no_groups"
				}
				for _, id := range req {
					g, ok := groups[id]
					if !ok {
						reason = "unknown_group"
						break
					}
					_, w1 := g.Writers[peer]
					_, r1 := g.Readers[peer]
					_, g1 := g.Registries[peer]
					if !(g.Owner == peer || w1 || r1 || g1) {
						reason = "not_member"
						break
					}
					if _, isR := g.Registries[local]; !isR {
						reason = "not_authoritative"
						break
					}
					if r1 && !w1 && !g1 && g.Owner != peer {
						labels["reader_served"] = true
					}
					if g.Owner == peer {
						labels["owner_served"] = true
					}
				}
				got, err := auth.Segments(ctx, hiddenpath.SegmentRequest{GroupIDs: req, DstIA: dst, Peer: peer})
				history = append(history, fmt.Sprintf("request %v dst %s by %s -> %d segments err=%v (reference: %q)", req, dst, peer, len(got), err != nil, reason))
				if (err != nil) != (reason != "") {
					rt.Fatalf("request returned %v, reference: %q\n%s", err, reason, joinLines(history))
				}
				if reason != "" {
					labels["request_"+reason] = true
					continue
				}
				want := map[string]bool{}
				for _, p := range pool {
					if p.dst != dst {
						continue
					}
					for _, id := range req {
						if st := model[p.id]; st != nil && st.groups[id] {
							want[p.id] = true
						}
					}
				}
				gotIDs := map[string]bool{}
				for _, m := range got {
					gotIDs[hex.EncodeToString(m.Segment.ID())] = true
					if m.Segment.ASEntries[len(m.Segment.ASEntries)-1].Local != dst {
						rt.Fatalf("segment ending at %s returned for destination %s\n%s", m.Segment.ASEntries[len(m.Segment.ASEntries)-1].Local, dst, joinLines(history))
					}
				}
				var missing, extra []string
				for k := range want {
					if !gotIDs[k] {
						missing = append(missing, k[:8])
					}
				}
				for k := range gotIDs {
					if !want[k] {
						extra = append(extra, k[:8])
					}
				}
				sort.Strings(missing)
				sort.Strings(extra)
				if len(extra) > 0 {
					rt.Fatalf("segments returned that are not registered under a requested group: %v\n%s", extra, joinLines(history))
				}
				if len(missing) > 0 {
					rt.Fatalf("segments registered under a requested group are not returned: %v\n%s", missing, joinLines(history))
				}
				if len(got) > 0 {
					labels["served"] = true
					if len(req) > 1 {
						labels["served_several_groups"] = true
					}
					nontrivial = nontrivial || nReg >= 2
				}
			}
		}
		rec.Case(nontrivial, fmt.Sprint(history), keys(labels)...)
		rec.Sample(func() any { return map[string]any{"history": history} })
	})
}
