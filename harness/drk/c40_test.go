package drk

import (
	"context"
	"crypto/x509"
	"crypto/x509/pkix"
	"fmt"
	"net"
	"net/netip"
	"testing"
	"time"

	"google.golang.org/grpc/credentials"
	"google.golang.org/grpc/peer"
	"google.golang.org/protobuf/types/known/timestamppb"
	"pgregory.net/rapid"

	"github.com/scionproto/scion/control/config"
	dkgrpc "github.com/scionproto/scion/control/drkey/grpc"
	"github.com/scionproto/scion/pkg/addr"
	"github.com/scionproto/scion/pkg/drkey"
	cppb "github.com/scionproto/scion/pkg/proto/control_plane"
	drkeypb "github.com/scionproto/scion/pkg/proto/drkey"

	"verif/internal/evid"
)

// ---------------------------------------------------------------------------------------------
// C40 — DRKey keys are only handed to the entities they are bound to.
// The real gRPC service object is called with drawn requests and drawn peers (TCP address, optional
// TLS client certificate chain) on top of a recording engine. Oracle: a transcription of the
// statement decides whether a key may be handed out; whenever the service answers with a key, the
// request must be admissible and the engine must have been asked for exactly the named entities.
// Admissible requests are expected to be answered (counted; a refusal is reported as vacuity).
// ---------------------------------------------------------------------------------------------

type c40Engine struct{ calls []string }

func (e *c40Engine) key(tag string) drkey.Key {
	var k drkey.Key
	copy(k[:], fmt.Sprintf("%-16s", tag))
	return k
}
func (e *c40Engine) GetSecretValue(_ context.Context, m drkey.SecretValueMeta) (drkey.SecretValue, error) {
	e.calls = append(e.calls, fmt.Sprintf("sv proto=%d", m.ProtoId))
	return drkey.SecretValue{ProtoId: m.ProtoId, Key: e.key("sv")}, nil
}
func (e *c40Engine) GetLevel1Key(_ context.Context, m drkey.Level1Meta) (drkey.Level1Key, error) {
	e.calls = append(e.calls, fmt.Sprintf("getl1 proto=%d %s->%s", m.ProtoId, m.SrcIA, m.DstIA))
	return drkey.Level1Key{ProtoId: m.ProtoId, SrcIA: m.SrcIA, DstIA: m.DstIA, Key: e.key("l1")}, nil
}
func (e *c40Engine) DeriveLevel1(_ context.Context, m drkey.Level1Meta) (drkey.Level1Key, error) {
	e.calls = append(e.calls, fmt.Sprintf("derivel1 proto=%d %s->%s", m.ProtoId, m.SrcIA, m.DstIA))
	return drkey.Level1Key{ProtoId: m.ProtoId, SrcIA: m.SrcIA, DstIA: m.DstIA, Key: e.key("l1")}, nil
}
func (e *c40Engine) DeriveASHost(_ context.Context, m drkey.ASHostMeta) (drkey.ASHostKey, error) {
	e.calls = append(e.calls, fmt.Sprintf("ashost proto=%d %s->%s host=%s", m.ProtoId, m.SrcIA, m.DstIA, m.DstHost))
	return drkey.ASHostKey{ProtoId: m.ProtoId, SrcIA: m.SrcIA, DstIA: m.DstIA, DstHost: m.DstHost, Key: e.key("ah")}, nil
}
func (e *c40Engine) DeriveHostAS(_ context.Context, m drkey.HostASMeta) (drkey.HostASKey, error) {
	e.calls = append(e.calls, fmt.Sprintf("hostas proto=%d %s->%s host=%s", m.ProtoId, m.SrcIA, m.DstIA, m.SrcHost))
	return drkey.HostASKey{ProtoId: m.ProtoId, SrcIA: m.SrcIA, DstIA: m.DstIA, SrcHost: m.SrcHost, Key: e.key("ha")}, nil
}
func (e *c40Engine) DeriveHostHost(_ context.Context, m drkey.HostHostMeta) (drkey.HostHostKey, error) {
	e.calls = append(e.calls, fmt.Sprintf("hosthost proto=%d %s->%s %s->%s", m.ProtoId, m.SrcIA, m.DstIA, m.SrcHost, m.DstHost))
	return drkey.HostHostKey{ProtoId: m.ProtoId, SrcIA: m.SrcIA, DstIA: m.DstIA, SrcHost: m.SrcHost, DstHost: m.DstHost, Key: e.key("hh")}, nil
}

// the certificate verifier stand-in: the chain verifies iff its first certificate is marked
// trusted (organisation "trusted"); the authenticated AS is the one in the common name.
type c40CertVerifier struct{}

func (c40CertVerifier) VerifyParsedClientCertificate(chain []*x509.Certificate) (addr.IA, error) {
	if len(chain[0].Subject.Organization) == 0 || chain[0].Subject.Organization[0] != "trusted" {
		return 0, fmt.Errorf("chain does not verify")
	}
	return addr.ParseIA(chain[0].Subject.CommonName)
}

func sameHost(peerIP net.IP, named string) bool {
	a, err := netip.ParseAddr(named)
	if err != nil || a.Zone() != "" {
		return false
	}
	p, ok := netip.AddrFromSlice(peerIP)
	return ok && p.Unmap() == a.Unmap()
}

func TestC40(t *testing.T) {
	rec := evid.New("C40", "rapid: request kind (AS-host, host-AS, host-host, level 1, intra-AS level 1, secret value) x protocol (0, 1, other) x source/destination ISD-AS in {local, A, B} x named hosts (IPv4, IPv6, IPv4-mapped, service name, empty) x peer address (4- and 16-byte forms) "+
		"x client certificate (none, untrusted, trusted for A or B) x allow-list of (host, protocol) pairs x valid/missing validity time. Oracle: statement transcription. Non-trivial: a request refused for exactly one reason, or answered.")
	defer rec.Flush(t)
	rec.Assume("certificate chain verification is represented by a stand-in that authenticates the AS named in the certificate (the TLS verifier is exercised by C34/C37 material)", "IPv4-mapped IPv6 notation and plain IPv4 notation name the same host")
	rec.Require("ashost_answered", "hostas_answered", "hosthost_answered_src_side", "hosthost_answered_dst_side", "level1_answered", "intra_answered", "sv_answered",
		"refused_generic_protocol", "refused_other_host", "refused_not_local_as", "refused_no_certificate", "refused_untrusted_certificate", "refused_not_allow_listed", "refused_allow_listed_other_protocol", "refused_local_not_endpoint", "refused_unknown_protocol_level1", "refused_bad_time")
	local := addr.MustParseIA("1-ff00:0:110")
	others := []addr.IA{addr.MustParseIA("1-ff00:0:111"), addr.MustParseIA("2-ff00:0:210")}
	hosts := []string{"10.0.0.1", "10.0.0.2", "fd00::1", "fd00::2", "::ffff:10.0.0.1", "CS", "", "10.0.0.1 "}
	peers := []net.IP{net.IPv4(10, 0, 0, 1).To4(), net.IPv4(10, 0, 0, 1).To16(), net.IPv4(10, 0, 0, 2).To4(), net.ParseIP("fd00::1"), net.ParseIP("fd00::2")}
	rapid.Check(t, func(rt *rapid.T) {
		eng := &c40Engine{}
		allowed := map[config.HostProto]struct{}{}
		for i := rapid.IntRange(0, 3).Draw(rt, "allowEntries"); i > 0; i-- {
			h := netip.MustParseAddr(rapid.SampledFrom([]string{"10.0.0.1", "10.0.0.2", "fd00::1"}).Draw(rt, "allowHost"))
			allowed[config.HostProto{Host: h, Proto: drkey.Protocol(rapid.SampledFrom([]int{0, 1, 7}).Draw(rt, "allowProto"))}] = struct{}{}
		}
		srv := &dkgrpc.Server{LocalIA: local, ClientCertificateVerifier: c40CertVerifier{}, Engine: eng, AllowedSVHostProto: allowed}
		ia := func(name string) addr.IA {
			return rapid.SampledFrom([]addr.IA{local, local, others[0], others[1]}).Draw(rt, name)
		}
		proto := drkey.Protocol(rapid.SampledFrom([]int{0, 1, 1, 1, 7}).Draw(rt, "protocol"))
		srcIA, dstIA := ia("srcIA"), ia("dstIA")
		srcHost, dstHost := rapid.SampledFrom(hosts).Draw(rt, "srcHost"), rapid.SampledFrom(hosts).Draw(rt, "dstHost")
		peerIP := rapid.SampledFrom(peers).Draw(rt, "peer")
		// steer half of the cases towards requests that name the peer
		if rapid.Bool().Draw(rt, "nameThePeer") {
			p, _ := netip.AddrFromSlice(peerIP)
			if rapid.Bool().Draw(rt, "asSource") {
				srcHost, srcIA = p.Unmap().String(), local
			} else {
				dstHost, dstIA = p.Unmap().String(), local
			}
		}
		ts := timestamppb.New(time.Now())
		badTime := rapid.IntRange(0, 14).Draw(rt, "missingTime") == 0
		if badTime {
			ts = nil
		}
		pr := &peer.Peer{Addr: &net.TCPAddr{IP: peerIP, Port: 40000}}
		cert := rapid.SampledFrom([]string{"none", "untrusted", "trusted_A", "trusted_B", "trusted_A"}).Draw(rt, "certificate")
		var certIA addr.IA
		if cert != "none" {
			c := &x509.Certificate{Subject: pkix.Name{CommonName: others[0].String(), Organization: []string{"trusted"}}}
			certIA = others[0]
			if cert == "trusted_B" {
				c.Subject.CommonName, certIA = others[1].String(), others[1]
			}
			if cert == "untrusted" {
				c.Subject.Organization = []string{"self-made"}
			}
			pr.AuthInfo = credentials.TLSInfo{State: tlsState(c)}
		}
		ctx := peer.NewContext(context.Background(), pr)
		pip, _ := netip.AddrFromSlice(peerIP)
		_, allowListed := allowed[config.HostProto{Host: pip.Unmap(), Proto: proto}]
		listedOtherProto := false
		for hp := range allowed {
			if hp.Host == pip.Unmap() && hp.Proto != proto {
				listedOtherProto = true
			}
		}
		kind := rapid.SampledFrom([]string{"ashost", "hostas", "hosthost", "level1", "intra", "sv"}).Draw(rt, "kind")
		var reasons []string
		var err error
		var answered bool
		var wantCall string
		pid := drkeypb.Protocol(proto)
		switch kind {
		case "ashost":
			if proto == 0 {
				reasons = append(reasons, "generic_protocol")
			}
			if dstIA != local {
				reasons = append(reasons, "not_local_as")
			}
			if !sameHost(peerIP, dstHost) {
				reasons = append(reasons, "other_host")
			}
			var r *cppb.DRKeyASHostResponse
			r, err = srv.DRKeyASHost(ctx, &cppb.DRKeyASHostRequest{ProtocolId: pid, ValTime: ts, SrcIa: uint64(srcIA), DstIa: uint64(dstIA), DstHost: dstHost})
			answered = err == nil && r != nil
			wantCall = fmt.Sprintf("ashost proto=%d %s->%s host=%s", proto, srcIA, dstIA, dstHost)
		case "hostas":
			if proto == 0 {
				reasons = append(reasons, "generic_protocol")
			}
			if srcIA != local {
				reasons = append(reasons, "not_local_as")
			}
			if !sameHost(peerIP, srcHost) {
				reasons = append(reasons, "other_host")
			}
			var r *cppb.DRKeyHostASResponse
			r, err = srv.DRKeyHostAS(ctx, &cppb.DRKeyHostASRequest{ProtocolId: pid, ValTime: ts, SrcIa: uint64(srcIA), DstIa: uint64(dstIA), SrcHost: srcHost})
			answered = err == nil && r != nil
			wantCall = fmt.Sprintf("hostas proto=%d %s->%s host=%s", proto, srcIA, dstIA, srcHost)
		case "hosthost":
			if proto == 0 {
				reasons = append(reasons, "generic_protocol")
			}
			srcSide := srcIA == local && sameHost(peerIP, srcHost)
			dstSide := dstIA == local && sameHost(peerIP, dstHost)
			if !srcSide && !dstSide {
				if srcIA != local && dstIA != local {
					reasons = append(reasons, "not_local_as")
				} else {
					reasons = append(reasons, "other_host")
				}
			}
			var r *cppb.DRKeyHostHostResponse
			r, err = srv.DRKeyHostHost(ctx, &cppb.DRKeyHostHostRequest{ProtocolId: pid, ValTime: ts, SrcIa: uint64(srcIA), DstIa: uint64(dstIA), SrcHost: srcHost, DstHost: dstHost})
			answered = err == nil && r != nil
			wantCall = fmt.Sprintf("hosthost proto=%d %s->%s %s->%s", proto, srcIA, dstIA, srcHost, dstHost)
			if answered && len(reasons) == 0 {
				if srcSide {
					rec.Label("hosthost_answered_src_side")
				} else {
					rec.Label("hosthost_answered_dst_side")
				}
			}
		case "level1":
			switch cert {
			case "none":
				reasons = append(reasons, "no_certificate")
			case "untrusted":
				reasons = append(reasons, "untrusted_certificate")
			}
			if proto != 0 && proto != 1 {
				reasons = append(reasons, "unknown_protocol_level1")
			}
			var r *cppb.DRKeyLevel1Response
			r, err = srv.DRKeyLevel1(ctx, &cppb.DRKeyLevel1Request{ProtocolId: pid, ValTime: ts})
			answered = err == nil && r != nil
			wantCall = fmt.Sprintf("derivel1 proto=%d %s->%s", proto, local, certIA)
		case "intra":
			if srcIA != local && dstIA != local {
				reasons = append(reasons, "local_not_endpoint")
			}
			if !allowListed {
				if listedOtherProto {
					reasons = append(reasons, "allow_listed_other_protocol")
				} else {
					reasons = append(reasons, "not_allow_listed")
				}
			}
			var r *cppb.DRKeyIntraLevel1Response
			r, err = srv.DRKeyIntraLevel1(ctx, &cppb.DRKeyIntraLevel1Request{ProtocolId: pid, ValTime: ts, SrcIa: uint64(srcIA), DstIa: uint64(dstIA)})
			answered = err == nil && r != nil
			wantCall = fmt.Sprintf("getl1 proto=%d %s->%s", proto, srcIA, dstIA)
		case "sv":
			if !allowListed {
				if listedOtherProto {
					reasons = append(reasons, "allow_listed_other_protocol")
				} else {
					reasons = append(reasons, "not_allow_listed")
				}
			}
			var r *cppb.DRKeySecretValueResponse
			r, err = srv.DRKeySecretValue(ctx, &cppb.DRKeySecretValueRequest{ProtocolId: pid, ValTime: ts})
			answered = err == nil && r != nil
			wantCall = fmt.Sprintf("sv proto=%d", proto)
		}
		if badTime {
			reasons = append(reasons, "bad_time")
		}
		desc := fmt.Sprintf("%s proto=%d %s(%q)->%s(%q) peer=%v(%d bytes) cert=%s allow-listed=%v", kind, proto, srcIA, srcHost, dstIA, dstHost, peerIP, len(peerIP), cert, allowListed)
		if answered && len(reasons) > 0 {
			rt.Fatalf("key handed out although: %v (%s; engine calls %v)", reasons, desc, eng.calls)
		}
		if len(eng.calls) > 0 && len(reasons) > 0 && !badTime {
			rt.Fatalf("engine asked for a key although the request is inadmissible: %v (%s; calls %v)", reasons, desc, eng.calls)
		}
		if answered {
			if len(eng.calls) != 1 || eng.calls[0] != wantCall {
				rt.Fatalf("answered from engine calls %v, expected exactly %q (%s)", eng.calls, wantCall, desc)
			}
			if kind != "hosthost" {
				rec.Label(map[string]string{"ashost": "ashost_answered", "hostas": "hostas_answered", "level1": "level1_answered", "intra": "intra_answered", "sv": "sv_answered"}[kind])
			}
		} else if len(reasons) == 0 {
			rt.Fatalf("harness/vacuity: admissible request refused: %v (%s)", err, desc)
		}
		var labels []string
		if len(reasons) == 1 {
			labels = append(labels, "refused_"+reasons[0])
		}
		rec.Case(answered || len(reasons) == 1, desc, labels...)
		rec.Sample(func() any { return map[string]any{"case": desc, "answered": answered, "reasons": reasons} })
	})
}
