package drk

import (
	"crypto/tls"
	"crypto/x509"
)

func tlsState(c *x509.Certificate) tls.ConnectionState {
	return tls.ConnectionState{PeerCertificates: []*x509.Certificate{c}}
}
