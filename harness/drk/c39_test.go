package drk

import (
	"context"
	"crypto/aes"
	"crypto/sha256"
	"encoding/binary"
	"fmt"
	"net/netip"
	"sync/atomic"
	"testing"
	"time"

	"golang.org/x/crypto/pbkdf2"
	"pgregory.net/rapid"

	cdrkey "github.com/scionproto/scion/control/drkey"
	"github.com/scionproto/scion/pkg/addr"
	"github.com/scionproto/scion/pkg/drkey"
	"github.com/scionproto/scion/pkg/drkey/generic"
	"github.com/scionproto/scion/pkg/drkey/specific"
	"github.com/scionproto/scion/pkg/spao"
	"github.com/scionproto/scion/private/drkey/drkeyutil"
	sdb "github.com/scionproto/scion/private/storage/db"
	level1sql "github.com/scionproto/scion/private/storage/drkey/level1/sqlite"
	secretsql "github.com/scionproto/scion/private/storage/drkey/secret/sqlite"

	"verif/internal/evid"
)

// ---------------------------------------------------------------------------------------------
// C39 — DRKey keys are derived consistently and with domain separation.
// Reference derivation written from doc/cryptography/drkey.rst: secret value = PBKDF2-SHA256 over
// (len, AS secret, protocol, epoch begin, epoch end); level 1 / AS-host / host-AS / host-host =
// AES-CBC-MAC (here: chained single-block AES) over the documented inputs, protocol-specific or
// generic. The real control-service engine (SQLite secret-value and level-1 stores, remote level-1
// keys through a fetcher that stands for the other AS) must serve exactly the reference keys, and so
// must the host-side derivers from the served secret value / level-1 key. Distinct (key type,
// protocol, host) tuples under one upper key must give distinct keys. FakeProvider's
// acceptance-window selection must return an epoch whose validity plus grace contains the
// timestamp's absolute time, which itself lies in the window.
// ---------------------------------------------------------------------------------------------

func refMAC(key [16]byte, input []byte) (out [16]byte) {
	b, err := aes.NewCipher(key[:])
	if err != nil {
		panic(err)
	}
	for i := 0; i < len(input); i += 16 {
		var blk [16]byte
		copy(blk[:], input[i:])
		for j := range blk {
			blk[j] ^= out[j]
		}
		b.Encrypt(out[:], blk[:])
	}
	return out
}

func refSV(secret []byte, proto uint16, begin, end uint32) (k [16]byte) {
	buf := binary.BigEndian.AppendUint64(nil, uint64(len(secret)))
	buf = append(buf, secret...)
	buf = binary.BigEndian.AppendUint16(buf, proto)
	buf = binary.BigEndian.AppendUint32(buf, begin)
	buf = binary.BigEndian.AppendUint32(buf, end)
	copy(k[:], pbkdf2.Key(buf, []byte("Derive DRKey Key"), 1000, 16, sha256.New))
	return k
}

func pad16(b []byte) []byte {
	for len(b)%16 != 0 {
		b = append(b, 0)
	}
	return b
}

func refLevel1(sv [16]byte, dst addr.IA) [16]byte {
	in := append([]byte{0}, binary.BigEndian.AppendUint64(nil, uint64(dst))...)
	return refMAC(sv, pad16(in))
}

// host address bytes and the 4-bit address type/length code of the SCION header
func hostCode(h addr.Host) (byte, []byte) {
	switch h.Type() {
	case addr.HostTypeSVC:
		return 0x4, []byte{byte(h.SVC() >> 8), byte(h.SVC()), 0, 0}
	default:
		if h.IP().Is4() {
			return 0x0, h.IP().AsSlice()
		}
		return 0x3, h.IP().AsSlice()
	}
}

func refLevel2(upper [16]byte, typ byte, proto uint16, predefined bool, h addr.Host) [16]byte {
	code, raw := hostCode(h)
	in := []byte{typ}
	if !predefined {
		in = binary.BigEndian.AppendUint16(in, proto)
	}
	in = append(append(in, code), raw...)
	return refMAC(upper, pad16(in))
}

func refHostHost(hostAS [16]byte, dst addr.Host) [16]byte {
	code, raw := hostCode(dst)
	return refMAC(hostAS, pad16(append([]byte{3, code}, raw...)))
}

type c39Remote struct {
	secrets map[addr.IA][]byte
	dur     int64
	calls   int
}

func (r *c39Remote) Level1(_ context.Context, m drkey.Level1Meta) (drkey.Level1Key, error) {
	r.calls++
	idx := m.Validity.Unix() / r.dur
	b, e := uint32(idx*r.dur), uint32(idx*r.dur+r.dur)
	sv := refSV(r.secrets[m.SrcIA], uint16(m.ProtoId), b, e)
	return drkey.Level1Key{Epoch: drkey.NewEpoch(b, e), ProtoId: m.ProtoId, SrcIA: m.SrcIA, DstIA: m.DstIA, Key: drkey.Key(refLevel1(sv, m.DstIA))}, nil
}

type c39Keeper struct{}

func (c39Keeper) Update(cdrkey.Level1PrefetchInfo)  {}
func (c39Keeper) Info() []cdrkey.Level1PrefetchInfo { return nil }

var c39Seq atomic.Int64

func genHost(rt *rapid.T, name string) addr.Host {
	switch rapid.IntRange(0, 3).Draw(rt, name+"Kind") {
	case 0:
		return addr.HostSVC(rapid.SampledFrom([]addr.SVC{addr.SvcDS, addr.SvcCS, addr.SvcDS.Multicast(), addr.SvcCS.Multicast(), addr.SvcWildcard}).Draw(rt, name+"Svc"))
	case 1:
		var b [16]byte
		copy(b[:], rapid.SliceOfN(rapid.Byte(), 16, 16).Draw(rt, name+"V6"))
		if rapid.IntRange(0, 3).Draw(rt, name+"SparseV6") == 0 {
			for i := 4; i < 16; i++ {
				b[i] = 0 // an IPv6 address that is an IPv4 address followed by zeros
			}
		}
		a := netip.AddrFrom16(b)
		return addr.HostIP(a)
	default:
		var b [4]byte
		copy(b[:], rapid.SliceOfN(rapid.Byte(), 4, 4).Draw(rt, name+"V4"))
		return addr.HostIP(netip.AddrFrom4(b))
	}
}

func TestC39(t *testing.T) {
	rec := evid.New("C39", "rapid: AS secrets (1-40 B), protocol (generic 0, SCMP 1, and other numbers incl. 0x00xx / 0xxx00 patterns), validity instants over several epochs (epoch 60 s - 1 day), local/remote ISD-ASes, IPv4 / IPv6 (also IPv4-prefix-zero-padded) / service hosts; "+
		"keys served by the real control-service engine vs host-side derivation vs reference; pairs of distinct derivation tuples; FakeProvider acceptance-window selection for timestamps around epoch boundaries. Non-trivial: remote level-1 key involved, non-predefined protocol, or a timestamp within 10 s of an epoch boundary.")
	defer rec.Flush(t)
	rec.Assume("AES, SHA-256 and PBKDF2 of the standard/x libraries are trusted", "the remote AS is stood in for by a fetcher that computes its level-1 keys with the reference derivation")
	rec.Require("sv_served", "level1_local", "level1_remote", "as_host", "host_as", "host_host", "proto_generic_number", "proto_scmp", "host_ipv6", "host_svc", "separation_pair", "window_current", "window_previous", "window_next", "window_rejected", "level1_from_store")
	rapid.Check(t, func(rt *rapid.T) {
		ctx := context.Background()
		labels := map[string]bool{}
		local := addr.MustParseIA("1-ff00:0:110")
		remote := addr.MustIAFrom(addr.ISD(rapid.IntRange(1, 3).Draw(rt, "remoteISD")), addr.AS(rapid.Uint64Range(1, 0xffffffffffff).Draw(rt, "remoteAS")))
		if remote == local {
			rt.Skip()
		}
		dur := int64(rapid.SampledFrom([]int{60, 3600, 86400}).Draw(rt, "epochSeconds"))
		secrets := map[addr.IA][]byte{local: rapid.SliceOfN(rapid.Byte(), 1, 40).Draw(rt, "localSecret"), remote: rapid.SliceOfN(rapid.Byte(), 1, 40).Draw(rt, "remoteSecret")}
		n := c39Seq.Add(1)
		sdbb, err := secretsql.NewBackend(fmt.Sprintf("c39s_%d", n), &sdb.SqliteConfig{InMemory: true})
		if err != nil {
			rt.Fatalf("harness: %v", err)
		}
		defer sdbb.Close()
		l1, err := level1sql.NewBackend(fmt.Sprintf("c39l_%d", n), &sdb.SqliteConfig{InMemory: true})
		if err != nil {
			rt.Fatalf("harness: %v", err)
		}
		defer l1.Close()
		rem := &c39Remote{secrets: secrets, dur: dur}
		eng := &cdrkey.ServiceEngine{SecretBackend: cdrkey.NewSecretValueBackend(sdbb, secrets[local], time.Duration(dur)*time.Second), LocalIA: local, DB: l1, Fetcher: rem, PrefetchKeeper: c39Keeper{}}
		base := time.Now().Unix()
		for q := rapid.IntRange(1, 5).Draw(rt, "queries"); q > 0; q-- {
			proto := drkey.Protocol(rapid.SampledFrom([]int{0, 1, 1, 2, 7, 0x00aa, 0x0100, 0xaa00, 0x0301, 0xffff}).Draw(rt, "protocol"))
			at := time.Unix(base+int64(rapid.IntRange(-3, 3).Draw(rt, "epochOff"))*dur+int64(rapid.IntRange(0, int(dur)-1).Draw(rt, "inEpoch")), 0)
			idx := at.Unix() / dur
			eb, ee := uint32(idx*dur), uint32(idx*dur+dur)
			predefined := proto == 0 || proto == 1
			svProto := uint16(proto)
			if !predefined {
				svProto = 0
				labels["proto_generic_number"] = true
			} else if proto == 1 {
				labels["proto_scmp"] = true
			}
			srcLocal := rapid.Bool().Draw(rt, "srcIsLocal")
			srcIA, dstIA := local, remote
			if !srcLocal {
				srcIA, dstIA = remote, local
			}
			srcHost, dstHost := genHost(rt, "src"), genHost(rt, "dst")
			for _, h := range []addr.Host{srcHost, dstHost} {
				if h.Type() == addr.HostTypeSVC {
					labels["host_svc"] = true
				} else if h.IP().Is6() {
					labels["host_ipv6"] = true
				}
			}
			desc := fmt.Sprintf("proto=%#x epoch=%ds at=+%ds %s->%s %s->%s", uint16(proto), dur, at.Unix()-int64(eb), srcIA, dstIA, srcHost, dstHost)
			wantSV := refSV(secrets[srcIA], svProto, eb, ee)
			wantL1 := refLevel1(wantSV, dstIA)
			inEpoch := func(e drkey.Epoch) {
				if e.NotBefore.Unix() != int64(eb) || e.NotAfter.Unix() != int64(ee) || !e.Contains(at) {
					rt.Fatalf("key epoch [%v, %v] does not contain the requested validity %v (%s)", e.NotBefore, e.NotAfter, at, desc)
				}
			}
			if srcLocal {
				sv, err := eng.GetSecretValue(ctx, drkey.SecretValueMeta{ProtoId: drkey.Protocol(svProto), Validity: at})
				if err != nil {
					rt.Fatalf("GetSecretValue: %v (%s)", err, desc)
				}
				if [16]byte(sv.Key) != wantSV {
					rt.Fatalf("secret value served by the control service %x, reference %x (%s)", sv.Key, wantSV, desc)
				}
				inEpoch(sv.Epoch)
				labels["sv_served"] = true
				// a host with the secret value derives the same level-1 key itself
				hk, err := specific.Deriver{}.DeriveLevel1(dstIA, sv.Key)
				if err != nil || [16]byte(hk) != wantL1 {
					rt.Fatalf("level-1 key derived from the secret value %x (err %v), reference %x (%s)", hk, err, wantL1, desc)
				}
			}
			before := rem.calls
			k1, err := eng.GetLevel1Key(ctx, drkey.Level1Meta{Validity: at, ProtoId: drkey.Protocol(svProto), SrcIA: srcIA, DstIA: dstIA})
			if err != nil {
				rt.Fatalf("GetLevel1Key: %v (%s)", err, desc)
			}
			if [16]byte(k1.Key) != wantL1 || k1.SrcIA != srcIA || k1.DstIA != dstIA {
				rt.Fatalf("level-1 key served %x for %s->%s, reference %x (%s)", k1.Key, k1.SrcIA, k1.DstIA, wantL1, desc)
			}
			inEpoch(k1.Epoch)
			switch {
			case srcLocal:
				labels["level1_local"] = true
			case rem.calls > before:
				labels["level1_remote"] = true
			default:
				labels["level1_from_store"] = true
			}
			// level 2 and 3: served == host-side deriver from the level-1 key == reference
			type l2d interface {
				DeriveASHost(string, drkey.Key) (drkey.Key, error)
				DeriveHostAS(string, drkey.Key) (drkey.Key, error)
				DeriveHostHost(string, drkey.Key) (drkey.Key, error)
			}
			var der l2d = generic.Deriver{Proto: proto}
			if predefined {
				der = specific.Deriver{}
			}
			wantAH := refLevel2(wantL1, 1, uint16(proto), predefined, dstHost)
			wantHA := refLevel2(wantL1, 2, uint16(proto), predefined, srcHost)
			wantHH := refHostHost(wantHA, dstHost)
			ah, err := eng.DeriveASHost(ctx, drkey.ASHostMeta{ProtoId: proto, Validity: at, SrcIA: srcIA, DstIA: dstIA, DstHost: dstHost.String()})
			if err != nil {
				rt.Fatalf("DeriveASHost: %v (%s)", err, desc)
			}
			hah, _ := der.DeriveASHost(dstHost.String(), k1.Key)
			if [16]byte(ah.Key) != wantAH || [16]byte(hah) != wantAH {
				rt.Fatalf("AS-host key: served %x, host-side %x, reference %x (%s)", ah.Key, hah, wantAH, desc)
			}
			inEpoch(ah.Epoch)
			labels["as_host"] = true
			ha, err := eng.DeriveHostAS(ctx, drkey.HostASMeta{ProtoId: proto, Validity: at, SrcIA: srcIA, DstIA: dstIA, SrcHost: srcHost.String()})
			if err != nil {
				rt.Fatalf("DeriveHostAS: %v (%s)", err, desc)
			}
			hha, _ := der.DeriveHostAS(srcHost.String(), k1.Key)
			if [16]byte(ha.Key) != wantHA || [16]byte(hha) != wantHA {
				rt.Fatalf("host-AS key: served %x, host-side %x, reference %x (%s)", ha.Key, hha, wantHA, desc)
			}
			labels["host_as"] = true
			hh, err := eng.DeriveHostHost(ctx, drkey.HostHostMeta{ProtoId: proto, Validity: at, SrcIA: srcIA, DstIA: dstIA, SrcHost: srcHost.String(), DstHost: dstHost.String()})
			if err != nil {
				rt.Fatalf("DeriveHostHost: %v (%s)", err, desc)
			}
			hhh, _ := der.DeriveHostHost(dstHost.String(), ha.Key)
			if [16]byte(hh.Key) != wantHH || [16]byte(hhh) != wantHH {
				rt.Fatalf("host-host key: served %x, host-side %x, reference %x (%s)", hh.Key, hhh, wantHH, desc)
			}
			inEpoch(hh.Epoch)
			labels["host_host"] = true
			// ---- domain separation: a second, different tuple under the same level-1 key
			type tuple struct {
				typ  int
				host addr.Host
			}
			derive := func(x tuple) [16]byte {
				var k drkey.Key
				switch x.typ {
				case 1:
					k, _ = der.DeriveASHost(x.host.String(), k1.Key)
				case 2:
					k, _ = der.DeriveHostAS(x.host.String(), k1.Key)
				default:
					k, _ = der.DeriveHostHost(x.host.String(), k1.Key)
				}
				return [16]byte(k)
			}
			a := tuple{rapid.IntRange(1, 3).Draw(rt, "typA"), dstHost}
			b := tuple{rapid.IntRange(1, 3).Draw(rt, "typB"), dstHost}
			if rapid.Bool().Draw(rt, "otherHost") {
				b.host = genHost(rt, "sep")
				// related addresses: same leading bytes in another address family
				if rapid.Bool().Draw(rt, "relatedHost") && dstHost.Type() == addr.HostTypeIP && dstHost.IP().Is4() {
					var v6 [16]byte
					copy(v6[:], dstHost.IP().AsSlice())
					b.host = addr.HostIP(netip.AddrFrom16(v6))
				}
			}
			if a.typ != b.typ || a.host != b.host {
				if derive(a) == derive(b) {
					rt.Fatalf("derivations for different inputs coincide: type %d host %s and type %d host %s give the same key (%s)", a.typ, a.host, b.typ, b.host, desc)
				}
				labels["separation_pair"] = true
			}
			if !predefined {
				// same host, another protocol number under the same (generic) level-1 key
				other := generic.Deriver{Proto: proto ^ drkey.Protocol(rapid.SampledFrom([]int{1, 0x100, 0x8000, 0x00ff}).Draw(rt, "protoDelta"))}
				if other.Proto != 0 && other.Proto != 1 {
					x, _ := other.DeriveASHost(dstHost.String(), k1.Key)
					if [16]byte(x) == wantAH {
						rt.Fatalf("AS-host keys of protocols %#x and %#x coincide (%s)", uint16(proto), uint16(other.Proto), desc)
					}
				}
			}
			rec.Case(!srcLocal || !predefined, desc, keysOf(labels)...)
			rec.Sample(func() any {
				return map[string]any{"case": desc, "level1": fmt.Sprintf("%x", wantL1), "as_host": fmt.Sprintf("%x", wantAH), "host_host": fmt.Sprintf("%x", wantHH)}
			})
		}
		// ---- acceptance window
		fp := &drkeyutil.FakeProvider{EpochDuration: time.Duration(dur) * time.Second, AcceptanceWindow: time.Duration(rapid.SampledFrom([]int{2, 10, 30}).Draw(rt, "windowSeconds")) * time.Second}
		now := time.Unix(base-base%dur+int64(rapid.SampledFrom([]int{0, 1, 2, 4, 6, 30, int(dur) - 7, int(dur) - 2, int(dur) - 1}).Draw(rt, "nowInEpoch")), int64(rapid.IntRange(0, 999).Draw(rt, "ms"))*1e6)
		sent := now.Add(time.Duration(rapid.IntRange(-40000, 40000).Draw(rt, "skewMs")) * time.Millisecond)
		// the sender stamps relative to the epoch it considers current (or the previous one within grace)
		sIdx := sent.Unix() / dur
		if rapid.IntRange(0, 3).Draw(rt, "senderUsesPreviousEpoch") == 0 {
			sIdx--
		}
		if rapid.IntRange(0, 3).Draw(rt, "boundaryScenario") == 0 {
			// receiver shortly before the end of its epoch, sender (clock ahead) already past that end
			// but still stamping relative to the same epoch: the absolute time may lie beyond the
			// grace period although it is inside the acceptance window
			fp.AcceptanceWindow = 30 * time.Second
			now = time.Unix(base-base%dur+dur-int64(rapid.IntRange(1, 10).Draw(rt, "beforeEnd")), 0)
			sent = now.Add(time.Duration(rapid.IntRange(0, 20000).Draw(rt, "aheadMs")) * time.Millisecond)
			sIdx = now.Unix() / dur
		}
		sEpoch := drkey.NewEpoch(uint32(sIdx*dur), uint32(sIdx*dur+dur))
		ts, err := spao.RelativeTimestamp(sEpoch, sent)
		if err != nil || sent.Before(sEpoch.NotBefore) {
			return
		}
		k, err := fp.GetKeyWithinAcceptanceWindow(now, ts, addr.MustParseIA("1-ff00:0:111"), addr.MustParseHost("10.0.0.1"))
		wdesc := fmt.Sprintf("now=+%v in epoch, sent %v earlier, sender epoch index %+d, window %v, epoch %ds", now.Sub(time.Unix(base-base%dur, 0)), now.Sub(sent), sIdx-now.Unix()/dur, fp.AcceptanceWindow, dur)
		if err != nil {
			// admissible only if no candidate epoch satisfies the rule
			for d := int64(-1); d <= 1; d++ {
				i := now.Unix()/dur + d
				e := drkey.NewEpoch(uint32(i*dur), uint32(i*dur+dur))
				abs := e.NotBefore.Add(time.Duration(ts))
				if !abs.Before(now.Add(-fp.AcceptanceWindow/2)) && !abs.After(now.Add(fp.AcceptanceWindow/2)) && !abs.Before(e.NotBefore) && !abs.After(e.NotAfter.Add(drkey.GRACE_PERIOD)) {
					rt.Fatalf("no key selected although epoch %+d satisfies window and grace period (%s)", d, wdesc)
				}
			}
			labels["window_rejected"] = true
			rec.Case(true, wdesc, "window_rejected")
			return
		}
		abs := k.Epoch.NotBefore.Add(time.Duration(ts))
		if abs.Before(now.Add(-fp.AcceptanceWindow/2)) || abs.After(now.Add(fp.AcceptanceWindow/2)) {
			rt.Fatalf("selected epoch [%v,%v] puts the timestamp at %v, outside the acceptance window around %v (%s)", k.Epoch.NotBefore, k.Epoch.NotAfter, abs, now, wdesc)
		}
		if abs.Before(k.Epoch.NotBefore) || abs.After(k.Epoch.NotAfter.Add(drkey.GRACE_PERIOD)) {
			rt.Fatalf("selected epoch [%v,%v] (+grace) does not contain the timestamp's absolute time %v (%s)", k.Epoch.NotBefore, k.Epoch.NotAfter, abs, wdesc)
		}
		l := "window_current"
		switch d := k.Epoch.NotBefore.Unix()/dur - now.Unix()/dur; {
		case d < 0:
			l = "window_previous"
		case d > 0:
			l = "window_next"
		}
		rec.Case(true, wdesc, l)
	})
}

func keysOf(m map[string]bool) []string {
	var out []string
	for k := range m {
		out = append(out, k)
	}
	return out
}
