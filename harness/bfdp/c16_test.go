package bfdp

import (
	"context"
	"fmt"
	"sort"
	"strings"
	"sync"
	"testing"
	"testing/synctest"
	"time"

	"github.com/gopacket/gopacket/layers"
	"pgregory.net/rapid"

	"github.com/scionproto/scion/pkg/private/ptr"
	"github.com/scionproto/scion/router/bfd"
	"github.com/scionproto/scion/router/control"

	"verif/internal/evid"
	"verif/internal/findings"
)

// ---------------------------------------------------------------------------------------------
// C16 — BFD sessions follow RFC 5880 and always recover.
// (a) transition table, exhaustive, against section 6.8.6 transcribed below;
// (b) one real Session under a virtual clock fed with generated packet/time histories, compared
//     after every step with an RFC model (state + detection time);
// (c) two real sessions over a lossy link: up after a loss-free tail, down after silence;
// (d) after any history a well-behaved peer brings the session up again (bounded liveness).
//
// Known finding C16/received-admindown-sticky: a received AdminDown moves the local session into
// the AdminDown state, which only an administrative "up" event leaves and nothing emits; RFC 5880
// says: Down. fsm_test.go pins the table and TestDataPlaneRun/bfd_bootstrap_* depend on the
// behaviour, so it is recorded, not repaired.
// ---------------------------------------------------------------------------------------------

const sigAdminDown = "C16/received-admindown-sticky"

type st = layers.BFDState

// rfcNext is RFC 5880 section 6.8.6 for a received control packet with state recv.
func rfcNext(local, recv st) st {
	if recv == layers.BFDStateAdminDown {
		return layers.BFDStateDown // "If received state is AdminDown: if SessionState is not Down: ... set SessionState to Down"
	}
	switch local {
	case layers.BFDStateDown:
		if recv == layers.BFDStateDown {
			return layers.BFDStateInit
		}
		if recv == layers.BFDStateInit {
			return layers.BFDStateUp
		}
	case layers.BFDStateInit:
		if recv == layers.BFDStateInit || recv == layers.BFDStateUp {
			return layers.BFDStateUp
		}
	case layers.BFDStateUp:
		if recv == layers.BFDStateDown {
			return layers.BFDStateDown
		}
	}
	return local
}

// rfcTimer is the detection-time expiry: Init and Up fall back to Down.
func rfcTimer(local st) st {
	if local == layers.BFDStateInit || local == layers.BFDStateUp {
		return layers.BFDStateDown
	}
	return local
}

// tableMismatches compares the implementation's table with the RFC for the three states a session
// can be in through protocol events and returns the mismatching entries.
func tableMismatches() []string {
	var out []string
	states := []st{layers.BFDStateDown, layers.BFDStateInit, layers.BFDStateUp}
	events := []struct {
		e    bfd.VerifEvent
		recv st
		name string
	}{{bfd.VerifEventAdminDown, layers.BFDStateAdminDown, "AdminDown"}, {bfd.VerifEventDown, layers.BFDStateDown, "Down"},
		{bfd.VerifEventInit, layers.BFDStateInit, "Init"}, {bfd.VerifEventUp, layers.BFDStateUp, "Up"}}
	for _, s := range states {
		for _, ev := range events {
			got := st(bfd.VerifTransition(bfd.VerifState(s), ev.e))
			if want := rfcNext(s, ev.recv); got != want {
				out = append(out, fmt.Sprintf("%v x %s -> %v (RFC: %v)", s, ev.name, got, want))
			}
		}
		got := st(bfd.VerifTransition(bfd.VerifState(s), bfd.VerifEventTimer))
		if want := rfcTimer(s); got != want {
			out = append(out, fmt.Sprintf("%v x Timer -> %v (RFC: %v)", s, got, want))
		}
	}
	sort.Strings(out)
	return out
}

var adminDownEntries = func() []string {
	var out []string
	for _, s := range []st{layers.BFDStateDown, layers.BFDStateInit, layers.BFDStateUp} {
		out = append(out, fmt.Sprintf("%v x AdminDown -> %v (RFC: %v)", s, layers.BFDStateAdminDown, layers.BFDStateDown))
	}
	return out
}()

var (
	admOnce   sync.Once
	admSticky bool
	admOther  []string
)

// adminDownSticky evaluates the table once: it reports whether exactly the listed defect is
// present, fails on any other table mismatch, and prints the KNOWN-FINDING line.
func adminDownSticky(t interface{ Fatalf(string, ...any) }) bool {
	admOnce.Do(func() {
		mm := tableMismatches()
		want := append([]string{}, adminDownEntries...)
		sort.Strings(want)
		if fmt.Sprint(mm) == fmt.Sprint(want) {
			admSticky = true
			return
		}
		admOther = mm
	})
	if len(admOther) > 0 {
		t.Fatalf("BFD transition table deviates from RFC 5880 section 6.8.6: %v", admOther)
	}
	if !admSticky {
		return false
	}
	if findings.Listed(sigAdminDown) {
		findings.Report(sigAdminDown)
		return true
	}
	t.Fatalf("a received AdminDown moves the session into AdminDown (never left) instead of Down: %v", adminDownEntries)
	return false
}

func TestC16Probe(t *testing.T) { _ = adminDownSticky(t) }

// ---- (b) histories

type recSender struct {
	mu   sync.Mutex
	sent []sentPkt
	fwd  func(*layers.BFD)
	// failSend, if set, is asked before every transmission whether the underlay write fails (the
	// packet is then lost and Send returns an error, as a failing socket write would).
	failSend func() bool
}

type sentPkt struct {
	at    time.Time
	state st
}

func (r *recSender) Send(b *layers.BFD) error {
	r.mu.Lock()
	if r.failSend != nil && r.failSend() {
		r.mu.Unlock()
		return fmt.Errorf("injected send failure")
	}
	r.sent = append(r.sent, sentPkt{time.Now(), b.State})
	f := r.fwd
	r.mu.Unlock()
	if f != nil {
		c := *b
		f(&c)
	}
	return nil
}

type bfdEv struct {
	Kind    string // recv, sleep
	State   st
	Dt      time.Duration
	TxUs    uint32
	RxUs    uint32 // Required Min RX Interval of the packet (what the peer asks us to respect when sending)
	Mult    uint8
	Discard string // non-empty: a packet RFC 5880 6.8.6 says to discard
}

func (e bfdEv) String() string {
	if e.Kind == "sleep" {
		return fmt.Sprintf("sleep(%v)", e.Dt)
	}
	d := ""
	if e.Discard != "" {
		d = " discard:" + e.Discard
	}
	return fmt.Sprintf("recv(%v tx=%dus rx=%dus mult=%d%s)", e.State, e.TxUs, e.RxUs, e.Mult, d)
}

const (
	reqRx     = 200*time.Millisecond + 250*time.Microsecond // sub-millisecond fraction keeps deadlines off the event grid
	desiredTx = 100 * time.Millisecond
)

func genHistory(rt *rapid.T, allowAdminDown bool) []bfdEv {
	n := rapid.IntRange(1, 30).Draw(rt, "n")
	var evs []bfdEv
	for i := 0; i < n; i++ {
		if rapid.IntRange(0, 3).Draw(rt, "kind") > 0 {
			lo := 1
			if allowAdminDown && rapid.IntRange(0, 4).Draw(rt, "admindown") == 0 {
				lo = 0
			}
			e := bfdEv{Kind: "recv", State: st(rapid.IntRange(lo, 3).Draw(rt, "state")),
				TxUs: uint32(rapid.IntRange(1, 400).Draw(rt, "txms"))*1000 + 250, Mult: uint8(rapid.IntRange(1, 3).Draw(rt, "mult"))}
			e.RxUs = 100000
			if rapid.IntRange(0, 3).Draw(rt, "slowPeer") == 0 {
				e.RxUs = uint32(rapid.IntRange(1, 3000).Draw(rt, "rxms")) * 1000
			}
			if lo == 0 {
				e.State = layers.BFDStateAdminDown
			}
			if rapid.IntRange(0, 7).Draw(rt, "discard") == 0 {
				e.Discard = rapid.SampledFrom([]string{"version", "mult0", "multipoint", "mydisc0", "yourdisc0", "poll", "final", "demand", "echo", "auth"}).Draw(rt, "why")
				if e.Discard == "yourdisc0" && (e.State == layers.BFDStateDown || e.State == layers.BFDStateAdminDown) {
					e.Discard = "mult0" // a zero Your Discriminator is legal in Down/AdminDown
				}
			}
			evs = append(evs, e)
		} else {
			evs = append(evs, bfdEv{Kind: "sleep", Dt: time.Duration(rapid.IntRange(1, 1500).Draw(rt, "dtms")) * time.Millisecond})
		}
	}
	return evs
}

func mkPacket(e bfdEv, local layers.BFDDiscriminator) *layers.BFD {
	p := &layers.BFD{Version: 1, State: e.State, DetectMultiplier: layers.BFDDetectMultiplier(e.Mult),
		MyDiscriminator: 77, YourDiscriminator: local,
		DesiredMinTxInterval: layers.BFDTimeInterval(e.TxUs), RequiredMinRxInterval: layers.BFDTimeInterval(e.RxUs)}
	switch e.Discard {
	case "version":
		p.Version = 0
	case "mult0":
		p.DetectMultiplier = 0
	case "multipoint":
		p.Multipoint = true
	case "mydisc0":
		p.MyDiscriminator = 0
	case "yourdisc0":
		p.YourDiscriminator = 0
	case "poll":
		p.Poll = true
	case "final":
		p.Final = true
	case "demand":
		p.Demand = true
	case "echo":
		p.RequiredMinEchoRxInterval = 1000
	case "auth":
		p.AuthPresent = true
	}
	return p
}

func newSession(snd bfd.Sender) *bfd.Session {
	s, err := bfd.NewSession(snd, control.BFD{Disable: ptr.To(false), DetectMult: 3,
		DesiredMinTxInterval: desiredTx, RequiredMinRxInterval: reqRx}, bfd.Metrics{})
	if err != nil {
		panic(err)
	}
	return s
}

// runHistory executes evs on a real session inside the current bubble and returns a failure text.
// On return the session is still running; stop() ends it. modelOut is the model's final state
// ("stuck" when the listed AdminDown defect has absorbed the session).
func runHistory(evs []bfdEv, sticky bool, lab map[string]int) (fail string, s *bfd.Session, snd *recSender, stuck bool, stop func()) {
	snd = &recSender{}
	s = newSession(snd)
	ctx, cancel := context.WithCancel(context.Background())
	done := make(chan struct{})
	go func() { _ = s.Run(ctx); close(done) }()
	stop = func() { cancel(); s.Close(); <-done }
	synctest.Wait()
	model := layers.BFDStateDown
	var deadline time.Time
	lastRx := time.Duration(0) // the slowest pace the peer asked for during the history: a transmission timer armed under it may still be pending
	start := time.Now()
	for i, e := range evs {
		if e.Kind == "recv" {
			s.ReceiveMessage(mkPacket(e, s.LocalDiscriminator))
			synctest.Wait()
			if e.Discard != "" {
				lab["discarded_packet"]++
			} else {
				switch {
				case stuck:
				case e.State == layers.BFDStateAdminDown && sticky:
					stuck = true
					lab["admindown_known"]++
				default:
					prev := model
					model = rfcNext(model, e.State)
					if prev != model {
						lab[fmt.Sprintf("tr_%v_%v", prev, model)]++
					}
				}
				deadline = time.Now().Add(time.Duration(e.Mult) * max(reqRx, time.Duration(e.TxUs)*time.Microsecond))
				lastRx = max(lastRx, time.Duration(e.RxUs)*time.Microsecond)
				if e.RxUs > 1000000 {
					lab["peer_asks_slow_pace"]++
				}
			}
		} else {
			end := time.Now().Add(e.Dt)
			if !deadline.IsZero() && end.After(deadline) {
				if !stuck && model != rfcTimer(model) {
					lab[fmt.Sprintf("timer_%v_Down", model)]++
				}
				model = rfcTimer(model)
				deadline = time.Time{}
			}
			time.Sleep(e.Dt)
			synctest.Wait()
		}
		wantUp := model == layers.BFDStateUp && !stuck
		if up := s.IsUp(); up != wantUp {
			return fmt.Sprintf("step %d %v at +%v: IsUp=%v, RFC model state %v", i, e, time.Since(start), up, model), s, snd, stuck, stop
		}
	}
	// the state advertised in control packets follows the model: let two transmission intervals pass
	// (without crossing the detection deadline) and look at the last packet sent
	wait := 2*max(1050*time.Millisecond, lastRx) + 100*time.Millisecond // the session may pace itself down to what the peer asked for
	if !stuck && (deadline.IsZero() || time.Until(deadline) > wait+100*time.Millisecond) {
		time.Sleep(wait)
		synctest.Wait()
		snd.mu.Lock()
		n := len(snd.sent)
		var last sentPkt
		if n > 0 {
			last = snd.sent[n-1]
		}
		snd.mu.Unlock()
		if n == 0 {
			return fmt.Sprintf("no control packet sent within %v", wait), s, snd, stuck, stop
		}
		if last.state != model {
			return fmt.Sprintf("control packets advertise state %v, RFC model state %v", last.state, model), s, snd, stuck, stop
		}
		lab["advertised_state_checked"]++
	}
	return "", s, snd, stuck, stop
}

// attachPeer wires a fresh real session to s over a loss-free link and reports whether both are up
// after d of virtual time.
func attachPeer(s *bfd.Session, snd *recSender, d time.Duration) (bool, func()) {
	peerSnd := &recSender{}
	peer := newSession(peerSnd)
	peerSnd.fwd = func(b *layers.BFD) { go s.ReceiveMessage(b) }
	snd.mu.Lock()
	snd.fwd = func(b *layers.BFD) { go peer.ReceiveMessage(b) }
	snd.mu.Unlock()
	ctx, cancel := context.WithCancel(context.Background())
	done := make(chan struct{})
	go func() { _ = peer.Run(ctx); close(done) }()
	time.Sleep(d)
	synctest.Wait()
	up := s.IsUp() && peer.IsUp()
	// ... and stay up: sampled over several detection times
	for i := 0; i < 6 && up; i++ {
		time.Sleep(700 * time.Millisecond)
		synctest.Wait()
		up = s.IsUp() && peer.IsUp()
	}
	return up, func() {
		snd.mu.Lock()
		snd.fwd = nil
		snd.mu.Unlock()
		peerSnd.mu.Lock()
		peerSnd.fwd = nil
		peerSnd.mu.Unlock()
		cancel()
		peer.Close()
		<-done
	}
}

func TestC16(t *testing.T) {
	rec := evid.New("C16", "(a) exhaustive: transition(s, e) for the protocol-reachable states {Down, Init, Up} x {AdminDown, Down, Init, Up, Timer} vs RFC 5880 section 6.8.6; "+
		"(b) rapid: histories of 1-30 events (received control packets with any state, intervals 1-400 ms, detect mult 1-3, 1/8 of them packets the RFC says to discard; sleeps of 1-1500 ms) on one real Session under a virtual clock, "+
		"IsUp compared with the RFC model (state machine + detection time) after every step and the advertised state at the end; (d) then a well-behaved real peer over a loss-free link must bring it up within 10 s; "+
		"(c) two real sessions over a link with a drawn loss/duplication/send-failure pattern for 1-20 s, then a loss-free tail of 10 detection times (both up and stable), then silence (down after the detection time). "+
		"Non-trivial: history that reaches Up and leaves it again (timer or Down), or a lossy pair with >= 30 % loss.")
	defer rec.Flush(t)
	rec.Assume("virtual clock via testing/synctest; detection times carry a sub-millisecond fraction so that no event lands on a deadline",
		"transmit jitter (math/rand) is not controlled; oracles only depend on detection deadlines", "Your Discriminator of generated packets is the session's own or zero where legal")
	rec.Require("reached_up", "left_up_timer", "left_up_down", "discarded_packet", "recovery_checked", "pair_lossy", "pair_send_failure", "pair_silence_down", "advertised_state_checked", "peer_asks_slow_pace")
	sticky := adminDownSticky(t)
	if sticky {
		rec.Known(sigAdminDown)
	}
	rec.Exhaustive("BFD transition table: 3 protocol-reachable states x 5 events")
	rec.Eval(15)
	rec.Label("table_entries", 15)

	t.Run("history", func(t *testing.T) {
		rapid.Check(t, func(rt *rapid.T) {
			evs := genHistory(rt, rapid.IntRange(0, 3).Draw(rt, "allowAdminDown") == 0)
			lab := map[string]int{}
			var fail string
			recovered := true
			stuckAtEnd := false
			synctest.Test(t, func(t *testing.T) {
				f, s, snd, stuck, stop := runHistory(evs, sticky, lab)
				fail = f
				stuckAtEnd = stuck
				if f == "" {
					up, stopPeer := attachPeer(s, snd, 10*time.Second)
					recovered = up
					stopPeer()
				}
				stop()
			})
			if fail != "" {
				rt.Fatalf("%s\nhistory: %v", fail, evs)
			}
			if stuckAtEnd {
				// listed finding: the session cannot recover; counted, search goes on with other histories
				rec.Known(sigAdminDown)
				if recovered {
					rt.Fatalf("model says the session is absorbed by AdminDown but it came up with a well-behaved peer\nhistory: %v", evs)
				}
			} else if !recovered {
				rt.Fatalf("after this history a well-behaved peer did not bring the session up within 10 s (virtual)\nhistory: %v", evs)
			}
			labels := []string{"recovery_checked"}
			for l, n := range lab {
				labels = append(labels, l)
				switch {
				case strings.HasSuffix(l, "_Up") && strings.HasPrefix(l, "tr_"):
					labels = append(labels, "reached_up")
				case l == "timer_Up_Down":
					labels = append(labels, "left_up_timer")
				case l == "tr_Up_Down":
					labels = append(labels, "left_up_down")
				}
				_ = n
			}
			nt := (lab["timer_Up_Down"] > 0 || lab["tr_Up_Down"] > 0)
			rec.Case(nt, fmt.Sprint(evs), labels...)
			rec.Eval(len(evs))
			rec.Sample(func() any { return map[string]any{"part": "history", "events": fmt.Sprint(evs), "absorbed_by_admindown": stuckAtEnd} })
		})
	})

	t.Run("pair", func(t *testing.T) {
		rapid.Check(t, func(rt *rapid.T) {
			pattern := rapid.SliceOfN(rapid.IntRange(0, 9), 4, 24).Draw(rt, "lossPattern") // per message: 0-2 drop (scaled by lossLevel), 9 duplicate
			lossLevel := rapid.IntRange(0, 9).Draw(rt, "lossLevel")
			lossySecs := rapid.IntRange(1, 20).Draw(rt, "lossySeconds")
			var fail string
			var lost, delivered, sendFailures int
			sendErrors := rapid.Bool().Draw(rt, "sendErrors")
			synctest.Test(t, func(t *testing.T) {
				var mu sync.Mutex
				lossy, silentA := true, false
				idx := 0
				sa, sb := &recSender{}, &recSender{}
				a, b := newSession(sa), newSession(sb)
				deliver := func(to *bfd.Session, toA bool) func(*layers.BFD) {
					return func(p *layers.BFD) {
						mu.Lock()
						drop, dup := false, false
						if toA && silentA {
							drop = true
						} else if lossy {
							v := pattern[idx%len(pattern)]
							idx++
							drop = v < lossLevel
							dup = v == 9
						}
						if drop {
							lost++
						} else {
							delivered++
						}
						mu.Unlock()
						if drop {
							return
						}
						go to.ReceiveMessage(p)
						if dup {
							c := *p
							go to.ReceiveMessage(&c)
						}
					}
				}
				sa.fwd = deliver(b, false)
				sb.fwd = deliver(a, true)
				// some losses show up as failing sends (pattern value 8) while the link is lossy
				sendFail := func() bool {
					mu.Lock()
					defer mu.Unlock()
					if !lossy || !sendErrors {
						return false
					}
					v := pattern[idx%len(pattern)]
					if v == 8 {
						idx++
						lost++
						sendFailures++
						return true
					}
					return false
				}
				sa.failSend, sb.failSend = sendFail, sendFail
				ctx, cancel := context.WithCancel(context.Background())
				da, db := make(chan struct{}), make(chan struct{})
				go func() { _ = a.Run(ctx); close(da) }()
				go func() { _ = b.Run(ctx); close(db) }()
				time.Sleep(time.Duration(lossySecs) * time.Second)
				mu.Lock()
				lossy = false
				mu.Unlock()
				det := 3 * reqRx
				time.Sleep(5 * det)
				for i := 0; i < 50 && fail == ""; i++ { // second half of the tail: both up and stable
					time.Sleep(det / 10)
					synctest.Wait()
					if !a.IsUp() || !b.IsUp() {
						fail = fmt.Sprintf("after %d s of lossy link and a loss-free tail of %v: a.IsUp=%v b.IsUp=%v", lossySecs, 5*det+time.Duration(i+1)*det/10, a.IsUp(), b.IsUp())
					}
				}
				if fail == "" {
					mu.Lock()
					silentA = true
					mu.Unlock()
					time.Sleep(det + time.Millisecond)
					synctest.Wait()
					if a.IsUp() {
						fail = fmt.Sprintf("session still up %v after its peer went silent (detection time %v)", det+time.Millisecond, det)
					}
				}
				cancel()
				a.Close()
				b.Close()
				<-da
				<-db
			})
			if fail != "" {
				rt.Fatalf("%s\nloss pattern %v level %d", fail, pattern, lossLevel)
			}
			heavy := lost*10 >= (lost+delivered)*3
			labels := []string{"pair_silence_down"}
			if lost > 0 {
				labels = append(labels, "pair_lossy")
			}
			if sendFailures > 0 {
				labels = append(labels, "pair_send_failure")
			}
			rec.Case(heavy, fmt.Sprint("pair", pattern, lossLevel, lossySecs), labels...)
			rec.Eval(lost + delivered)
			rec.Sample(func() any {
				return map[string]any{"part": "pair", "loss_pattern": fmt.Sprint(pattern), "loss_level": lossLevel, "lossy_seconds": lossySecs, "messages_lost": lost, "messages_delivered": delivered}
			})
		})
	})
}
