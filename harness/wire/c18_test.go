package wire

import (
	"bytes"
	"encoding/binary"
	"fmt"
	"reflect"
	"strings"
	"sync"
	"testing"

	"github.com/gopacket/gopacket"
	"pgregory.net/rapid"

	"github.com/scionproto/scion/pkg/addr"
	"github.com/scionproto/scion/pkg/slayers"
	"github.com/scionproto/scion/pkg/slayers/path"
	"github.com/scionproto/scion/pkg/slayers/path/empty"
	"github.com/scionproto/scion/pkg/slayers/path/epic"
	"github.com/scionproto/scion/pkg/slayers/path/onehop"
	"github.com/scionproto/scion/pkg/slayers/path/scion"

	"verif/internal/evid"
)

// ---------------------------------------------------------------------------------------------
// C18 — SCION headers round-trip through decoding and serialization.
//
// (a) value -> bytes -> value: generated header values (all address types; SCION, EPIC, one-hop,
//     empty paths; HBH/E2E extensions with arbitrary options and alignment requests; UDP and every
//     SCMP message type) are serialized with FixLengths+ComputeChecksums, decoded through the full
//     gopacket decoder chain and compared field by field (padding options inserted by the encoder
//     are ignored, nothing else).
// (b) bytes -> value -> bytes: byte strings (mutants of (a)'s output, raw fuzz inputs) are decoded
//     layer by layer; every header the decoder accepts is re-serialized without fixing lengths and
//     must reproduce the consumed header bytes on all non-reserved bits (reserved-bit positions are
//     computed from the header layout in doc/protocols/scion-header.rst).
// (c) truncated inputs and over-long length fields: error or in-bounds decode, never a panic; a
//     header/extension/option length that exceeds the data must be rejected.
// ---------------------------------------------------------------------------------------------

type optSpec struct {
	typ   slayers.OptionType
	data  []byte
	align [2]uint8
}

func genOptions(rt *rapid.T) []optSpec {
	var out []optSpec
	n := rapid.IntRange(0, 5).Draw(rt, "nopts")
	budget := 900
	for i := 0; i < n; i++ {
		var l int
		switch rapid.IntRange(0, 5).Draw(rt, "optlenkind") {
		case 0:
			l = 0
		case 1:
			l = 255
		default:
			l = rapid.IntRange(0, 40).Draw(rt, "optlen")
		}
		if l+10 > budget {
			l = 0
		}
		budget -= l + 10
		o := optSpec{typ: slayers.OptionType(rapid.IntRange(2, 255).Draw(rt, "otype")),
			data: rapid.SliceOfN(rapid.Byte(), l, l).Draw(rt, "odata")}
		if rapid.Bool().Draw(rt, "aligned") {
			x := rapid.SampledFrom([]uint8{2, 4, 8}).Draw(rt, "ax")
			o.align = [2]uint8{x, uint8(rapid.IntRange(0, int(x)-1).Draw(rt, "ay"))}
		}
		out = append(out, o)
	}
	return out
}

type l4Spec struct {
	kind  string // udp, scmp-<type>, raw
	udp   *slayers.UDP
	scmp  *slayers.SCMP
	msg   gopacket.SerializableLayer
	proto slayers.L4ProtocolType
	pld   []byte
}

func genL4(rt *rapid.T, s *slayers.SCION) *l4Spec {
	l := &l4Spec{pld: rapid.SliceOfN(rapid.Byte(), 0, 120).Draw(rt, "pld")}
	switch k := rapid.IntRange(0, 11).Draw(rt, "l4kind"); k {
	case 0, 1:
		l.kind, l.proto = "udp", slayers.L4UDP
		l.udp = &slayers.UDP{SrcPort: rapid.Uint16().Draw(rt, "sp"), DstPort: rapid.Uint16().Draw(rt, "dp")}
		l.udp.SetNetworkLayerForChecksum(s)
	case 2:
		l.kind, l.proto = "raw", slayers.L4ProtocolType(rapid.SampledFrom([]uint8{6, 203, 253, 254}).Draw(rt, "rawproto"))
	default:
		types := []slayers.SCMPType{slayers.SCMPTypeDestinationUnreachable, slayers.SCMPTypePacketTooBig, slayers.SCMPTypeParameterProblem,
			slayers.SCMPTypeExternalInterfaceDown, slayers.SCMPTypeInternalConnectivityDown, slayers.SCMPTypeEchoRequest,
			slayers.SCMPTypeEchoReply, slayers.SCMPTypeTracerouteRequest, slayers.SCMPTypeTracerouteReply}
		ty := types[k-3]
		l.kind, l.proto = fmt.Sprintf("scmp-%d", ty), slayers.L4SCMP
		l.scmp = &slayers.SCMP{TypeCode: slayers.CreateSCMPTypeCode(ty, slayers.SCMPCode(rapid.Uint8().Draw(rt, "code")))}
		l.scmp.SetNetworkLayerForChecksum(s)
		switch ty {
		case slayers.SCMPTypeDestinationUnreachable:
			l.msg = &slayers.SCMPDestinationUnreachable{}
		case slayers.SCMPTypePacketTooBig:
			l.msg = &slayers.SCMPPacketTooBig{MTU: rapid.Uint16().Draw(rt, "mtu")}
		case slayers.SCMPTypeParameterProblem:
			l.msg = &slayers.SCMPParameterProblem{Pointer: rapid.Uint16().Draw(rt, "ptr")}
		case slayers.SCMPTypeExternalInterfaceDown:
			l.msg = &slayers.SCMPExternalInterfaceDown{IA: addr.IA(rapid.Uint64().Draw(rt, "mia")), IfID: rapid.Uint64().Draw(rt, "mif")}
		case slayers.SCMPTypeInternalConnectivityDown:
			l.msg = &slayers.SCMPInternalConnectivityDown{IA: addr.IA(rapid.Uint64().Draw(rt, "mia")), Ingress: rapid.Uint64().Draw(rt, "min"), Egress: rapid.Uint64().Draw(rt, "meg")}
		case slayers.SCMPTypeEchoRequest, slayers.SCMPTypeEchoReply:
			l.msg = &slayers.SCMPEcho{Identifier: rapid.Uint16().Draw(rt, "id"), SeqNumber: rapid.Uint16().Draw(rt, "seq")}
		default:
			l.msg = &slayers.SCMPTraceroute{Identifier: rapid.Uint16().Draw(rt, "id"), Sequence: rapid.Uint16().Draw(rt, "seq"),
				IA: addr.IA(rapid.Uint64().Draw(rt, "mia")), Interface: rapid.Uint64().Draw(rt, "mif")}
		}
	}
	return l
}

type pktSpec struct {
	h    *hdrSpec
	hbh  []optSpec
	e2e  []optSpec
	hasH bool
	hasE bool
	l4   *l4Spec
}

func genPacket(rt *rapid.T) *pktSpec {
	p := &pktSpec{h: genHdr(rt)}
	p.hasH = rapid.IntRange(0, 2).Draw(rt, "hbh") == 0
	p.hasE = rapid.IntRange(0, 2).Draw(rt, "e2e") == 0
	if p.hasH {
		p.hbh = genOptions(rt)
	}
	if p.hasE {
		p.e2e = genOptions(rt)
	}
	p.l4 = genL4(rt, &p.h.s)
	return p
}

func (p *pktSpec) serialize() ([]byte, error) {
	s := &p.h.s
	var ls []gopacket.SerializableLayer
	ls = append(ls, s)
	next := &s.NextHdr
	if p.hasH {
		h := &slayers.HopByHopExtn{}
		for _, o := range p.hbh {
			h.Options = append(h.Options, &slayers.HopByHopOption{OptType: o.typ, OptData: o.data, OptAlign: o.align})
		}
		*next = slayers.HopByHopClass
		next = &h.NextHdr
		ls = append(ls, h)
	}
	if p.hasE {
		e := &slayers.EndToEndExtn{}
		for _, o := range p.e2e {
			e.Options = append(e.Options, &slayers.EndToEndOption{OptType: o.typ, OptData: o.data, OptAlign: o.align})
		}
		*next = slayers.End2EndClass
		next = &e.NextHdr
		ls = append(ls, e)
	}
	*next = p.l4.proto
	switch {
	case p.l4.udp != nil:
		ls = append(ls, p.l4.udp)
	case p.l4.scmp != nil:
		ls = append(ls, p.l4.scmp, p.l4.msg)
	}
	ls = append(ls, gopacket.Payload(p.l4.pld))
	buf := gopacket.NewSerializeBuffer()
	if err := gopacket.SerializeLayers(buf, gopacket.SerializeOptions{FixLengths: true, ComputeChecksums: true}, ls...); err != nil {
		return nil, err
	}
	return append([]byte{}, buf.Bytes()...), nil
}

func optList(typ []slayers.OptionType, data [][]byte) []string {
	var out []string
	for i := range typ {
		if typ[i] == slayers.OptTypePad1 || typ[i] == slayers.OptTypePadN {
			continue
		}
		out = append(out, fmt.Sprintf("%d:%x", typ[i], data[i]))
	}
	return out
}

// checkValueRoundTrip is oracle (a).
func checkValueRoundTrip(p *pktSpec, raw []byte) error {
	pkt := gopacket.NewPacket(raw, slayers.LayerTypeSCION, gopacket.Default)
	if el := pkt.ErrorLayer(); el != nil {
		// an upper-layer protocol number without a registered decoder ends the chain with an
		// error layer; the headers in front of it are still compared below.
		if !(p.l4.kind == "raw" && strings.Contains(el.Error().Error(), "no associated decoder")) {
			return fmt.Errorf("decoder rejects the encoder's output: %v", el.Error())
		}
	}
	sl := pkt.Layer(slayers.LayerTypeSCION)
	if sl == nil {
		return fmt.Errorf("no SCION layer")
	}
	d := sl.(*slayers.SCION)
	s := &p.h.s
	if d.Version != s.Version || d.TrafficClass != s.TrafficClass || d.FlowID != s.FlowID || d.NextHdr != s.NextHdr ||
		d.PathType != s.PathType || d.DstAddrType != s.DstAddrType || d.SrcAddrType != s.SrcAddrType ||
		d.DstIA != s.DstIA || d.SrcIA != s.SrcIA || !bytes.Equal(d.RawDstAddr, s.RawDstAddr) || !bytes.Equal(d.RawSrcAddr, s.RawSrcAddr) {
		return fmt.Errorf("common/address header differs after the round trip: got %+v", d)
	}
	if int(d.HdrLen)*4 != 12+16+len(s.RawDstAddr)+len(s.RawSrcAddr)+s.Path.Len() {
		return fmt.Errorf("HdrLen %d inconsistent with the header contents", d.HdrLen)
	}
	if int(d.PayloadLen) != len(raw)-int(d.HdrLen)*4 {
		return fmt.Errorf("PayloadLen %d, actual %d", d.PayloadLen, len(raw)-int(d.HdrLen)*4)
	}
	if a, err := d.DstAddr(); err == nil {
		if b, err2 := s.DstAddr(); err2 != nil || a != b {
			return fmt.Errorf("DstAddr differs")
		}
	}
	switch pt := d.Path.(type) {
	case *scion.Raw:
		dec, err := pt.ToDecoded()
		if err != nil {
			return fmt.Errorf("ToDecoded: %v", err)
		}
		if p.h.dec == nil || dec.PathMeta != p.h.dec.PathMeta || !reflect.DeepEqual(dec.InfoFields, p.h.dec.InfoFields) || !reflect.DeepEqual(dec.HopFields, p.h.dec.HopFields) {
			return fmt.Errorf("SCION path differs: got %+v want %+v", dec, p.h.dec)
		}
	case *onehop.Path:
		if p.h.ohp == nil || *pt != *p.h.ohp {
			return fmt.Errorf("one-hop path differs")
		}
	case *epic.Path:
		if p.h.ep == nil || pt.PktID != p.h.ep.PktID || !bytes.Equal(pt.PHVF, p.h.ep.PHVF) || !bytes.Equal(pt.LHVF, p.h.ep.LHVF) {
			return fmt.Errorf("EPIC header differs")
		}
		dec, err := pt.ScionPath.ToDecoded()
		if err != nil || dec.PathMeta != p.h.dec.PathMeta || !reflect.DeepEqual(dec.InfoFields, p.h.dec.InfoFields) || !reflect.DeepEqual(dec.HopFields, p.h.dec.HopFields) {
			return fmt.Errorf("EPIC embedded path differs (%v)", err)
		}
	case empty.Path:
		if p.h.kind != "empty" {
			return fmt.Errorf("path decoded as empty")
		}
	default:
		return fmt.Errorf("unexpected path type %T", pt)
	}
	want := func(os []optSpec) []string {
		var t []slayers.OptionType
		var dd [][]byte
		for _, o := range os {
			t = append(t, o.typ)
			dd = append(dd, o.data)
		}
		return optList(t, dd)
	}
	if p.hasH {
		hl := pkt.Layer(slayers.LayerTypeHopByHopExtn)
		if hl == nil {
			return fmt.Errorf("hop-by-hop extension lost")
		}
		h := hl.(*slayers.HopByHopExtn)
		var t []slayers.OptionType
		var dd [][]byte
		for _, o := range h.Options {
			t = append(t, o.OptType)
			dd = append(dd, o.OptData)
		}
		if g, w := optList(t, dd), want(p.hbh); !reflect.DeepEqual(g, w) {
			return fmt.Errorf("hop-by-hop options differ: got %v want %v", g, w)
		}
		// requested alignment honoured
		off := 2
		idx := 0
		for _, o := range h.Options {
			if o.OptType != slayers.OptTypePad1 && o.OptType != slayers.OptTypePadN {
				al := p.hbh[idx].align
				if al[0] != 0 && off%int(al[0]) != int(al[1]) {
					return fmt.Errorf("hop-by-hop option %d at offset %d violates alignment %dn+%d", idx, off, al[0], al[1])
				}
				idx++
			}
			off += o.ActualLength
		}
	} else if pkt.Layer(slayers.LayerTypeHopByHopExtn) != nil {
		return fmt.Errorf("spurious hop-by-hop extension")
	}
	if p.hasE {
		el := pkt.Layer(slayers.LayerTypeEndToEndExtn)
		if el == nil {
			return fmt.Errorf("end-to-end extension lost")
		}
		e := el.(*slayers.EndToEndExtn)
		var t []slayers.OptionType
		var dd [][]byte
		for _, o := range e.Options {
			t = append(t, o.OptType)
			dd = append(dd, o.OptData)
		}
		if g, w := optList(t, dd), want(p.e2e); !reflect.DeepEqual(g, w) {
			return fmt.Errorf("end-to-end options differ: got %v want %v", g, w)
		}
	} else if pkt.Layer(slayers.LayerTypeEndToEndExtn) != nil {
		return fmt.Errorf("spurious end-to-end extension")
	}
	var appPld []byte
	if pl := pkt.ApplicationLayer(); pl != nil {
		appPld = pl.Payload()
	}
	switch {
	case p.l4.udp != nil:
		ul := pkt.Layer(slayers.LayerTypeSCIONUDP)
		if ul == nil {
			return fmt.Errorf("UDP layer lost")
		}
		u := ul.(*slayers.UDP)
		if u.SrcPort != p.l4.udp.SrcPort || u.DstPort != p.l4.udp.DstPort || int(u.Length) != 8+len(p.l4.pld) || !bytes.Equal(u.Payload, p.l4.pld) {
			return fmt.Errorf("UDP differs: %+v", u)
		}
	case p.l4.scmp != nil:
		cl := pkt.Layer(slayers.LayerTypeSCMP)
		if cl == nil {
			return fmt.Errorf("SCMP layer lost")
		}
		c := cl.(*slayers.SCMP)
		if c.TypeCode != p.l4.scmp.TypeCode {
			return fmt.Errorf("SCMP type/code differs")
		}
		var got any
		switch m := p.l4.msg.(type) {
		case *slayers.SCMPDestinationUnreachable:
			if pkt.Layer(slayers.LayerTypeSCMPDestinationUnreachable) == nil {
				return fmt.Errorf("SCMP message layer lost")
			}
		case *slayers.SCMPPacketTooBig:
			if l := pkt.Layer(slayers.LayerTypeSCMPPacketTooBig); l == nil || l.(*slayers.SCMPPacketTooBig).MTU != m.MTU {
				return fmt.Errorf("PacketTooBig differs")
			}
		case *slayers.SCMPParameterProblem:
			if l := pkt.Layer(slayers.LayerTypeSCMPParameterProblem); l == nil || l.(*slayers.SCMPParameterProblem).Pointer != m.Pointer {
				return fmt.Errorf("ParameterProblem differs")
			}
		case *slayers.SCMPExternalInterfaceDown:
			if l := pkt.Layer(slayers.LayerTypeSCMPExternalInterfaceDown); l == nil || l.(*slayers.SCMPExternalInterfaceDown).IA != m.IA || l.(*slayers.SCMPExternalInterfaceDown).IfID != m.IfID {
				return fmt.Errorf("ExternalInterfaceDown differs")
			}
		case *slayers.SCMPInternalConnectivityDown:
			l := pkt.Layer(slayers.LayerTypeSCMPInternalConnectivityDown)
			if l == nil {
				return fmt.Errorf("InternalConnectivityDown lost")
			}
			g := l.(*slayers.SCMPInternalConnectivityDown)
			if g.IA != m.IA || g.Ingress != m.Ingress || g.Egress != m.Egress {
				return fmt.Errorf("InternalConnectivityDown differs")
			}
		case *slayers.SCMPEcho:
			if l := pkt.Layer(slayers.LayerTypeSCMPEcho); l == nil || l.(*slayers.SCMPEcho).Identifier != m.Identifier || l.(*slayers.SCMPEcho).SeqNumber != m.SeqNumber {
				return fmt.Errorf("Echo differs")
			}
		case *slayers.SCMPTraceroute:
			l := pkt.Layer(slayers.LayerTypeSCMPTraceroute)
			if l == nil {
				return fmt.Errorf("Traceroute lost")
			}
			g := l.(*slayers.SCMPTraceroute)
			if g.Identifier != m.Identifier || g.Sequence != m.Sequence || g.IA != m.IA || g.Interface != m.Interface {
				return fmt.Errorf("Traceroute differs")
			}
		}
		_ = got
		if !bytes.Equal(appPld, p.l4.pld) && len(p.l4.pld) > 0 {
			return fmt.Errorf("SCMP payload differs: got %x want %x", appPld, p.l4.pld)
		}
	}
	return nil
}

// normalizeSCIONHeader returns a copy of the first hdrLen bytes of raw with every reserved bit
// cleared, following the layouts of doc/protocols/scion-header.rst. ok=false if raw is too short to
// apply the layout (then nothing is asserted about reserved bits).
func normalizeSCIONHeader(raw []byte) (out []byte, ok bool) {
	if len(raw) < 12 {
		return nil, false
	}
	hdrLen := int(raw[5]) * 4
	if hdrLen > len(raw) || hdrLen < 12 {
		return nil, false
	}
	out = append([]byte{}, raw[:hdrLen]...)
	out[10], out[11] = 0, 0 // common header RSV
	dl := (int(raw[9]>>4&3) + 1) * 4
	sl := (int(raw[9]&3) + 1) * 4
	off := 12 + 16 + dl + sl
	if off > hdrLen {
		return nil, false
	}
	normInfo := func(b []byte) { b[0] &= 0x03; b[1] = 0 }
	normHop := func(b []byte) { b[0] &= 0x03 }
	normScion := func(b []byte) bool {
		if len(b) < 4 {
			return false
		}
		line := binary.BigEndian.Uint32(b)
		line &^= 0x3f << 18 // RSV between CurrHF and SegLen
		binary.BigEndian.PutUint32(b, line)
		seg := []int{int(line >> 12 & 63), int(line >> 6 & 63), int(line & 63)}
		o := 4
		hops := 0
		for _, l := range seg {
			if l > 0 {
				if o+8 > len(b) {
					return false
				}
				normInfo(b[o:])
				o += 8
				hops += l
			}
		}
		for i := 0; i < hops; i++ {
			if o+12 > len(b) {
				return false
			}
			normHop(b[o:])
			o += 12
		}
		return true
	}
	switch raw[8] {
	case 0: // empty
	case 1:
		if !normScion(out[off:]) {
			return nil, false
		}
	case 2: // one-hop
		if off+32 > hdrLen {
			return nil, false
		}
		normInfo(out[off:])
		normHop(out[off+8:])
		normHop(out[off+20:])
	case 3: // EPIC
		if off+16 > hdrLen || !normScion(out[off+16:]) {
			return nil, false
		}
	}
	return out, true
}

// checkBytesRoundTrip is oracle (b)+(c) for one byte string. It returns a description of the
// violation or "". stats receives the names of the layers that decoded.
var (
	recycledMu   sync.Mutex
	recycled     slayers.SCION
	recycledInit bool
)

var (
	reusedMu    sync.Mutex
	reusedPaths = map[string]path.Path{"decoded": &scion.Decoded{}, "raw": &scion.Raw{}, "epic": &epic.Path{}, "onehop": &onehop.Path{}}
)

// primerPath returns the bytes of a maximal (3 segments, 64 hop fields) or minimal (1 segment, 1 hop
// field) path of the given kind, filled with a non-zero pattern.
func primerPath(kind string, long bool) []byte {
	meta, nInf, nHop := uint32(1<<12), 1, 1
	if long {
		meta, nInf, nHop = 22<<12|21<<6|21, 3, 64
	}
	sp := make([]byte, 4+8*nInf+12*nHop)
	for i := range sp {
		sp[i] = 0xa5
	}
	binary.BigEndian.PutUint32(sp, meta)
	switch kind {
	case "epic":
		return append(bytes.Repeat([]byte{0x5a}, 16), sp...)
	case "onehop":
		return bytes.Repeat([]byte{0xa5}, 32)
	}
	return sp
}

func checkReusedPathObjects(pt path.Type, pb []byte, stats func(string)) (msg string) {
	reusedMu.Lock()
	defer reusedMu.Unlock()
	defer func() {
		if r := recover(); r != nil {
			msg = fmt.Sprintf("panic while decoding a path into a reused object: %v", r)
		}
	}()
	var names []string
	fresh := map[string]path.Path{}
	switch pt {
	case scion.PathType:
		names = []string{"decoded", "raw"}
		fresh["decoded"], fresh["raw"] = &scion.Decoded{}, &scion.Raw{}
	case epic.PathType:
		names = []string{"epic"}
		fresh["epic"] = &epic.Path{}
	case onehop.PathType:
		names = []string{"onehop"}
		fresh["onehop"] = &onehop.Path{}
	}
	for _, n := range names {
		f, r := fresh[n], reusedPaths[n]
		// what the reused object held before is a function of the input (so that a failing input
		// reproduces on its own): the longest possible path or the shortest one
		primer := primerPath(n, len(pb)%2 == 0 || len(pb) < 100)
		if perr := r.DecodeFromBytes(primer); perr != nil {
			return fmt.Sprintf("harness: primer path for %s does not decode: %v", n, perr)
		}
		ferr := f.DecodeFromBytes(append([]byte{}, pb...))
		rerr := r.DecodeFromBytes(append([]byte{}, pb...))
		if (ferr == nil) != (rerr == nil) {
			return fmt.Sprintf("path bytes %x: a fresh %s path object decodes with error %v, one that was used before with %v", pb, n, ferr, rerr)
		}
		if ferr != nil {
			continue
		}
		if f.Len() != r.Len() {
			return fmt.Sprintf("path bytes %x: a fresh %s path object has length %d, one that was used before %d", pb, n, f.Len(), r.Len())
		}
		fo, ro := make([]byte, f.Len()), make([]byte, r.Len())
		fe, re := f.SerializeTo(fo), r.SerializeTo(ro)
		if (fe == nil) != (re == nil) || !bytes.Equal(fo, ro) {
			return fmt.Sprintf("path bytes %x: a fresh %s path object re-serializes to %x (%v), one that was used before to %x (%v)", pb, n, fo, fe, ro, re)
		}
		if d, ok := r.(*scion.Decoded); ok && (len(d.InfoFields) != d.NumINF || len(d.HopFields) != d.NumHops) {
			return fmt.Sprintf("path bytes %x: decoded path object used before holds %d info and %d hop fields, the path has %d and %d", pb, len(d.InfoFields), len(d.HopFields), d.NumINF, d.NumHops)
		}
		stats("path_object_reused")
	}
	return ""
}

func checkBytesRoundTrip(raw []byte, stats func(string)) (msg string) {
	defer func() {
		if r := recover(); r != nil {
			msg = fmt.Sprintf("panic while decoding/serializing: %v", r)
		}
	}()
	data := append([]byte{}, raw...)
	var s slayers.SCION
	err := s.DecodeFromBytes(data, gopacket.NilDecodeFeedback)
	// the router and the dispatcher decode every packet into one long-lived layer with recycled
	// path objects: same verdict and same re-serialization required
	var rerr error
	var rout []byte
	func() {
		recycledMu.Lock()
		defer recycledMu.Unlock()
		if !recycledInit {
			recycled.RecyclePaths()
			recycledInit = true
		}
		rerr = recycled.DecodeFromBytes(append([]byte{}, raw...), gopacket.NilDecodeFeedback)
		if rerr == nil {
			rb := gopacket.NewSerializeBuffer()
			if e := recycled.SerializeTo(rb, gopacket.SerializeOptions{}); e == nil {
				rout = append([]byte{}, rb.Bytes()...)
			}
		}
	}()
	// (a recycling layer is lenient about unregistered path types, which it keeps as raw bytes; a
	// fresh layer rejects them - both verdicts are allowed, so only agreement of the output is demanded)
	if rerr == nil && err == nil {
		fb := gopacket.NewSerializeBuffer()
		if e := s.SerializeTo(fb, gopacket.SerializeOptions{}); e == nil && !bytes.Equal(fb.Bytes(), rout) {
			return fmt.Sprintf("a layer with recycled paths re-serializes to %x, a fresh layer to %x", rout, fb.Bytes())
		}
	}
	if rerr == nil && err != nil && len(raw) >= 12 {
		if hl := int(raw[5]) * 4; hl > len(raw) {
			return fmt.Sprintf("recycling layer accepts header length %d with %d bytes of data", hl, len(raw))
		} else if rout != nil {
			if a, ok := normalizeSCIONHeader(raw); ok {
				if b, ok2 := normalizeSCIONHeader(rout); ok2 && !bytes.Equal(a[:hl], b[:min(hl, len(b))]) {
					return fmt.Sprintf("recycling layer re-serializes an accepted header to %x, input %x", rout, raw[:hl])
				}
			}
		}
	}
	// long-lived path objects that are decoded into again and again (the decoded form is what path
	// manipulating code keeps around): same verdict and same bytes as a fresh object
	if err == nil {
		if m := checkReusedPathObjects(s.PathType, raw[slayers.CmnHdrLen+s.AddrHdrLen():int(s.HdrLen)*4], stats); m != "" {
			return m
		}
	}
	if len(raw) >= 12 {
		hdrLen := int(raw[5]) * 4
		if hdrLen > len(raw) && err == nil {
			return fmt.Sprintf("header length %d exceeds the %d bytes of data but the decoder accepts", hdrLen, len(raw))
		}
	} else if err == nil {
		return "decoder accepts fewer bytes than a common header"
	}
	if err != nil {
		stats("scion_rejected")
		return ""
	}
	stats("scion_decoded")
	hdrLen := int(s.HdrLen) * 4
	if len(s.Contents) != hdrLen || len(s.Payload) != len(raw)-hdrLen {
		return fmt.Sprintf("Contents/Payload split %d/%d inconsistent with HdrLen %d of %d bytes", len(s.Contents), len(s.Payload), hdrLen, len(raw))
	}
	buf := gopacket.NewSerializeBuffer()
	if err := s.SerializeTo(buf, gopacket.SerializeOptions{}); err != nil {
		return fmt.Sprintf("decoder accepts but serializer fails: %v", err)
	}
	out := buf.Bytes()
	norm, ok := normalizeSCIONHeader(raw)
	if !ok {
		return fmt.Sprintf("decoder accepted a header the layout cannot be applied to (HdrLen %d, %d bytes)", hdrLen, len(raw))
	}
	// compare on non-reserved bits only: the raw path representation carries reserved bits through,
	// the decoded ones drop them; both are allowed.
	if outNorm, ok2 := normalizeSCIONHeader(out); ok2 {
		out = outNorm
	}
	if !bytes.Equal(out, norm) {
		return fmt.Sprintf("re-serialized header differs from the accepted input on non-reserved bits:\n in  %x\n out %x", norm, out)
	}
	// the decoder never looks at reserved bits: decoding the normalized header gives the same bytes again
	rest := append([]byte{}, raw[hdrLen:]...)
	next := s.NextHdr
	seenE2E := false
	for i := 0; i < 2; i++ {
		switch next {
		case slayers.HopByHopClass:
			if i > 0 || seenE2E {
				return ""
			}
			var h slayers.HopByHopExtn
			err := h.DecodeFromBytes(rest, gopacket.NilDecodeFeedback)
			if len(rest) >= 2 && (int(rest[1])+1)*4 > len(rest) && err == nil {
				return "hop-by-hop extension length exceeds the data but the decoder accepts"
			}
			if err != nil {
				stats("hbh_rejected")
				return ""
			}
			stats("hbh_decoded")
			b := gopacket.NewSerializeBuffer()
			if err := h.SerializeTo(b, gopacket.SerializeOptions{}); err != nil {
				return fmt.Sprintf("hop-by-hop extension decodes but does not serialize: %v", err)
			}
			if !bytes.Equal(b.Bytes(), rest[:h.ActualLen]) {
				return fmt.Sprintf("hop-by-hop extension re-serializes differently:\n in  %x\n out %x", rest[:h.ActualLen], b.Bytes())
			}
			consumed := 2
			for _, o := range h.Options {
				consumed += o.ActualLength
			}
			if consumed != h.ActualLen {
				return fmt.Sprintf("hop-by-hop options cover %d of %d bytes", consumed, h.ActualLen)
			}
			next, rest = h.NextHdr, rest[h.ActualLen:]
		case slayers.End2EndClass:
			if seenE2E {
				return ""
			}
			seenE2E = true
			var e slayers.EndToEndExtn
			err := e.DecodeFromBytes(rest, gopacket.NilDecodeFeedback)
			if len(rest) >= 2 && (int(rest[1])+1)*4 > len(rest) && err == nil {
				return "end-to-end extension length exceeds the data but the decoder accepts"
			}
			if err != nil {
				stats("e2e_rejected")
				return ""
			}
			stats("e2e_decoded")
			b := gopacket.NewSerializeBuffer()
			if err := e.SerializeTo(b, gopacket.SerializeOptions{}); err != nil {
				return fmt.Sprintf("end-to-end extension decodes but does not serialize: %v", err)
			}
			if !bytes.Equal(b.Bytes(), rest[:e.ActualLen]) {
				return fmt.Sprintf("end-to-end extension re-serializes differently:\n in  %x\n out %x", rest[:e.ActualLen], b.Bytes())
			}
			next, rest = e.NextHdr, rest[e.ActualLen:]
		}
	}
	switch next {
	case slayers.L4UDP:
		var u slayers.UDP
		if err := u.DecodeFromBytes(rest, gopacket.NilDecodeFeedback); err != nil {
			stats("udp_rejected")
			return ""
		}
		stats("udp_decoded")
		b := gopacket.NewSerializeBuffer()
		if err := u.SerializeTo(b, gopacket.SerializeOptions{}); err != nil {
			return fmt.Sprintf("UDP decodes but does not serialize: %v", err)
		}
		if !bytes.Equal(b.Bytes(), rest[:8]) {
			return fmt.Sprintf("UDP header re-serializes differently: in %x out %x", rest[:8], b.Bytes())
		}
		if len(u.Payload) > len(rest)-8 {
			return "UDP payload longer than the data"
		}
	case slayers.L4SCMP:
		var c slayers.SCMP
		if err := c.DecodeFromBytes(rest, gopacket.NilDecodeFeedback); err != nil {
			stats("scmp_rejected")
			return ""
		}
		stats("scmp_decoded")
		b := gopacket.NewSerializeBuffer()
		if err := c.SerializeTo(b, gopacket.SerializeOptions{}); err != nil {
			return fmt.Sprintf("SCMP decodes but does not serialize: %v", err)
		}
		if !bytes.Equal(b.Bytes(), rest[:4]) {
			return fmt.Sprintf("SCMP header re-serializes differently: in %x out %x", rest[:4], b.Bytes())
		}
		body := rest[4:]
		type dl interface {
			DecodeFromBytes([]byte, gopacket.DecodeFeedback) error
			SerializeTo(gopacket.SerializeBuffer, gopacket.SerializeOptions) error
		}
		var m dl
		switch c.TypeCode.Type() {
		case slayers.SCMPTypeDestinationUnreachable:
			m = &slayers.SCMPDestinationUnreachable{}
		case slayers.SCMPTypePacketTooBig:
			m = &slayers.SCMPPacketTooBig{}
		case slayers.SCMPTypeParameterProblem:
			m = &slayers.SCMPParameterProblem{}
		case slayers.SCMPTypeExternalInterfaceDown:
			m = &slayers.SCMPExternalInterfaceDown{}
		case slayers.SCMPTypeInternalConnectivityDown:
			m = &slayers.SCMPInternalConnectivityDown{}
		case slayers.SCMPTypeEchoRequest, slayers.SCMPTypeEchoReply:
			m = &slayers.SCMPEcho{}
		case slayers.SCMPTypeTracerouteRequest, slayers.SCMPTypeTracerouteReply:
			m = &slayers.SCMPTraceroute{}
		}
		if m != nil {
			if err := m.DecodeFromBytes(body, gopacket.NilDecodeFeedback); err != nil {
				stats("scmpmsg_rejected")
				return ""
			}
			stats("scmpmsg_decoded")
			b := gopacket.NewSerializeBuffer()
			if err := m.SerializeTo(b, gopacket.SerializeOptions{}); err != nil {
				return fmt.Sprintf("SCMP message decodes but does not serialize: %v", err)
			}
			n := len(b.Bytes())
			in := append([]byte{}, body[:n]...)
			// reserved/unused fields of the SCMP messages (scmp.rst): DestinationUnreachable 4 unused bytes,
			// PacketTooBig and ParameterProblem 2 reserved bytes
			switch c.TypeCode.Type() {
			case slayers.SCMPTypeDestinationUnreachable:
				copy(in, []byte{0, 0, 0, 0})
			case slayers.SCMPTypePacketTooBig, slayers.SCMPTypeParameterProblem:
				in[0], in[1] = 0, 0
			}
			if !bytes.Equal(b.Bytes(), in) {
				return fmt.Sprintf("SCMP message re-serializes differently: in %x out %x", in, b.Bytes())
			}
		}
	}
	// full decoder chain must not panic either
	_ = gopacket.NewPacket(append([]byte{}, raw...), slayers.LayerTypeSCION, gopacket.Default)
	return ""
}

// mutateBytes applies structured mutations to a valid packet.
func mutateBytes(rt *rapid.T, raw []byte) ([]byte, string) {
	b := append([]byte{}, raw...)
	kind := rapid.SampledFrom([]string{"none", "bitflip", "hdrlen", "field255", "truncate", "meta", "extlen", "optlen", "extend", "pathtype", "addrtype"}).Draw(rt, "mutation")
	interesting := []byte{0, 1, 2, 3, 7, 8, 9, 12, 15, 16, 17, 63, 64, 127, 128, 254, 255}
	hdrLen := int(b[5]) * 4
	switch kind {
	case "bitflip":
		n := rapid.IntRange(1, 3).Draw(rt, "nflips")
		for i := 0; i < n; i++ {
			j := rapid.IntRange(0, min(len(b), hdrLen+24)-1).Draw(rt, "flipidx")
			b[j] ^= 1 << rapid.IntRange(0, 7).Draw(rt, "flipbit")
		}
	case "hdrlen":
		switch rapid.IntRange(0, 3).Draw(rt, "hlk") {
		case 0:
			b[5] = rapid.SampledFrom(interesting).Draw(rt, "hl")
		case 1:
			b[5]++
		case 2:
			b[5]--
		default:
			b[5] = byte(min(255, len(b)/4+rapid.IntRange(-1, 1).Draw(rt, "hld")))
		}
	case "field255":
		j := rapid.IntRange(0, min(len(b), hdrLen+16)-1).Draw(rt, "idx")
		b[j] = rapid.SampledFrom(interesting).Draw(rt, "val")
	case "truncate":
		b = b[:rapid.IntRange(0, len(b)).Draw(rt, "cut")]
	case "meta":
		dl := (int(b[9]>>4&3) + 1) * 4
		sl := (int(b[9]&3) + 1) * 4
		off := 28 + dl + sl
		if b[8] == 3 {
			off += 16
		}
		if off+4 <= len(b) {
			line := uint32(rapid.IntRange(0, 3).Draw(rt, "ci"))<<30 | uint32(rapid.IntRange(0, 63).Draw(rt, "ch"))<<24 |
				uint32(rapid.SampledFrom([]int{0, 1, 2, 5, 31, 32, 63}).Draw(rt, "s0"))<<12 |
				uint32(rapid.SampledFrom([]int{0, 1, 2, 5, 31, 32, 63}).Draw(rt, "s1"))<<6 |
				uint32(rapid.SampledFrom([]int{0, 1, 2, 5, 31, 32, 63}).Draw(rt, "s2"))
			if rapid.Bool().Draw(rt, "rsvbits") {
				line |= uint32(rapid.IntRange(0, 63).Draw(rt, "rsv")) << 18
			}
			binary.BigEndian.PutUint32(b[off:], line)
		}
	case "extlen":
		if hdrLen+2 <= len(b) {
			b[hdrLen+1] = rapid.SampledFrom(interesting).Draw(rt, "extlen")
		}
	case "optlen":
		if hdrLen+4 <= len(b) {
			j := hdrLen + 2 + rapid.IntRange(0, min(40, len(b)-hdrLen-3)).Draw(rt, "optoff")
			b[j] = rapid.SampledFrom(interesting).Draw(rt, "optv")
		}
	case "extend":
		b = append(b, rapid.SliceOfN(rapid.Byte(), 1, 16).Draw(rt, "tail")...)
	case "pathtype":
		b[8] = rapid.SampledFrom([]byte{0, 1, 2, 3, 4, 255}).Draw(rt, "ptype")
	case "addrtype":
		b[9] = rapid.Byte().Draw(rt, "dtst")
	}
	return b, kind
}

func TestC18(t *testing.T) {
	rec := evid.New("C18", "rapid: (a) header values (3 address types x 4 path types x HBH/E2E option lists with alignment requests x UDP / 9 SCMP message types / raw L4) "+
		"-> serialize -> full decoder chain -> field-by-field comparison; (b) structured mutants of the serialized bytes (bit flips, HdrLen/ExtLen/option-length/meta-header/"+
		"path-type/address-type edits, truncation, extension) -> every header the decoder accepts must re-serialize to the input modulo reserved bits; (c) lengths exceeding the data are rejected, "+
		"no panic. Non-trivial: extension options present, >= 2 segments, or a non-IPv4 address; for (b): mutant still accepted by the SCION decoder.")
	defer rec.Flush(t)
	rec.Assume("reserved-bit positions (normalizeSCIONHeader, 70 lines) follow doc/protocols/scion-header.rst and scmp.rst",
		"option lists are bounded so that an extension header fits its 8-bit length field", "PayloadLen vs. actual length is not a decoder obligation (the router checks it, see C08/C09)")
	rec.Require("path_scion", "path_epic", "path_onehop", "path_empty", "hbh", "e2e", "l4_udp", "l4_scmp-1", "l4_scmp-2", "l4_scmp-4", "l4_scmp-5", "l4_scmp-6",
		"l4_scmp-128", "l4_scmp-129", "l4_scmp-130", "l4_scmp-131", "mutant_accepted", "mutant_rejected", "mut_hdrlen", "mut_truncate")
	rapid.Check(t, func(rt *rapid.T) {
		p := genPacket(rt)
		raw, err := p.serialize()
		if err != nil {
			rt.Fatalf("serialize: %v", err)
		}
		if err := checkValueRoundTrip(p, raw); err != nil {
			rt.Fatalf("value round trip (%s, hbh=%v e2e=%v, %s): %v\npacket %x", p.h.kind, p.hasH, p.hasE, p.l4.kind, err, raw)
		}
		labels := []string{"path_" + p.h.kind, "l4_" + p.l4.kind}
		if p.hasH {
			labels = append(labels, "hbh")
		}
		if p.hasE {
			labels = append(labels, "e2e")
		}
		// the untouched serialization is itself a decoder-accepted byte string
		if msg := checkBytesRoundTrip(raw, func(string) {}); msg != "" {
			rt.Fatalf("bytes round trip of a valid packet: %s\npacket %x", msg, raw)
		}
		// every truncation: no panic, no acceptance of a header longer than the data
		step := 1 + len(raw)/64
		for cut := 0; cut < len(raw); cut += step {
			if msg := checkBytesRoundTrip(raw[:cut], func(string) {}); msg != "" {
				rt.Fatalf("prefix of %d bytes: %s\npacket %x", cut, msg, raw[:cut])
			}
		}
		rec.Eval(len(raw)/step + 1)
		mut, kind := mutateBytes(rt, raw)
		accepted := false
		msg := checkBytesRoundTrip(mut, func(s string) {
			if s == "scion_decoded" {
				accepted = true
			}
			rec.Label("b_" + s)
		})
		if msg != "" {
			rt.Fatalf("mutant (%s) of a valid packet: %s\nmutant %x", kind, msg, mut)
		}
		labels = append(labels, "mut_"+kind)
		if accepted {
			labels = append(labels, "mutant_accepted")
		} else {
			labels = append(labels, "mutant_rejected")
		}
		nsegs := 0
		if p.h.dec != nil {
			nsegs = p.h.dec.NumINF
		}
		nt := len(p.hbh)+len(p.e2e) > 0 || nsegs >= 2 || p.h.s.DstAddrType != slayers.T4Ip || p.h.s.SrcAddrType != slayers.T4Ip
		rec.Case(nt, fmt.Sprintf("%x", mut), labels...)
		rec.Sample(func() any {
			return map[string]any{"path": p.h.kind, "hbh_options": len(p.hbh), "e2e_options": len(p.e2e), "l4": p.l4.kind, "packet_hex": fmt.Sprintf("%x", raw[:min(len(raw), 96)]),
				"mutation": kind, "mutant_accepted": accepted}
		})
	})
}

// FuzzC18 is the native coverage-guided target for direction (b)/(c): any byte string.
func FuzzC18(f *testing.F) {
	seeds := [][]byte{
		{0, 0, 0, 1, 17, 9, 0, 8, 0, 0, 0, 0},
	}
	for _, s := range seeds {
		f.Add(s)
	}
	// valid packets from the generator
	for i := 0; i < 40; i++ {
		g := rapid.Custom(func(rt *rapid.T) []byte {
			p := genPacket(rt)
			raw, err := p.serialize()
			if err != nil {
				return nil
			}
			return raw
		})
		if b := g.Example(i); b != nil {
			f.Add(b)
		}
	}
	f.Fuzz(func(t *testing.T, data []byte) {
		if len(data) > 2000 {
			return
		}
		if msg := checkBytesRoundTrip(data, func(string) {}); msg != "" {
			t.Fatalf("%s\ninput %x", msg, data)
		}
	})
}
