package wire

import (
	"bytes"
	"encoding/binary"
	"fmt"
	"sync"
	"testing"

	"pgregory.net/rapid"

	"github.com/scionproto/scion/pkg/slayers"
	"github.com/scionproto/scion/pkg/slayers/path/empty"
	"github.com/scionproto/scion/pkg/spao"

	"verif/internal/evid"
	"verif/internal/findings"
	"verif/internal/ref"
)

// ---------------------------------------------------------------------------------------------
// C21 — the SPAO authenticator covers exactly the immutable packet fields.
//
// (M) metamorphic table from doc/protocols/authenticator-option.rst: for every field class one
// change, tag must change / must not change. (D) the tag equals an independent AES-CMAC over a
// reference serialization of the documented MAC input.
//
// Known finding C21/tc-covered-bits=0x3f: the implementation masks the traffic class with 0x3f,
// i.e. it covers the two ECN bits (bits 0-1) and ignores the two high DSCP bits (bits 6-7); the
// document says "TC w/o ECN" = 0xfc. The pinned mac_test vectors encode the defect, so it is
// recorded, not repaired. The oracle measures which traffic-class bits the tag depends on; only
// the exact set 0x3f is the listed finding, any other deviation from 0xfc is a violation.
// ---------------------------------------------------------------------------------------------

type spaoCase struct {
	h       *hdrSpec
	spi     slayers.PacketAuthSPI
	alg     slayers.PacketAuthAlg
	ts      uint64
	pldType slayers.L4ProtocolType
	pld     []byte
	key     []byte
}

func (c *spaoCase) tag() ([]byte, error) {
	opt, err := slayers.NewPacketAuthOption(slayers.PacketAuthOptionParams{SPI: c.spi, Algorithm: c.alg,
		TimestampSN: c.ts, Auth: make([]byte, 16)})
	if err != nil {
		return nil, err
	}
	buf := make([]byte, spao.MACBufferSize)
	out := make([]byte, 16)
	t, err := spao.ComputeAuthCMAC(spao.MACInput{Key: c.key, Header: opt, ScionLayer: &c.h.s, PldType: c.pldType,
		Pld: c.pld}, buf, out)
	if err != nil {
		return nil, err
	}
	return append([]byte{}, t...), nil
}

// refTag computes the tag over the documented input layout with the given traffic-class mask.
func (c *spaoCase) refTag(tcMask uint8) []byte {
	s := &c.h.s
	pathLen := s.Path.Len()
	hdrLen := 12 + 16 + len(s.RawDstAddr) + len(s.RawSrcAddr) + pathLen
	in := make([]byte, 0, 1100+len(c.pld))
	// 1. authenticator option metadata
	in = append(in, byte(hdrLen/4), byte(c.pldType))
	in = binary.BigEndian.AppendUint16(in, uint16(len(c.pld)))
	in = append(in, byte(c.alg), 0)
	in = append(in, byte(c.ts>>40), byte(c.ts>>32), byte(c.ts>>24), byte(c.ts>>16), byte(c.ts>>8), byte(c.ts))
	// 2. common header without the second row
	in = binary.BigEndian.AppendUint32(in, uint32(s.Version&0xf)<<28|uint32(s.TrafficClass&tcMask)<<20|s.FlowID&0xfffff)
	in = append(in, byte(s.PathType), byte(s.DstAddrType&0xf)<<4|byte(s.SrcAddrType&0xf), 0, 0)
	// 3. address header
	drkey := uint32(c.spi) >= 1 && uint32(c.spi) < 1<<21
	t := uint32(c.spi) >> 17 & 1
	d := uint32(c.spi) >> 16 & 1
	if !drkey {
		in = binary.BigEndian.AppendUint64(in, uint64(s.DstIA))
		in = binary.BigEndian.AppendUint64(in, uint64(s.SrcIA))
	}
	if !drkey || (t == 0 && d == 1) {
		in = append(in, s.RawDstAddr...)
	}
	if !drkey || (t == 0 && d == 0) {
		in = append(in, s.RawSrcAddr...)
	}
	// 4. path with mutable fields zeroed
	pb := make([]byte, pathLen)
	if err := s.Path.SerializeTo(pb); err != nil {
		panic(err)
	}
	zeroScion := func(b []byte) {
		line := binary.BigEndian.Uint32(b)
		seg := []int{int(line >> 12 & 63), int(line >> 6 & 63), int(line & 63)}
		b[0] = 0 // CurrINF, CurrHF
		off := 4
		nhops := 0
		for _, l := range seg {
			if l > 0 {
				b[off+2], b[off+3] = 0, 0 // SegID
				off += 8
				nhops += l
			}
		}
		for i := 0; i < nhops; i++ {
			b[off] &^= 0x03 // router alert flags
			off += 12
		}
	}
	switch c.h.kind {
	case "scion":
		zeroScion(pb)
	case "epic":
		zeroScion(pb[16:])
	case "onehop":
		pb[2], pb[3] = 0, 0 // SegID (updated by the first router)
		pb[8] &^= 0x03      // first hop router alert flags
		for i := 20; i < 32; i++ {
			pb[i] = 0 // second hop field
		}
	}
	in = append(in, pb...)
	// 5. upper layer payload
	in = append(in, c.pld...)
	m := ref.CMAC(c.key, in)
	return m[:]
}

func genSPAO(rt *rapid.T) *spaoCase {
	c := &spaoCase{h: genHdr(rt)}
	c.h.s.Version = uint8(rapid.IntRange(0, 15).Draw(rt, "ver"))
	c.h.s.PayloadLen = rapid.Uint16().Draw(rt, "plen")
	switch rapid.IntRange(0, 4).Draw(rt, "spikind") {
	case 0:
		c.spi = slayers.PacketAuthSPI(rapid.Uint32Range(1<<21, 1<<32-1).Draw(rt, "spi"))
	default:
		spi, err := slayers.MakePacketAuthSPIDRKey(uint16(rapid.IntRange(1, 65535).Draw(rt, "proto")),
			uint8(rapid.IntRange(0, 1).Draw(rt, "type")), uint8(rapid.IntRange(0, 1).Draw(rt, "dir")))
		if err != nil {
			rt.Fatalf("spi: %v", err)
		}
		c.spi = spi
	}
	c.alg = slayers.PacketAuthAlg(rapid.IntRange(0, 1).Draw(rt, "alg"))
	c.ts = rapid.Uint64Range(0, 1<<48-1).Draw(rt, "tsn")
	c.pldType = rapid.SampledFrom([]slayers.L4ProtocolType{slayers.L4UDP, slayers.L4TCP, slayers.L4SCMP, slayers.L4BFD}).Draw(rt, "pldtype")
	c.pld = rapid.SliceOfN(rapid.Byte(), 0, 96).Draw(rt, "pld")
	c.key = rapid.SliceOfN(rapid.Byte(), 16, 16).Draw(rt, "key")
	return c
}

// tcCoveredBits measures which traffic-class bits the implementation's tag depends on.
var tcCoveredBits = sync.OnceValue(func() uint8 {
	c := &spaoCase{h: &hdrSpec{kind: "empty"}, spi: 1 << 22, key: make([]byte, 16), pldType: slayers.L4UDP}
	c.h.s.PathType, c.h.s.Path = empty.PathType, empty.Path{}
	c.h.s.RawDstAddr, c.h.s.RawSrcAddr = make([]byte, 4), make([]byte, 4)
	var covered uint8
	for _, base := range []uint8{0x00, 0xff, 0xa5} {
		c.h.s.TrafficClass = base
		t0, _ := c.tag()
		for bit := 0; bit < 8; bit++ {
			c.h.s.TrafficClass = base ^ 1<<bit
			t1, _ := c.tag()
			if !bytes.Equal(t0, t1) {
				covered |= 1 << bit
			}
		}
	}
	return covered
})

const tcDocMask = 0xfc // DSCP bits; the two ECN bits (RFC 3168: low-order bits) are excluded

func tcSig(mask uint8) string { return fmt.Sprintf("C21/tc-covered-bits=%#02x", mask) }

// effectiveTCMask returns the mask the oracles use: the documented one, unless the measured
// deviation is a listed known finding (then the search continues behind it with the measured mask).
func effectiveTCMask(t interface{ Fatalf(string, ...any) }) uint8 {
	m := tcCoveredBits()
	if m == tcDocMask {
		return m
	}
	if findings.Listed(tcSig(m)) {
		findings.Report(tcSig(m))
		return m
	}
	t.Fatalf("authenticator depends on traffic-class bits %#02x; the specification covers exactly the six DSCP bits %#02x", m, tcDocMask)
	return m
}

// TestC21Probe is the deterministic probe of the listed finding: it prints the KNOWN-FINDING line
// iff the defect is present, and fails on any other set of covered traffic-class bits.
func TestC21Probe(t *testing.T) {
	_ = effectiveTCMask(t)
}

type mutation struct {
	name       string
	wantChange bool
	apply      func()
	undo       func()
}

func TestC21(t *testing.T) {
	rec := evid.New("C21", "rapid: packet header (empty/SCION/one-hop/EPIC path, all address types) x SPI (non-DRKey; DRKey AS-host/host-host x sender/receiver side) x "+
		"algorithm x timestamp x key x payload; per case the tag is (D) compared with an independent AES-CMAC over the documented input layout and (M) recomputed after "+
		"each single-field change of the metamorphic table (unchanged for mutable/excluded fields, changed for covered ones). "+
		"Non-trivial: DRKey SPI (address exclusion in force) or a path with hop fields.")
	defer rec.Flush(t)
	rec.Assume("reference input layout (refTag, 70 lines) transcribed from doc/protocols/authenticator-option.rst; AES-CMAC reference per RFC 4493 checked against its test vectors",
		"extension headers are excluded by construction of the MAC input API; their effect on the SCION header (NextHdr, PayloadLen) is what is varied",
		"16-byte tag collisions ignored")
	rec.Require("path_scion", "path_onehop", "path_epic", "path_empty", "spi_nondrkey", "spi_drkey_T0D0", "spi_drkey_T0D1", "spi_drkey_T1D0", "spi_drkey_T1D1")
	mask := effectiveTCMask(t)
	if mask != tcDocMask {
		rec.Known(tcSig(mask))
	}

	rapid.Check(t, func(rt *rapid.T) {
		c := genSPAO(rt)
		base, err := c.tag()
		if err != nil {
			rt.Fatalf("tag: %v", err)
		}
		// (D) reference layout
		if want := c.refTag(mask); !bytes.Equal(base, want) {
			rt.Fatalf("tag %x differs from the reference over the documented input layout %x (path %s, spi %#x, alg %d)", base, want, c.h.kind, uint32(c.spi), c.alg)
		}
		if mask != tcDocMask && c.h.s.TrafficClass&(mask^tcDocMask) != 0 {
			rec.Known(tcSig(mask))
		}

		drkey := c.spi.IsDRKey()
		srcCovered := !drkey || (c.spi.Type() == slayers.PacketAuthASHost && c.spi.Direction() == slayers.PacketAuthSenderSide)
		dstCovered := !drkey || (c.spi.Type() == slayers.PacketAuthASHost && c.spi.Direction() == slayers.PacketAuthReceiverSide)
		s := &c.h.s
		bit := func(name string, n int) int { return rapid.IntRange(0, n-1).Draw(rt, name) }
		var muts []mutation
		add := func(name string, want bool, apply, undo func()) {
			muts = append(muts, mutation{name, want, apply, undo})
		}
		for b := 0; b < 8; b++ {
			m := uint8(1) << b
			add(fmt.Sprintf("tc-bit%d", b), mask&m != 0, func() { s.TrafficClass ^= m }, func() { s.TrafficClass ^= m })
		}
		vb := uint8(1) << bit("verbit", 4)
		add("version", true, func() { s.Version ^= vb }, func() { s.Version ^= vb })
		fb := uint32(1) << bit("flowbit", 20)
		add("flowid", true, func() { s.FlowID ^= fb }, func() { s.FlowID ^= fb })
		nh := s.NextHdr
		add("nexthdr", false, func() { s.NextHdr = slayers.End2EndClass }, func() { s.NextHdr = nh })
		add("nexthdr-hbh", false, func() { s.NextHdr = slayers.HopByHopClass }, func() { s.NextHdr = nh })
		pb := uint16(1) << bit("plenbit", 16)
		add("payloadlen", false, func() { s.PayloadLen ^= pb }, func() { s.PayloadLen ^= pb })
		hl := s.HdrLen
		add("hdrlen-field", false, func() { s.HdrLen ^= 0x11 }, func() { s.HdrLen = hl }) // the covered HdrLen is derived from the header contents
		pt := s.PathType
		add("pathtype", true, func() { s.PathType ^= 0x40 }, func() { s.PathType = pt })
		dt, st := s.DstAddrType, s.SrcAddrType
		// address type change with the same length (IPv4 <-> SVC) so that only the type nibble changes
		if dt != slayers.T16Ip {
			add("dst-addrtype", true, func() { s.DstAddrType ^= 0x4 }, func() { s.DstAddrType = dt })
		}
		if st != slayers.T16Ip {
			add("src-addrtype", true, func() { s.SrcAddrType ^= 0x4 }, func() { s.SrcAddrType = st })
		}
		ib := uint64(1) << bit("iabit", 64)
		add("srcia", !drkey, func() { s.SrcIA ^= addrIA(ib) }, func() { s.SrcIA ^= addrIA(ib) })
		add("dstia", !drkey, func() { s.DstIA ^= addrIA(ib) }, func() { s.DstIA ^= addrIA(ib) })
		si, sb := bit("srcbyte", len(s.RawSrcAddr)), uint8(1)<<bit("srcbit", 8)
		add(fmt.Sprintf("srchost-covered=%v", srcCovered), srcCovered, func() { s.RawSrcAddr[si] ^= sb }, func() { s.RawSrcAddr[si] ^= sb })
		di, db := bit("dstbyte", len(s.RawDstAddr)), uint8(1)<<bit("dstbit", 8)
		add(fmt.Sprintf("dsthost-covered=%v", dstCovered), dstCovered, func() { s.RawDstAddr[di] ^= db }, func() { s.RawDstAddr[di] ^= db })
		// upper layer, option metadata
		pld := c.pld
		add("payload-extend", true, func() { c.pld = append(append([]byte{}, pld...), 0) }, func() { c.pld = pld })
		if len(pld) > 0 {
			pi, pbit := bit("pldbyte", len(pld)), uint8(1)<<bit("pldbit", 8)
			add("payload-bit", true, func() { c.pld[pi] ^= pbit }, func() { c.pld[pi] ^= pbit })
			add("payload-truncate", true, func() { c.pld = pld[:len(pld)-1] }, func() { c.pld = pld })
		}
		ptype := c.pldType
		add("upper-type", true, func() { c.pldType ^= 0x80 }, func() { c.pldType = ptype })
		add("algorithm", true, func() { c.alg ^= 1 }, func() { c.alg ^= 1 })
		tb := uint64(1) << bit("tsbit", 48)
		add("timestamp", true, func() { c.ts ^= tb }, func() { c.ts ^= tb })
		kb := uint8(1) << bit("keybit", 8)
		add("key", true, func() { c.key[3] ^= kb }, func() { c.key[3] ^= kb })

		if d := c.h.dec; d != nil {
			sync := func() { c.h.syncEpic(rt) }
			add("currhf", false, func() { d.PathMeta.CurrHF ^= 1; sync() }, func() { d.PathMeta.CurrHF ^= 1; sync() })
			add("currinf", false, func() { d.PathMeta.CurrINF ^= 1; sync() }, func() { d.PathMeta.CurrINF ^= 1; sync() })
			ii := bit("infidx", len(d.InfoFields))
			f := &d.InfoFields[ii]
			sg := uint16(1) << bit("segidbit", 16)
			add("segid", false, func() { f.SegID ^= sg; sync() }, func() { f.SegID ^= sg; sync() })
			tsb := uint32(1) << bit("infotsbit", 32)
			add("info-timestamp", true, func() { f.Timestamp ^= tsb; sync() }, func() { f.Timestamp ^= tsb; sync() })
			add("info-consdir", true, func() { f.ConsDir = !f.ConsDir; sync() }, func() { f.ConsDir = !f.ConsDir; sync() })
			add("info-peer", true, func() { f.Peer = !f.Peer; sync() }, func() { f.Peer = !f.Peer; sync() })
			hi := bit("hopidx", len(d.HopFields))
			h := &d.HopFields[hi]
			add("alert-ingress", false, func() { h.IngressRouterAlert = !h.IngressRouterAlert; sync() }, func() { h.IngressRouterAlert = !h.IngressRouterAlert; sync() })
			add("alert-egress", false, func() { h.EgressRouterAlert = !h.EgressRouterAlert; sync() }, func() { h.EgressRouterAlert = !h.EgressRouterAlert; sync() })
			eb := uint8(1) << bit("expbit", 8)
			add("hop-exptime", true, func() { h.ExpTime ^= eb; sync() }, func() { h.ExpTime ^= eb; sync() })
			cb := uint16(1) << bit("ifbit", 16)
			add("hop-consingress", true, func() { h.ConsIngress ^= cb; sync() }, func() { h.ConsIngress ^= cb; sync() })
			add("hop-consegress", true, func() { h.ConsEgress ^= cb; sync() }, func() { h.ConsEgress ^= cb; sync() })
			mi, mb := bit("macbyte", 6), uint8(1)<<bit("macbit", 8)
			add("hop-mac", true, func() { h.Mac[mi] ^= mb; sync() }, func() { h.Mac[mi] ^= mb; sync() })
			// moving a hop from one segment to the next changes the immutable SegLen fields
			if d.NumINF >= 2 && d.PathMeta.SegLen[0] > 1 {
				add("seglen-shift", true, func() { d.PathMeta.SegLen[0]--; d.PathMeta.SegLen[1]++; sync() }, func() { d.PathMeta.SegLen[0]++; d.PathMeta.SegLen[1]--; sync() })
			}
		}
		if o := c.h.ohp; o != nil {
			sg := uint16(1) << bit("ohpsegidbit", 16)
			add("ohp-segid", false, func() { o.Info.SegID ^= sg }, func() { o.Info.SegID ^= sg })
			add("ohp-timestamp", true, func() { o.Info.Timestamp ^= 1 << 7 }, func() { o.Info.Timestamp ^= 1 << 7 })
			add("ohp-first-alert-egress", false, func() { o.FirstHop.EgressRouterAlert = !o.FirstHop.EgressRouterAlert }, func() { o.FirstHop.EgressRouterAlert = !o.FirstHop.EgressRouterAlert })
			add("ohp-first-alert-ingress", false, func() { o.FirstHop.IngressRouterAlert = !o.FirstHop.IngressRouterAlert }, func() { o.FirstHop.IngressRouterAlert = !o.FirstHop.IngressRouterAlert })
			add("ohp-first-mac", true, func() { o.FirstHop.Mac[5] ^= 2 }, func() { o.FirstHop.Mac[5] ^= 2 })
			add("ohp-first-consegress", true, func() { o.FirstHop.ConsEgress ^= 0x100 }, func() { o.FirstHop.ConsEgress ^= 0x100 })
			add("ohp-first-exptime", true, func() { o.FirstHop.ExpTime ^= 0x10 }, func() { o.FirstHop.ExpTime ^= 0x10 })
			add("ohp-second-consingress", false, func() { o.SecondHop.ConsIngress ^= 1 }, func() { o.SecondHop.ConsIngress ^= 1 })
			add("ohp-second-mac", false, func() { o.SecondHop.Mac[0] ^= 0x80 }, func() { o.SecondHop.Mac[0] ^= 0x80 })
			add("ohp-second-exptime", false, func() { o.SecondHop.ExpTime ^= 1 }, func() { o.SecondHop.ExpTime ^= 1 })
		}
		if e := c.h.ep; e != nil {
			add("epic-pktid-counter", true, func() { e.PktID.Counter ^= 1 }, func() { e.PktID.Counter ^= 1 })
			add("epic-pktid-timestamp", true, func() { e.PktID.Timestamp ^= 1 << 31 }, func() { e.PktID.Timestamp ^= 1 << 31 })
			add("epic-phvf", true, func() { e.PHVF[0] ^= 1 }, func() { e.PHVF[0] ^= 1 })
			add("epic-lhvf", true, func() { e.LHVF[3] ^= 0x80 }, func() { e.LHVF[3] ^= 0x80 })
		}

		for _, m := range muts {
			m.apply()
			got, err := c.tag()
			var want []byte
			if err == nil {
				want = c.refTag(mask)
			}
			m.undo()
			if err != nil {
				rt.Fatalf("tag after %s: %v", m.name, err)
			}
			if changed := !bytes.Equal(got, base); changed != m.wantChange {
				rt.Fatalf("field change %q (path %s, spi %#x): authenticator changed=%v, specification says changed=%v", m.name, c.h.kind, uint32(c.spi), changed, m.wantChange)
			}
			if !bytes.Equal(got, want) {
				rt.Fatalf("after %q the tag differs from the reference layout", m.name)
			}
			rec.Label("mut_" + m.name)
		}
		rec.Eval(len(muts))
		again, _ := c.tag()
		if !bytes.Equal(again, base) {
			rt.Fatalf("harness error: mutations not undone")
		}
		labels := []string{"path_" + c.h.kind}
		if drkey {
			labels = append(labels, fmt.Sprintf("spi_drkey_T%dD%d", c.spi.Type(), c.spi.Direction()))
		} else {
			labels = append(labels, "spi_nondrkey")
		}
		rec.Case(drkey || c.h.kind != "empty", fmt.Sprintf("%x|%x|%s", base, uint32(c.spi), c.h.kind), labels...)
		rec.Sample(func() any {
			return map[string]any{"path": c.h.kind, "spi": fmt.Sprintf("%#x", uint32(c.spi)), "alg": int(c.alg), "tc": s.TrafficClass, "payload_len": len(c.pld),
				"tag": fmt.Sprintf("%x", base), "single_field_changes": len(muts)}
		})
	})
}
