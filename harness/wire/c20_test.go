package wire

import (
	"fmt"
	"testing"

	"github.com/gopacket/gopacket"
	"pgregory.net/rapid"

	"github.com/scionproto/scion/pkg/addr"
	"github.com/scionproto/scion/pkg/slayers"
	"github.com/scionproto/scion/pkg/slayers/path/empty"

	"verif/internal/evid"
)

// ---------------------------------------------------------------------------------------------
// C20 — UDP and SCMP checksums verify and detect corruption.
//
// Oracle: an independent one's-complement sum over the pseudo header (SrcIA/DstIA, raw host
// addresses, 32-bit upper-layer length, three zero bytes, protocol number) and the serialized
// upper layer must fold to 0xFFFF. For single-bit flips of every covered region, (i) the reference
// sum no longer folds to 0xFFFF and (ii) re-serializing the flipped value through the repository's
// encoder yields a different checksum field (this second half exercises the implementation's own
// coverage of odd tail bytes, addresses and the length).
// ---------------------------------------------------------------------------------------------

// refPseudoSum is the folded one's complement sum of pseudo header plus upper layer.
func refPseudoSum(srcIA, dstIA uint64, rawSrc, rawDst []byte, proto uint8, upper []byte) uint16 {
	var sum uint32
	add := func(b []byte) {
		for i := 0; i+1 < len(b); i += 2 {
			sum += uint32(b[i])<<8 | uint32(b[i+1])
		}
		if len(b)%2 == 1 {
			sum += uint32(b[len(b)-1]) << 8
		}
		for sum > 0xffff {
			sum = sum>>16 + sum&0xffff
		}
	}
	var ia [16]byte
	for i := 0; i < 8; i++ {
		ia[i] = byte(dstIA >> (56 - 8*i))
		ia[8+i] = byte(srcIA >> (56 - 8*i))
	}
	add(ia[:])
	add(rawDst)
	add(rawSrc)
	l := uint32(len(upper))
	add([]byte{byte(l >> 24), byte(l >> 16), byte(l >> 8), byte(l), 0, 0, 0, proto})
	add(upper)
	return uint16(sum)
}

type c20Case struct {
	srcIA, dstIA   uint64
	srcT, dstT     slayers.AddrType
	rawSrc, rawDst []byte
	udp            bool
	sport, dport   uint16
	scmpType       uint8
	scmpCode       uint8
	payload        []byte
	dirty          bool // serialize into a reused buffer holding stale bytes
	layer          *slayers.SCION // if set: one long-lived layer object whose exported fields are assigned per packet
}

var c20Dirty = gopacket.NewSerializeBuffer()

func (c *c20Case) serialize() ([]byte, error) {
	s := &slayers.SCION{PathType: empty.PathType, Path: empty.Path{},
		SrcIA: addr.IA(c.srcIA), DstIA: addr.IA(c.dstIA),
		SrcAddrType: c.srcT, DstAddrType: c.dstT, RawSrcAddr: c.rawSrc, RawDstAddr: c.rawDst}
	if c.layer != nil {
		s = c.layer
		s.PathType, s.Path = empty.PathType, empty.Path{}
		s.SrcIA, s.DstIA = addr.IA(c.srcIA), addr.IA(c.dstIA)
		s.SrcAddrType, s.DstAddrType, s.RawSrcAddr, s.RawDstAddr = c.srcT, c.dstT, c.rawSrc, c.rawDst
	}
	buf := gopacket.NewSerializeBuffer()
	if c.dirty {
		// a reused buffer: gopacket hands out previously used memory in an indeterminate state, the
		// serializer must write every byte of its header itself
		buf = c20Dirty
		_ = buf.Clear()
		junk, _ := buf.PrependBytes(len(c.payload) + 64)
		for i := range junk {
			junk[i] = byte(i*131 + 0x5b) // not 0xff: 0xffff is the neutral element of the one's-complement sum
		}
		_ = buf.Clear()
	}
	opts := gopacket.SerializeOptions{FixLengths: true, ComputeChecksums: true}
	if c.udp {
		u := &slayers.UDP{SrcPort: c.sport, DstPort: c.dport}
		u.SetNetworkLayerForChecksum(s)
		if err := gopacket.SerializeLayers(buf, opts, u, gopacket.Payload(c.payload)); err != nil {
			return nil, err
		}
	} else {
		m := &slayers.SCMP{TypeCode: slayers.CreateSCMPTypeCode(slayers.SCMPType(c.scmpType), slayers.SCMPCode(c.scmpCode))}
		m.SetNetworkLayerForChecksum(s)
		if err := gopacket.SerializeLayers(buf, opts, m, gopacket.Payload(c.payload)); err != nil {
			return nil, err
		}
	}
	return append([]byte{}, buf.Bytes()...), nil
}

func (c *c20Case) proto() uint8 {
	if c.udp {
		return uint8(slayers.L4UDP)
	}
	return uint8(slayers.L4SCMP)
}

func (c *c20Case) csumOffset() int {
	if c.udp {
		return 6
	}
	return 2
}

func genC20(rt *rapid.T) *c20Case {
	c := &c20Case{srcIA: rapid.Uint64().Draw(rt, "srcIA"), dstIA: rapid.Uint64().Draw(rt, "dstIA")}
	at := []slayers.AddrType{slayers.T4Ip, slayers.T16Ip, slayers.T4Svc}
	c.dstT = rapid.SampledFrom(at).Draw(rt, "dstT")
	c.srcT = rapid.SampledFrom(at).Draw(rt, "srcT")
	c.rawDst = rapid.SliceOfN(rapid.Byte(), c.dstT.Length(), c.dstT.Length()).Draw(rt, "rawDst")
	c.rawSrc = rapid.SliceOfN(rapid.Byte(), c.srcT.Length(), c.srcT.Length()).Draw(rt, "rawSrc")
	var n int
	switch rapid.IntRange(0, 4).Draw(rt, "lenkind") {
	case 0:
		n = rapid.IntRange(0, 9).Draw(rt, "tiny")
	case 1:
		n = rapid.IntRange(0, 64).Draw(rt, "small")
	case 2:
		n = rapid.SampledFrom([]int{1199, 1200, 1231, 1232, 1233, 1471, 1472, 8191, 8192, 8991, 8992, 8999, 9000}).Draw(rt, "edge")
	default:
		n = rapid.IntRange(0, 9000).Draw(rt, "len")
	}
	if rapid.Bool().Draw(rt, "forceodd") {
		n |= 1
	}
	// payload contents: random, all-zero, or all-0xff (sum wrap-around corner cases)
	switch rapid.IntRange(0, 5).Draw(rt, "fill") {
	case 0:
		c.payload = make([]byte, n)
	case 1:
		c.payload = make([]byte, n)
		for i := range c.payload {
			c.payload[i] = 0xff
		}
	default:
		c.payload = rapid.SliceOfN(rapid.Byte(), n, n).Draw(rt, "payload")
	}
	c.dirty = rapid.Bool().Draw(rt, "reusedBuffer")
	if rapid.Bool().Draw(rt, "reusedLayer") {
		c.layer = &slayers.SCION{}
	}
	c.udp = rapid.Bool().Draw(rt, "udp")
	if c.udp {
		c.sport, c.dport = rapid.Uint16().Draw(rt, "sport"), rapid.Uint16().Draw(rt, "dport")
	} else {
		c.scmpType, c.scmpCode = rapid.Uint8().Draw(rt, "type"), rapid.Uint8().Draw(rt, "code")
	}
	return c
}

func TestC20(t *testing.T) {
	rec := evid.New("C20", "rapid: SCION address header (random ISD-ASes, IPv4/IPv6/SVC host types and values) x upper layer (UDP with random ports "+
		"or SCMP with any type/code) x payload length 0..9000 (half forced odd; edge lengths; zero/0xff/random fill); serialized with the repository's "+
		"encoder (fresh layer object per packet, or one layer object reused for the case and all its flips with its fields assigned); reference one's-complement sum must be 0xFFFF; per case up to 48 single-bit flips spread over all covered regions (all bits for upper "+
		"layers <= 64 B) must change the reference sum and the re-serialized checksum field. Non-trivial: odd upper-layer length or a non-IPv4 address.")
	defer rec.Flush(t)
	rec.Assume("reference sum (refPseudoSum, 25 lines) follows the pseudo header of doc/protocols/scion-header.rst", "upper layer <= 65535 bytes")
	rec.Require("odd", "even", "udp", "scmp", "addr_ipv6", "addr_svc", "flip_addr", "flip_ia", "flip_payload", "flip_tailbyte", "layer_object_reused")

	rapid.Check(t, func(rt *rapid.T) {
		c := genC20(rt)
		upper, err := c.serialize()
		if err != nil {
			rt.Fatalf("serialize: %v", err)
		}
		hdr := 8 // UDP header; the SCMP base header is type, code, checksum
		if !c.udp {
			hdr = 4
		}
		if len(upper) != hdr+len(c.payload) {
			rt.Fatalf("upper layer length %d, want %d", len(upper), hdr+len(c.payload))
		}
		if got := refPseudoSum(c.srcIA, c.dstIA, c.rawSrc, c.rawDst, c.proto(), upper); got != 0xffff {
			rt.Fatalf("checksum does not verify: folded sum %04x over pseudo header + %d upper-layer bytes (udp=%v src=%x dst=%x)",
				got, len(upper), c.udp, c.rawSrc, c.rawDst)
		}
		off := c.csumOffset()
		origCsum := uint16(upper[off])<<8 | uint16(upper[off+1])
		labels := []string{}
		if len(upper)%2 == 1 {
			labels = append(labels, "odd")
		} else {
			labels = append(labels, "even")
		}
		if c.udp {
			labels = append(labels, "udp")
		} else {
			labels = append(labels, "scmp")
		}
		if c.srcT == slayers.T16Ip || c.dstT == slayers.T16Ip {
			labels = append(labels, "addr_ipv6")
		}
		if c.srcT == slayers.T4Svc || c.dstT == slayers.T4Svc {
			labels = append(labels, "addr_svc")
		}
		if c.layer != nil {
			labels = append(labels, "layer_object_reused")
		}

		// ---- single-bit flips. Regions: 0 srcIA, 1 dstIA, 2 src addr, 3 dst addr, 4 L4 header fields
		// (ports / type+code; not the checksum itself, and for UDP not the length which FixLengths rewrites),
		// 5 payload.
		type flip struct{ region, byteIdx, bit int }
		var flips []flip
		all := len(upper) <= 64
		addRegion := func(region, n int) {
			if n == 0 {
				return
			}
			if all {
				for i := 0; i < n; i++ {
					for b := 0; b < 8; b++ {
						flips = append(flips, flip{region, i, b})
					}
				}
				return
			}
			k := 6
			for j := 0; j < k; j++ {
				var i int
				switch j {
				case 0:
					i = 0
				case 1:
					i = n - 1 // last byte: the odd tail when the region is the payload
				default:
					i = rapid.IntRange(0, n-1).Draw(rt, "flipbyte")
				}
				flips = append(flips, flip{region, i, rapid.IntRange(0, 7).Draw(rt, "flipbit")})
			}
		}
		addRegion(0, 8)
		addRegion(1, 8)
		addRegion(2, len(c.rawSrc))
		addRegion(3, len(c.rawDst))
		addRegion(4, 4)
		addRegion(5, len(c.payload))
		for _, f := range flips {
			m := *c
			m.rawSrc = append([]byte{}, c.rawSrc...)
			m.rawDst = append([]byte{}, c.rawDst...)
			m.payload = append([]byte{}, c.payload...)
			fu := append([]byte{}, upper...)
			mask := byte(1) << f.bit
			var lbl string
			switch f.region {
			case 0:
				m.srcIA ^= uint64(mask) << (8 * (7 - f.byteIdx))
				lbl = "flip_ia"
			case 1:
				m.dstIA ^= uint64(mask) << (8 * (7 - f.byteIdx))
				lbl = "flip_ia"
			case 2:
				m.rawSrc[f.byteIdx] ^= mask
				lbl = "flip_addr"
			case 3:
				m.rawDst[f.byteIdx] ^= mask
				lbl = "flip_addr"
			case 4:
				lbl = "flip_l4hdr"
				if c.udp {
					v := uint32(c.sport)<<16 | uint32(c.dport)
					v ^= uint32(mask) << (8 * (3 - f.byteIdx))
					m.sport, m.dport = uint16(v>>16), uint16(v)
					fu[f.byteIdx] ^= mask
				} else {
					if f.byteIdx >= 2 {
						continue // bytes 2,3 of SCMP are the checksum itself
					}
					if f.byteIdx == 0 {
						m.scmpType ^= mask
					} else {
						m.scmpCode ^= mask
					}
					fu[f.byteIdx] ^= mask
				}
			case 5:
				m.payload[f.byteIdx] ^= mask
				fu[hdr+f.byteIdx] ^= mask
				lbl = "flip_payload"
				if f.byteIdx == len(c.payload)-1 && len(upper)%2 == 1 {
					rec.Label("flip_tailbyte")
				}
			}
			// (i) the corrupted datagram no longer verifies
			if got := refPseudoSum(m.srcIA, m.dstIA, m.rawSrc, m.rawDst, c.proto(), fu); got == 0xffff {
				rt.Fatalf("flip region %d byte %d bit %d left the sum at 0xFFFF", f.region, f.byteIdx, f.bit)
			}
			// (ii) the implementation's checksum depends on the flipped bit
			mu, err := m.serialize()
			if err != nil {
				rt.Fatalf("serialize flipped: %v", err)
			}
			mc := uint16(mu[off])<<8 | uint16(mu[off+1])
			if mc == origCsum {
				// 0x0000 and 0xFFFF are the same value in one's complement arithmetic; a flip can
				// legitimately map one onto the other only if the checksum field differs, so equal
				// fields mean the flipped bit is not covered.
				rt.Fatalf("checksum %04x unchanged after flipping region %d byte %d bit %d (len %d, udp=%v): bit not covered",
					origCsum, f.region, f.byteIdx, f.bit, len(upper), c.udp)
			}
			if got := refPseudoSum(m.srcIA, m.dstIA, m.rawSrc, m.rawDst, c.proto(), mu); got != 0xffff {
				rt.Fatalf("flipped value serializes with a checksum that does not verify (%04x)", got)
			}
			rec.Label(lbl)
		}
		rec.Eval(len(flips))
		nt := len(upper)%2 == 1 || c.srcT != slayers.T4Ip || c.dstT != slayers.T4Ip
		rec.Case(nt, fmt.Sprintf("%x|%x|%x|%x|%v|%x", c.srcIA, c.dstIA, c.rawSrc, c.rawDst, c.udp, upper[:min(len(upper), 40)]), labels...)
		rec.Sample(func() any {
			return map[string]any{"src_ia": fmt.Sprintf("%x", c.srcIA), "dst_ia": fmt.Sprintf("%x", c.dstIA), "src": fmt.Sprintf("%x", c.rawSrc),
				"dst": fmt.Sprintf("%x", c.rawDst), "udp": c.udp, "upper_len": len(upper), "checksum": fmt.Sprintf("%04x", origCsum), "flips": len(flips)}
		})
	})
}
