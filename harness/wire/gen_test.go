package wire

import (
	"pgregory.net/rapid"

	"github.com/scionproto/scion/pkg/addr"
	"github.com/scionproto/scion/pkg/slayers"
	"github.com/scionproto/scion/pkg/slayers/path"
	"github.com/scionproto/scion/pkg/slayers/path/empty"
	"github.com/scionproto/scion/pkg/slayers/path/epic"
	"github.com/scionproto/scion/pkg/slayers/path/onehop"
	"github.com/scionproto/scion/pkg/slayers/path/scion"
)

// hdrSpec is a generated SCION header value with one of the four path types.
type hdrSpec struct {
	s    slayers.SCION
	kind string // "empty", "scion", "onehop", "epic"
	dec  *scion.Decoded
	ohp  *onehop.Path
	ep   *epic.Path
}

func genDecodedPath(rt *rapid.T, maxSeg int) *scion.Decoded {
	nseg := rapid.IntRange(1, 3).Draw(rt, "nseg")
	d := &scion.Decoded{}
	for i := 0; i < nseg; i++ {
		l := rapid.IntRange(1, maxSeg).Draw(rt, "seglen")
		d.PathMeta.SegLen[i] = uint8(l)
		d.InfoFields = append(d.InfoFields, genInfo(rt))
		for j := 0; j < l; j++ {
			d.HopFields = append(d.HopFields, genHop(rt))
		}
	}
	d.NumINF, d.NumHops = nseg, len(d.HopFields)
	d.PathMeta.CurrHF = uint8(rapid.IntRange(0, d.NumHops-1).Draw(rt, "currhf"))
	// CurrINF consistent with CurrHF in most cases, arbitrary otherwise (the codecs do not care)
	if rapid.IntRange(0, 4).Draw(rt, "infconsistent") != 0 {
		h, inf := int(d.PathMeta.CurrHF), 0
		for h >= int(d.PathMeta.SegLen[inf]) {
			h -= int(d.PathMeta.SegLen[inf])
			inf++
		}
		d.PathMeta.CurrINF = uint8(inf)
	} else {
		d.PathMeta.CurrINF = uint8(rapid.IntRange(0, nseg-1).Draw(rt, "currinf"))
	}
	return d
}

var addrTypes = []slayers.AddrType{slayers.T4Ip, slayers.T16Ip, slayers.T4Svc}

func genHdr(rt *rapid.T) *hdrSpec {
	p := &hdrSpec{}
	p.s = slayers.SCION{
		Version:      0,
		TrafficClass: rapid.Uint8().Draw(rt, "tc"),
		FlowID:       rapid.Uint32Range(0, 0xfffff).Draw(rt, "flow"),
		NextHdr:      slayers.L4UDP,
		DstIA:        addr.IA(rapid.Uint64().Draw(rt, "dstia")),
		SrcIA:        addr.IA(rapid.Uint64().Draw(rt, "srcia")),
	}
	p.s.DstAddrType = rapid.SampledFrom(addrTypes).Draw(rt, "dt")
	p.s.SrcAddrType = rapid.SampledFrom(addrTypes).Draw(rt, "st")
	p.s.RawDstAddr = rapid.SliceOfN(rapid.Byte(), p.s.DstAddrType.Length(), p.s.DstAddrType.Length()).Draw(rt, "dst")
	p.s.RawSrcAddr = rapid.SliceOfN(rapid.Byte(), p.s.SrcAddrType.Length(), p.s.SrcAddrType.Length()).Draw(rt, "src")
	switch rapid.IntRange(0, 3).Draw(rt, "ptype") {
	case 0:
		p.kind = "empty"
		p.s.PathType, p.s.Path = empty.PathType, empty.Path{}
	case 1:
		p.kind = "scion"
		p.dec = genDecodedPath(rt, 4)
		p.s.PathType, p.s.Path = scion.PathType, p.dec
	case 2:
		p.kind = "onehop"
		p.ohp = &onehop.Path{Info: path.InfoField{ConsDir: true, SegID: rapid.Uint16().Draw(rt, "segid"),
			Timestamp: rapid.Uint32().Draw(rt, "ts")}, FirstHop: genHop(rt), SecondHop: genHop(rt)}
		p.s.PathType, p.s.Path = onehop.PathType, p.ohp
	case 3:
		p.kind = "epic"
		p.dec = genDecodedPath(rt, 4)
		p.ep = &epic.Path{PktID: epic.PktID{Timestamp: rapid.Uint32().Draw(rt, "ets"), Counter: rapid.Uint32().Draw(rt, "ctr")},
			PHVF: rapid.SliceOfN(rapid.Byte(), 4, 4).Draw(rt, "phvf"), LHVF: rapid.SliceOfN(rapid.Byte(), 4, 4).Draw(rt, "lhvf")}
		p.syncEpic(rt)
		p.s.PathType, p.s.Path = epic.PathType, p.ep
	}
	return p
}

// syncEpic rebuilds the raw SCION path embedded in the EPIC path from the decoded form.
func (p *hdrSpec) syncEpic(rt interface{ Fatalf(string, ...any) }) {
	if p.ep == nil {
		return
	}
	raw, err := p.dec.ToRaw()
	if err != nil {
		rt.Fatalf("ToRaw: %v", err)
	}
	p.ep.ScionPath = raw
}

func addrIA(v uint64) addr.IA { return addr.IA(v) }
