package wire

import (
	"bytes"
	"encoding/binary"
	"encoding/json"
	"fmt"
	"os"
	"path/filepath"
	"reflect"
	"runtime"
	"sync"
	"sync/atomic"
	"testing"
	"time"

	"pgregory.net/rapid"

	"github.com/scionproto/scion/pkg/slayers/path"
	"github.com/scionproto/scion/pkg/slayers/path/scion"

	"verif/internal/evid"
)

// ---------------------------------------------------------------------------------------------
// C19 — path pointer arithmetic for every path shape.
//
// Part A sweeps the 2^26 projections (CurrINF 2b, CurrHF 6b, SegLen 3x6b) of the 32-bit meta
// header against a reference model written from doc/protocols/scion-header.rst: quick tier = a
// boundary grid plus a seed-dependent 1/16 stride; thorough tier = the complete space.
// Part B (rapid) samples hop and info field contents for accepted shapes and checks reversal and
// the raw/decoded representations against a reference reversal.
// ---------------------------------------------------------------------------------------------

// refMeta is the reference model of one meta header.
type refMeta struct {
	currINF, currHF int
	seg             [3]int
}

func (m refMeta) total() int { return m.seg[0] + m.seg[1] + m.seg[2] }
func (m refMeta) numINF() int {
	n := 0
	for _, s := range m.seg {
		if s > 0 {
			n++
		}
	}
	return n
}

// accepted: the non-empty segments form a prefix and there are at most 64 hops in total.
func (m refMeta) accepted() bool {
	if m.seg[0] == 0 && (m.seg[1] > 0 || m.seg[2] > 0) {
		return false
	}
	if m.seg[1] == 0 && m.seg[2] > 0 {
		return false
	}
	return m.total() <= 64
}

func (m refMeta) infOf(h int) int {
	switch {
	case h < m.seg[0]:
		return 0
	case h < m.seg[0]+m.seg[1]:
		return 1
	default:
		return 2
	}
}

func metaLine(m refMeta) uint32 {
	return uint32(m.currINF)<<30 | uint32(m.currHF)<<24 | uint32(m.seg[0])<<12 | uint32(m.seg[1])<<6 | uint32(m.seg[2])
}

func metaFromIndex(v uint32) refMeta {
	return refMeta{currINF: int(v >> 24 & 3), currHF: int(v >> 18 & 63),
		seg: [3]int{int(v >> 12 & 63), int(v >> 6 & 63), int(v & 63)}}
}

// checkMeta compares the implementation with the reference for one meta header. It returns a
// description of the first disagreement, or "".
func checkMeta(m refMeta) (msg string, accepted, pointerInside bool) {
	var raw [4]byte
	binary.BigEndian.PutUint32(raw[:], metaLine(m))
	var b scion.Base
	err := b.DecodeFromBytes(raw[:])
	total := m.total()
	if total == 0 {
		// zero segments: the statement does not say whether this is a shape; not asserted.
		return "", false, false
	}
	if (err == nil) != m.accepted() {
		return fmt.Sprintf("decode accepted=%v, reference accepted=%v", err == nil, m.accepted()), false, false
	}
	if err != nil {
		return "", false, false
	}
	if b.NumINF != m.numINF() || b.NumHops != total {
		return fmt.Sprintf("NumINF/NumHops = %d/%d, reference %d/%d", b.NumINF, b.NumHops, m.numINF(), total), true, false
	}
	if int(b.PathMeta.CurrINF) != m.currINF || int(b.PathMeta.CurrHF) != m.currHF ||
		int(b.PathMeta.SegLen[0]) != m.seg[0] || int(b.PathMeta.SegLen[1]) != m.seg[1] || int(b.PathMeta.SegLen[2]) != m.seg[2] {
		return fmt.Sprintf("decoded fields %+v differ from the bits", b.PathMeta), true, false
	}
	var back [4]byte
	if err := b.PathMeta.SerializeTo(back[:]); err != nil || back != raw {
		return fmt.Sprintf("meta header does not re-serialize: %x -> %x (%v)", raw, back, err), true, false
	}
	if b.Len() != 4+8*m.numINF()+12*total {
		return fmt.Sprintf("Len() = %d", b.Len()), true, false
	}
	if m.currHF >= total {
		return "", true, false // pointer outside the path: only decoding is asserted
	}
	r := scion.Raw{Base: b}
	match := m.currINF == m.infOf(m.currHF)
	if r.CurrINFMatchesCurrHF() != match {
		return fmt.Sprintf("CurrINFMatchesCurrHF = %v, reference %v", r.CurrINFMatchesCurrHF(), match), true, true
	}
	h := m.currHF
	if !match {
		// an info pointer that does not designate the segment of the current hop: advancing still moves
		// to the next hop and to the segment that contains it
		c := b
		if err := c.IncPath(); h < total-1 && (err != nil || int(c.PathMeta.CurrHF) != h+1 || int(c.PathMeta.CurrINF) != m.infOf(h+1)) {
			return fmt.Sprintf("IncPath from an info pointer outside the current hop's segment: err=%v meta=%+v, reference hop %d info %d", err, c.PathMeta, h+1, m.infOf(h+1)), true, true
		} else if h == total-1 && (err == nil || c.PathMeta != b.PathMeta) {
			return fmt.Sprintf("IncPath at the last hop: err=%v meta=%+v", err, c.PathMeta), true, true
		}
		return "", true, false
	}
	lastOfSeg := h+1 == total || m.infOf(h+1) != m.infOf(h)
	firstOfSeg := h == 0 || m.infOf(h-1) != m.infOf(h)
	if b.IsXover() != (lastOfSeg && h+1 < total) {
		return fmt.Sprintf("IsXover = %v, reference %v", b.IsXover(), lastOfSeg && h+1 < total), true, true
	}
	if b.IsFirstHopAfterXover() != (firstOfSeg && h > 0) {
		return fmt.Sprintf("IsFirstHopAfterXover = %v, reference %v", b.IsFirstHopAfterXover(), firstOfSeg && h > 0), true, true
	}
	if r.IsFirstHop() != (h == 0) || r.IsLastHop() != (h == total-1) || r.IsPenultimateHop() != (h == total-2) {
		return fmt.Sprintf("IsFirstHop/IsPenultimateHop/IsLastHop = %v/%v/%v at hop %d of %d",
			r.IsFirstHop(), r.IsPenultimateHop(), r.IsLastHop(), h, total), true, true
	}
	c := b
	err = c.IncPath()
	if h == total-1 {
		if err == nil || int(c.PathMeta.CurrHF) != h || int(c.PathMeta.CurrINF) != m.currINF {
			return fmt.Sprintf("IncPath at the last hop: err=%v meta=%+v", err, c.PathMeta), true, true
		}
	} else if err != nil || int(c.PathMeta.CurrHF) != h+1 || int(c.PathMeta.CurrINF) != m.infOf(h+1) {
		return fmt.Sprintf("IncPath: err=%v meta=%+v, reference hop %d info %d", err, c.PathMeta, h+1, m.infOf(h+1)), true, true
	}
	return "", true, true
}

type c19Replay struct {
	Property string  `json:"property"`
	Meta     refMeta `json:"-"`
	CurrINF  int     `json:"curr_inf"`
	CurrHF   int     `json:"curr_hf"`
	SegLen   [3]int  `json:"seg_len"`
	Message  string  `json:"message"`
}

func writeReplay(id string, v any) string {
	dir := os.Getenv("VERIF_REPLAY_DIR")
	if dir == "" {
		dir = os.TempDir()
	}
	name := filepath.Join(dir, fmt.Sprintf("%s-%d.json", id, time.Now().UnixNano()))
	b, _ := json.MarshalIndent(v, "", " ")
	_ = os.WriteFile(name, b, 0o644)
	fmt.Printf("VERIF-REPLAY-FILE: %s\n", name)
	return name
}

func TestC19(t *testing.T) {
	rec := evid.New("C19", "Part A: meta headers enumerated over the 2+6+6+6+6-bit projection (thorough: all 2^26; quick: boundary grid "+
		"SegLen in {0,1,2,3,31,32,33,62,63} x all CurrINF x all CurrHF plus a seed-dependent 1/16 stride), each compared with a reference model "+
		"(accept/reject, NumINF/NumHops, CurrINF-vs-CurrHF, cross-over, first-after-cross-over, first/penultimate/last, IncPath). "+
		"Part B: rapid-sampled field contents for accepted shapes: serialize/decode, raw<->decoded, Reverse vs reference reversal, Reverse twice. "+
		"Non-trivial: accepted shape with >= 2 segments and the pointer inside the path.")
	defer rec.Flush(t)
	rec.Assume("reference model (refMeta, 40 lines) transcribed from doc/protocols/scion-header.rst; the all-zero meta header is not asserted either way",
		"hop and info field contents are sampled, not enumerated")
	rec.Require("rejected", "accepted", "pointer_inside", "xover", "partB_3seg", "partB_reverse")

	if f := os.Getenv("VERIF_REPLAY_FILE"); f != "" {
		var r c19Replay
		b, err := os.ReadFile(f)
		if err != nil || json.Unmarshal(b, &r) != nil {
			t.Skipf("cannot read replay file %s", f)
		}
		m := refMeta{currINF: r.CurrINF, currHF: r.CurrHF, seg: r.SegLen}
		msg, _, _ := checkMeta(m)
		rec.Case(true, fmt.Sprint(m), "replay")
		rec.Distinct("replay2")
		rec.Sample(func() any { return r })
		if msg != "" {
			t.Fatalf("replay %+v: %s", m, msg)
		}
		return
	}

	// ---- Part A
	workers := runtime.NumCPU()
	exhaustive := evid.Thorough()
	stride := uint32(16)
	offset := uint32(evid.Seed()) % stride
	grid := []int{0, 1, 2, 3, 31, 32, 33, 62, 63}
	var wg sync.WaitGroup
	var nEval, nAcc, nRej, nInside, nNT, nXover atomic.Int64
	var failMu sync.Mutex
	var firstFail *c19Replay
	report := func(m refMeta, msg string) {
		failMu.Lock()
		if firstFail == nil || metaLine(m) < metaLine(firstFail.Meta) {
			firstFail = &c19Replay{Property: "C19", Meta: m, CurrINF: m.currINF, CurrHF: m.currHF, SegLen: m.seg, Message: msg}
		}
		failMu.Unlock()
	}
	one := func(m refMeta) {
		msg, acc, inside := checkMeta(m)
		nEval.Add(1)
		if m.total() > 0 {
			if acc {
				nAcc.Add(1)
			} else {
				nRej.Add(1)
			}
		}
		if inside {
			nInside.Add(1)
			if m.numINF() >= 2 {
				nNT.Add(1)
			}
			h := m.currHF
			if h+1 < m.total() && m.infOf(h+1) != m.infOf(h) {
				nXover.Add(1)
			}
		}
		if msg != "" {
			report(m, msg)
		}
	}
	for w := 0; w < workers; w++ {
		wg.Add(1)
		go func(w int) {
			defer wg.Done()
			if exhaustive {
				for v := uint32(w); v < 1<<26; v += uint32(workers) {
					one(metaFromIndex(v))
				}
				return
			}
			for v := uint32(w)*stride + offset; v < 1<<26; v += uint32(workers) * stride {
				one(metaFromIndex(v))
			}
		}(w)
	}
	wg.Wait()
	if !exhaustive {
		for _, a := range grid {
			for _, b := range grid {
				for _, c := range grid {
					for inf := 0; inf < 4; inf++ {
						for hf := 0; hf < 64; hf++ {
							one(refMeta{currINF: inf, currHF: hf, seg: [3]int{a, b, c}})
						}
					}
				}
			}
		}
	} else {
		rec.Exhaustive("all 2^26 projections of the path meta header")
	}
	rec.Eval(int(nEval.Load()))
	rec.Label("accepted", int(nAcc.Load()))
	rec.Label("rejected", int(nRej.Load()))
	rec.Label("pointer_inside", int(nInside.Load()))
	rec.Label("xover", int(nXover.Load()))
	rec.Label("partA_nontrivial", int(nNT.Load()))
	rec.Set("partA_meta_headers", nEval.Load())
	// Part A's non-trivial cases are distinct by construction (each meta header is visited at most
	// twice: stride and grid); count them through distinct keys of a bounded sample to keep the
	// fragment small, and report the exact number separately.
	rec.Set("partA_distinct_nontrivial_upper_bound", nNT.Load())
	for i := int64(0); i < min(nNT.Load(), 4096); i++ {
		rec.Distinct(fmt.Sprintf("partA-%d", i))
	}
	rec.Sample(func() any {
		return map[string]any{"part": "A", "example": refMeta{1, 5, [3]int{3, 4, 2}}.String(), "meta_headers": nEval.Load()}
	})
	if firstFail != nil {
		p := writeReplay("C19", firstFail)
		t.Fatalf("meta header CurrINF=%d CurrHF=%d SegLen=%v: %s (replay %s)", firstFail.CurrINF, firstFail.CurrHF, firstFail.SegLen, firstFail.Message, p)
	}

	// ---- Part B
	rapid.Check(t, func(rt *rapid.T) { c19Contents(rt, rec) })
}

func (m refMeta) String() string {
	return fmt.Sprintf("CurrINF=%d CurrHF=%d SegLen=%v", m.currINF, m.currHF, m.seg)
}

func genSegLens(rt *rapid.T) [3]int {
	n := rapid.IntRange(1, 3).Draw(rt, "nseg")
	var seg [3]int
	left := 64
	for i := 0; i < n; i++ {
		maxLen := min(63, left-(n-1-i)) // a segment length is a 6-bit field
		var l int
		switch rapid.IntRange(0, 3).Draw(rt, "lenkind") {
		case 0:
			l = 1
		case 1:
			l = maxLen
		default:
			l = rapid.IntRange(1, min(maxLen, 8)).Draw(rt, "seglen")
		}
		l = max(1, min(l, maxLen))
		seg[i] = l
		left -= l
	}
	return seg
}

func genInfo(rt *rapid.T) path.InfoField {
	return path.InfoField{Peer: rapid.Bool().Draw(rt, "peer"), ConsDir: rapid.Bool().Draw(rt, "consdir"),
		SegID: rapid.Uint16().Draw(rt, "segid"), Timestamp: rapid.Uint32().Draw(rt, "ts")}
}

func genHop(rt *rapid.T) path.HopField {
	h := path.HopField{IngressRouterAlert: rapid.Bool().Draw(rt, "ia"), EgressRouterAlert: rapid.Bool().Draw(rt, "ea"),
		ExpTime: rapid.Uint8().Draw(rt, "exp"), ConsIngress: rapid.Uint16().Draw(rt, "in"), ConsEgress: rapid.Uint16().Draw(rt, "eg")}
	copy(h.Mac[:], rapid.SliceOfN(rapid.Byte(), 6, 6).Draw(rt, "mac"))
	return h
}

func c19Contents(rt *rapid.T, rec *evid.Rec) {
	seg := genSegLens(rt)
	m := refMeta{seg: seg}
	total := m.total()
	m.currHF = rapid.IntRange(0, total-1).Draw(rt, "currhf")
	m.currINF = m.infOf(m.currHF)
	d := &scion.Decoded{}
	d.PathMeta = scion.MetaHdr{CurrINF: uint8(m.currINF), CurrHF: uint8(m.currHF), SegLen: [3]uint8{uint8(seg[0]), uint8(seg[1]), uint8(seg[2])}}
	d.NumINF, d.NumHops = m.numINF(), total
	for i := 0; i < d.NumINF; i++ {
		d.InfoFields = append(d.InfoFields, genInfo(rt))
	}
	for i := 0; i < total; i++ {
		d.HopFields = append(d.HopFields, genHop(rt))
	}
	buf := make([]byte, d.Len())
	if err := d.SerializeTo(buf); err != nil {
		rt.Fatalf("serialize %v: %v", m, err)
	}
	if len(buf) != 4+8*d.NumINF+12*total {
		rt.Fatalf("length %d for %v", len(buf), m)
	}
	// decoded round trip
	var d2 scion.Decoded
	if err := d2.DecodeFromBytes(buf); err != nil {
		rt.Fatalf("decode of serialized path %v: %v", m, err)
	}
	if !reflect.DeepEqual(d2.PathMeta, d.PathMeta) || !reflect.DeepEqual(d2.InfoFields, d.InfoFields) || !reflect.DeepEqual(d2.HopFields, d.HopFields) ||
		d2.NumINF != d.NumINF || d2.NumHops != d.NumHops {
		rt.Fatalf("decoded path differs from the serialized one for %v", m)
	}
	// raw representation agrees
	var r scion.Raw
	if err := r.DecodeFromBytes(append([]byte{}, buf...)); err != nil {
		rt.Fatalf("raw decode %v: %v", m, err)
	}
	for i := 0; i < d.NumINF; i++ {
		inf, err := r.GetInfoField(i)
		if err != nil || inf != d.InfoFields[i] {
			rt.Fatalf("raw info field %d = %+v (%v), decoded %+v", i, inf, err, d.InfoFields[i])
		}
	}
	for i := 0; i < total; i++ {
		hf, err := r.GetHopField(i)
		if err != nil || hf != d.HopFields[i] {
			rt.Fatalf("raw hop field %d = %+v (%v), decoded %+v", i, hf, err, d.HopFields[i])
		}
	}
	if _, err := r.GetInfoField(d.NumINF); err == nil {
		rt.Fatalf("raw info field index %d beyond NumINF accepted", d.NumINF)
	}
	if _, err := r.GetHopField(total); err == nil {
		rt.Fatalf("raw hop field index %d beyond NumHops accepted", total)
	}
	ci, err1 := r.GetCurrentInfoField()
	ch, err2 := r.GetCurrentHopField()
	if err1 != nil || err2 != nil || ci != d.InfoFields[m.currINF] || ch != d.HopFields[m.currHF] {
		rt.Fatalf("current info/hop field of %v: %+v %+v (%v %v)", m, ci, ch, err1, err2)
	}
	dd, err := r.ToDecoded()
	if err != nil || !reflect.DeepEqual(dd.InfoFields, d.InfoFields) || !reflect.DeepEqual(dd.HopFields, d.HopFields) || dd.PathMeta != d.PathMeta {
		rt.Fatalf("Raw.ToDecoded differs for %v (%v)", m, err)
	}
	rr, err := dd.ToRaw()
	if err != nil || !bytes.Equal(rr.Raw, buf) {
		rt.Fatalf("ToRaw(ToDecoded(raw)) differs for %v (%v)", m, err)
	}
	// Raw.IncPath walks to the end and keeps bytes and struct in sync
	walk := scion.Raw{}
	_ = walk.DecodeFromBytes(append([]byte{}, buf...))
	for h := m.currHF; h < total-1; h++ {
		if err := walk.IncPath(); err != nil {
			rt.Fatalf("Raw.IncPath at hop %d of %v: %v", h, m, err)
		}
		var chk scion.Base
		_ = chk.DecodeFromBytes(walk.Raw)
		if int(chk.PathMeta.CurrHF) != h+1 || int(chk.PathMeta.CurrINF) != m.infOf(h+1) {
			rt.Fatalf("Raw.IncPath wrote %+v, reference hop %d info %d", chk.PathMeta, h+1, m.infOf(h+1))
		}
	}
	if err := walk.IncPath(); err == nil {
		rt.Fatalf("Raw.IncPath beyond the last hop of %v succeeded", m)
	}
	if !bytes.Equal(walk.Raw[4:], buf[4:]) {
		rt.Fatalf("Raw.IncPath modified bytes outside the meta header")
	}

	// reference reversal
	n := d.NumINF
	var wantInf []path.InfoField
	var wantSeg [3]uint8
	for i := 0; i < n; i++ {
		x := d.InfoFields[n-1-i]
		x.ConsDir = !x.ConsDir
		wantInf = append(wantInf, x)
		wantSeg[i] = uint8(seg[n-1-i])
	}
	var wantHops []path.HopField
	for i := total - 1; i >= 0; i-- {
		wantHops = append(wantHops, d.HopFields[i])
	}
	wantMeta := scion.MetaHdr{CurrINF: uint8(n - 1 - m.currINF), CurrHF: uint8(total - 1 - m.currHF), SegLen: wantSeg}

	dcopy := &scion.Decoded{Base: d.Base, InfoFields: append([]path.InfoField{}, d.InfoFields...), HopFields: append([]path.HopField{}, d.HopFields...)}
	revP, err := dcopy.Reverse()
	if err != nil {
		rt.Fatalf("Decoded.Reverse %v: %v", m, err)
	}
	rev := revP.(*scion.Decoded)
	if rev.PathMeta != wantMeta || !reflect.DeepEqual(rev.InfoFields, wantInf) || !reflect.DeepEqual(rev.HopFields, wantHops) {
		rt.Fatalf("Decoded.Reverse of %v: meta %+v want %+v; info %+v want %+v", m, rev.PathMeta, wantMeta, rev.InfoFields, wantInf)
	}
	rawCopy := scion.Raw{}
	_ = rawCopy.DecodeFromBytes(append([]byte{}, buf...))
	rawRevP, err := rawCopy.Reverse()
	if err != nil {
		rt.Fatalf("Raw.Reverse %v: %v", m, err)
	}
	rawRev := rawRevP.(*scion.Raw)
	revBytes := make([]byte, rev.Len())
	if err := rev.SerializeTo(revBytes); err != nil {
		rt.Fatalf("serialize reversed: %v", err)
	}
	if !bytes.Equal(rawRev.Raw, revBytes) || rawRev.PathMeta != rev.PathMeta || rawRev.NumINF != rev.NumINF || rawRev.NumHops != rev.NumHops {
		rt.Fatalf("Raw.Reverse and Decoded.Reverse disagree for %v", m)
	}
	// the reversed path is itself a consistent shape
	if msg, acc, _ := checkMeta(refMeta{currINF: int(wantMeta.CurrINF), currHF: int(wantMeta.CurrHF), seg: [3]int{int(wantSeg[0]), int(wantSeg[1]), int(wantSeg[2])}}); msg != "" || !acc {
		rt.Fatalf("reversed meta header of %v inconsistent: %s", m, msg)
	}
	// twice
	back, err := rawRev.Reverse()
	if err != nil || !bytes.Equal(back.(*scion.Raw).Raw, buf) {
		rt.Fatalf("Raw.Reverse twice does not restore %v (%v)", m, err)
	}
	back2, err := rev.Reverse()
	b2 := back2.(*scion.Decoded)
	if err != nil || b2.PathMeta != d.PathMeta || !reflect.DeepEqual(b2.InfoFields, d.InfoFields) || !reflect.DeepEqual(b2.HopFields, d.HopFields) {
		rt.Fatalf("Decoded.Reverse twice does not restore %v (%v)", m, err)
	}
	labels := []string{"partB_reverse", fmt.Sprintf("partB_%dseg", n)}
	rec.Case(n >= 2, fmt.Sprintf("B%x", buf), labels...)
	rec.Sample(func() any { return map[string]any{"part": "B", "meta": m.String(), "path_hex": fmt.Sprintf("%x", buf)} })
}
