package gw

import (
	"bytes"
	"encoding/binary"
	"fmt"
	"sync"
	"testing"
	"testing/synctest"

	"pgregory.net/rapid"

	"github.com/scionproto/scion/gateway/dataplane"

	"verif/internal/evid"
	"verif/internal/findings"
)

// ---------------------------------------------------------------------------------------------
// C41 — gateway encapsulation reproduces the IP packet stream.
// The real frame encoder and the real ingress worker (reassembly) are driven through the verif
// hook. The encoder's blocking Read runs in a goroutine inside a synctest bubble; synctest.Wait()
// means "everything written so far has been framed", which models bursts and trickles
// deterministically.
// (a) loss-free, in order: emitted sequence == valid packets in order, byte-identical; invalid
//     packets never appear. (b) drawn loss/duplication/reordering script over the frames of 1-3
//     interleaved streams: every emitted packet is byte-identical to a sent valid packet.
// ---------------------------------------------------------------------------------------------

type sink struct{ pkts [][]byte }

func (s *sink) Write(b []byte) (int, error) {
	s.pkts = append(s.pkts, append([]byte{}, b...))
	return len(b), nil
}
func (s *sink) Close() error { return nil }

// fill makes packet contents position and packet dependent so that mixing of fragments is visible.
func fill(p []byte, tag int) {
	for j := range p {
		p[j] = byte(j*7+tag*13) ^ byte(j>>8) ^ byte(tag>>3)
	}
}

func ipv4(n, tag int) []byte {
	b := make([]byte, n)
	fill(b, tag)
	b[0] = 0x45
	binary.BigEndian.PutUint16(b[2:4], uint16(n))
	return b
}

func ipv6(n, tag int) []byte {
	b := make([]byte, n)
	fill(b, tag)
	b[0] = 0x60 | b[0]&0x0f
	binary.BigEndian.PutUint16(b[4:6], uint16(n-40))
	return b
}

type genPkt struct {
	data  []byte
	valid bool
	brk   bool // wait for the encoder to drain before the next write (trickle)
}

func genSize(rt *rapid.T, minLen, mtu int) int {
	switch rapid.IntRange(0, 6).Draw(rt, "sizekind") {
	case 0:
		return minLen
	case 1:
		return rapid.IntRange(minLen, minLen+40).Draw(rt, "tiny")
	case 2: // around one frame payload
		return max(minLen, mtu-16+rapid.IntRange(-3, 3).Draw(rt, "aroundframe"))
	case 3: // around two/three frame payloads
		return max(minLen, rapid.IntRange(2, 4).Draw(rt, "k")*(mtu-16)+rapid.IntRange(-2, 2).Draw(rt, "aroundk"))
	case 4:
		return rapid.SampledFrom([]int{1500, 8999, 9000}).Draw(rt, "big")
	default:
		return rapid.IntRange(minLen, 3000).Draw(rt, "len")
	}
}

func genStream(rt *rapid.T, mtu, tagBase int, maxPkts int) []genPkt {
	n := rapid.IntRange(1, maxPkts).Draw(rt, "npkts")
	var out []genPkt
	for i := 0; i < n; i++ {
		tag := tagBase + i
		g := genPkt{valid: true, brk: rapid.IntRange(0, 3).Draw(rt, "break") == 0}
		v6 := rapid.Bool().Draw(rt, "v6")
		kind := rapid.IntRange(0, 11).Draw(rt, "validity")
		switch {
		case kind >= 4:
			if v6 {
				g.data = ipv6(min(genSize(rt, 40, mtu), 9000), tag)
			} else {
				g.data = ipv4(min(genSize(rt, 20, mtu), 9000), tag)
			}
		case kind == 0: // wrong version
			g.data = ipv4(rapid.IntRange(20, 200).Draw(rt, "ilen"), tag)
			g.data[0] = byte(rapid.SampledFrom([]int{0, 1, 3, 5, 7, 15}).Draw(rt, "ver"))<<4 | 5
			g.valid = false
		case kind == 1: // wrong length field
			if v6 {
				g.data = ipv6(rapid.IntRange(40, 300).Draw(rt, "ilen"), tag)
				binary.BigEndian.PutUint16(g.data[4:6], uint16(len(g.data)-40+rapid.SampledFrom([]int{-1, 1, 40, 1000}).Draw(rt, "delta")))
			} else {
				g.data = ipv4(rapid.IntRange(20, 300).Draw(rt, "ilen"), tag)
				binary.BigEndian.PutUint16(g.data[2:4], uint16(len(g.data)+rapid.SampledFrom([]int{-1, 1, 20, 1000}).Draw(rt, "delta")))
			}
			g.valid = false
		case kind == 2: // too short
			if v6 {
				g.data = make([]byte, rapid.IntRange(1, 39).Draw(rt, "short6"))
				g.data[0] = 0x60
			} else {
				g.data = make([]byte, rapid.IntRange(1, 19).Draw(rt, "short4"))
				g.data[0] = 0x45
				if len(g.data) >= 4 {
					binary.BigEndian.PutUint16(g.data[2:4], uint16(len(g.data)))
				}
			}
			g.valid = false
		default: // empty
			g.data = []byte{}
			g.valid = false
		}
		out = append(out, g)
	}
	return out
}

// encode runs the real encoder over the packet list and returns the frames.
func encode(t *testing.T, sess uint8, stream uint32, mtu int, pkts []genPkt) [][]byte {
	var frames [][]byte
	synctest.Test(t, func(t *testing.T) {
		enc := dataplane.NewVerifEncoder(sess, stream, uint16(mtu))
		done := make(chan struct{})
		go func() {
			defer close(done)
			for {
				f := enc.Read()
				if f == nil {
					return
				}
				frames = append(frames, f)
			}
		}()
		for _, p := range pkts {
			enc.Write(p.data)
			if p.brk {
				synctest.Wait()
			}
		}
		synctest.Wait()
		enc.Close()
		<-done
	})
	return frames
}

func genMTU(rt *rapid.T) int {
	switch rapid.IntRange(0, 4).Draw(rt, "mtukind") {
	case 0:
		return dataplane.VerifMinMTU
	case 1:
		return dataplane.VerifMinMTU + rapid.IntRange(0, 30).Draw(rt, "mtusmall")
	case 2:
		return rapid.SampledFrom([]int{100, 128, 256, 576, 1232, 1280, 1472, 1500}).Draw(rt, "mtucommon")
	default:
		return rapid.IntRange(dataplane.VerifMinMTU, 2000).Draw(rt, "mtu")
	}
}

// frameInfo reads the SIG frame header (doc: version, session, index, stream, sequence number).
func frameIndex(f []byte) int { return int(binary.BigEndian.Uint16(f[2:4])) }

const sigReassemblyCap = "C41/reassembly-cap-100"

var (
	capOnce   sync.Once
	capDefect bool
)

// reassemblyCapDefect reports whether the listed defect is present (deterministic probe) and prints
// the KNOWN-FINDING line; if the defect is present but not listed it fails the test.
func reassemblyCapDefect(t *testing.T) bool {
	capOnce.Do(func() {
		pkts := []genPkt{{data: ipv4(9000, 1), valid: true}}
		frames := encode(t, 7, 0x77, dataplane.VerifMinMTU, pkts)
		out := &sink{}
		w := dataplane.NewVerifWorker(7, out)
		defer w.Close() // frames left in reassembly lists go back to the shared pool
		for _, f := range frames {
			w.Feed(f)
		}
		capDefect = !(len(out.pkts) == 1 && bytes.Equal(out.pkts[0], pkts[0].data))
	})
	if !capDefect {
		return false
	}
	if findings.Listed(sigReassemblyCap) {
		findings.Report(sigReassemblyCap)
		return true
	}
	t.Fatalf("a 9000-byte packet sent at the minimum frame size (%d frames, no loss) is not reproduced by the receiver", (9000+40)/41)
	return false
}

// TestC41Probe is the deterministic probe of the listed finding.
func TestC41Probe(t *testing.T) { _ = reassemblyCapDefect(t) }

func TestC41(t *testing.T) {
	rec := evid.New("C41", "rapid: (a) one stream: 1-40 packets (valid IPv4/IPv6 of 20..9000 bytes, sizes boundary-heavy around 1-4 frame payloads; interleaved invalid ones: wrong version, wrong length field, too short, empty), "+
		"frame size from the session minimum upward (boundary-heavy), write bursts vs. trickle -> real encoder -> frames in order -> real ingress worker: emitted == valid packets in order. "+
		"(b) 1-3 streams (distinct stream ids from the whole 20-bit field, differing mostly in one bit), per-frame fault script (drop / duplicate / swap with next / delay by up to 8 positions), streams interleaved: every emitted packet is byte-identical to a sent valid packet of some stream. "+
		"Non-trivial: a packet spanning >= 3 frames, or a fault hitting a frame that carries a fragment.")
	defer rec.Flush(t)
	rec.Assume("encoder and worker are driven through the verif hook exactly as Session/IngressServer drive them (frame buffers from the real pool)", "virtual time via testing/synctest only orders the encoder's blocking reads")
	rec.Require("a_spans3", "a_invalid_skipped", "a_min_mtu", "a_ipv6", "b_drop", "b_dup", "b_swap", "b_delay", "b_multistream", "b_fault_on_fragment", "b_streams_differ_in_high_bits_only")
	t.Run("inorder", func(t *testing.T) {
		rapid.Check(t, func(rt *rapid.T) {
			mtu := genMTU(rt)
			pkts := genStream(rt, mtu, 1, 40)
			frames := encode(t, 7, 0x1234, mtu, pkts)
			out := &sink{}
			w := dataplane.NewVerifWorker(7, out)
			defer w.Close() // frames left in reassembly lists go back to the shared pool
			for i, f := range frames {
				if len(f) > mtu {
					rt.Fatalf("frame %d has %d bytes, frame size is %d", i, len(f), mtu)
				}
				if !w.Feed(f) {
					rt.Fatalf("frame %d rejected by the ingress server's checks", i)
				}
			}
			var want [][]byte
			labels := map[string]bool{}
			for _, p := range pkts {
				if p.valid {
					want = append(want, p.data)
					if len(p.data) > 2*(mtu-16) {
						labels["a_spans3"] = true
					}
					if p.data[0]>>4 == 6 {
						labels["a_ipv6"] = true
					}
				} else {
					labels["a_invalid_skipped"] = true
				}
			}
			if mtu == dataplane.VerifMinMTU {
				labels["a_min_mtu"] = true
			}
			// Known finding C41/reassembly-cap-100: a packet spanning more than 100 frames is never
			// reassembled. Such packets (and only such packets) may be missing from the output.
			tolerate := reassemblyCapDefect(t)
			j := 0
			for i := range want {
				if j < len(out.pkts) && bytes.Equal(want[i], out.pkts[j]) {
					j++
					continue
				}
				if tolerate && len(want[i]) > 98*(mtu-16) {
					rec.Known(sigReassemblyCap)
					labels["a_over_100_frames"] = true
					continue
				}
				got := -1
				if j < len(out.pkts) {
					got = len(out.pkts[j])
				}
				rt.Fatalf("valid packet %d (len %d) not reproduced in order: receiver emitted %d of %d packets, next emitted has len %d (frame size %d, %d frames)",
					i, len(want[i]), len(out.pkts), len(want), got, mtu, len(frames))
			}
			if j != len(out.pkts) {
				rt.Fatalf("receiver emitted %d packets beyond the %d valid ones sent (frame size %d)", len(out.pkts)-j, len(want), mtu)
			}
			var ls []string
			for l := range labels {
				ls = append(ls, l)
			}
			var sizes []int
			for _, p := range pkts {
				sizes = append(sizes, len(p.data))
			}
			rec.Case(labels["a_spans3"], fmt.Sprint("A", mtu, sizes), ls...)
			rec.Sample(func() any {
				return map[string]any{"part": "in-order", "frame_size": mtu, "packet_sizes": sizes, "valid": len(want), "frames": len(frames)}
			})
		})
	})
	t.Run("faults", func(t *testing.T) {
		rapid.Check(t, func(rt *rapid.T) {
			nStreams := rapid.IntRange(1, 3).Draw(rt, "streams")
			sent := map[string]bool{}
			labels := map[string]bool{}
			if nStreams > 1 {
				labels["b_multistream"] = true
			}
			var perStream [][][]byte
			var desc []string
			// stream ids from the whole 20-bit field; the ids of one case differ from the first in a drawn,
			// mostly small, set of bits (ids that share their low or their high bits)
			ids := []uint32{uint32(rapid.IntRange(0, 0xfffff).Draw(rt, "streamID"))}
			for len(ids) < nStreams {
				d := uint32(1) << rapid.IntRange(0, 19).Draw(rt, "streamBit")
				if rapid.IntRange(0, 3).Draw(rt, "moreBits") == 0 {
					d |= uint32(rapid.IntRange(1, 0xfffff).Draw(rt, "streamBits"))
				}
				id, dup := ids[0]^d, false
				for _, x := range ids {
					dup = dup || x == id
				}
				if !dup {
					ids = append(ids, id)
					if id&0xffff == ids[0]&0xffff {
						labels["b_streams_differ_in_high_bits_only"] = true
					}
				}
			}
			for s := 0; s < nStreams; s++ {
				mtu := genMTU(rt)
				if mtu > 600 && rapid.Bool().Draw(rt, "smallmtu") {
					mtu = rapid.IntRange(dataplane.VerifMinMTU, 300).Draw(rt, "mtu300")
				}
				pkts := genStream(rt, mtu, 100*s+1, 20)
				for _, p := range pkts {
					if p.valid {
						sent[string(p.data)] = true
					}
				}
				fr := encode(t, 7, ids[s], mtu, pkts)
				// fault script
				type slot struct {
					f     []byte
					delay int
				}
				var slots []slot
				for i := 0; i < len(fr); i++ {
					carriesFragment := frameIndex(fr[i]) != 0 || (i+1 < len(fr) && frameIndex(fr[i+1]) != 0)
					fault := rapid.IntRange(0, 11).Draw(rt, "fault")
					if fault <= 3 && carriesFragment {
						labels["b_fault_on_fragment"] = true
					}
					switch fault {
					case 0:
						labels["b_drop"] = true
					case 1:
						slots = append(slots, slot{fr[i], 0}, slot{fr[i], 0})
						labels["b_dup"] = true
					case 2:
						if i+1 < len(fr) {
							slots = append(slots, slot{fr[i+1], 0}, slot{fr[i], 0})
							i++
							labels["b_swap"] = true
						} else {
							slots = append(slots, slot{fr[i], 0})
						}
					case 3:
						slots = append(slots, slot{fr[i], rapid.IntRange(2, 8).Draw(rt, "delay")})
						labels["b_delay"] = true
					default:
						slots = append(slots, slot{fr[i], 0})
					}
				}
				// apply delays: a delayed frame moves back by 'delay' positions
				var seq [][]byte
				type pending struct {
					f  []byte
					at int
				}
				var pend []pending
				for i, sl := range slots {
					for j := 0; j < len(pend); j++ {
						if pend[j].at <= i {
							seq = append(seq, pend[j].f)
							pend = append(pend[:j], pend[j+1:]...)
							j--
						}
					}
					if sl.delay > 0 {
						pend = append(pend, pending{sl.f, i + sl.delay})
					} else {
						seq = append(seq, sl.f)
					}
				}
				for _, p := range pend {
					seq = append(seq, p.f)
				}
				perStream = append(perStream, seq)
				desc = append(desc, fmt.Sprintf("stream %d: frame size %d, %d packets, %d frames -> %d delivered", s, mtu, len(pkts), len(fr), len(seq)))
			}
			// interleave the streams
			var all [][]byte
			idx := make([]int, len(perStream))
			for {
				var cand []int
				for s := range perStream {
					if idx[s] < len(perStream[s]) {
						cand = append(cand, s)
					}
				}
				if len(cand) == 0 {
					break
				}
				s := cand[rapid.IntRange(0, len(cand)-1).Draw(rt, "pick")]
				all = append(all, perStream[s][idx[s]])
				idx[s]++
			}
			out := &sink{}
			w := dataplane.NewVerifWorker(7, out)
			defer w.Close() // frames left in reassembly lists go back to the shared pool
			for _, f := range all {
				w.Feed(f)
			}
			for i, p := range out.pkts {
				if !sent[string(p)] {
					rt.Fatalf("emitted packet %d (len %d, first bytes % x) was never sent; %d frames delivered\n%v", i, len(p), p[:min(len(p), 48)], len(all), desc)
				}
			}
			var ls []string
			for l := range labels {
				ls = append(ls, l)
			}
			rec.Case(labels["b_fault_on_fragment"], fmt.Sprint("B", desc, len(out.pkts)), ls...)
			rec.Eval(len(all))
			rec.Sample(func() any { return map[string]any{"part": "faults", "streams": desc, "emitted": len(out.pkts)} })
		})
	})
}
