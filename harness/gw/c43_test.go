package gw

import (
	"encoding/binary"
	"fmt"
	"net"
	"regexp"
	"strings"
	"testing"

	"github.com/gopacket/gopacket"
	"github.com/gopacket/gopacket/layers"
	"pgregory.net/rapid"

	"github.com/scionproto/scion/gateway/pktcls"

	"verif/internal/evid"
)

// ---------------------------------------------------------------------------------------------
// C43 — traffic-class expressions evaluate as written and survive printing.
// Oracle (D): the generated expression tree evaluates itself on the packet's field values
// (addresses, TOS, protocol, ports); the repository parses the rendered text (random keyword case
// and whitespace) and evaluates the decoded packet. (R) String() of the parsed expression parses
// again and evaluates identically on all sampled packets.
// ---------------------------------------------------------------------------------------------

type tcPkt struct {
	src, dst     [4]byte
	tos          uint8
	proto        uint8
	sport, dport uint16
	hasPorts     bool
	raw          []byte
}

type tcNode struct {
	op       string // src dst dscp tos proto sport dport all any not bool
	net      [4]byte
	bits     int
	val      uint8
	name     string
	min, max uint16
	rng      bool
	b        bool
	kids     []*tcNode
}

func inNet(a [4]byte, n [4]byte, bits int) bool {
	x := binary.BigEndian.Uint32(a[:])
	y := binary.BigEndian.Uint32(n[:])
	if bits == 0 {
		return true
	}
	mask := ^uint32(0) << (32 - bits)
	return x&mask == y&mask
}

func (n *tcNode) eval(p *tcPkt) bool {
	switch n.op {
	case "src":
		return inNet(p.src, n.net, n.bits)
	case "dst":
		return inNet(p.dst, n.net, n.bits)
	case "dscp":
		return p.tos>>2 == n.val
	case "tos":
		return p.tos == n.val
	case "proto":
		return p.proto == n.val
	case "sport":
		return p.hasPorts && p.sport >= n.min && p.sport <= n.max
	case "dport":
		return p.hasPorts && p.dport >= n.min && p.dport <= n.max
	case "bool":
		return n.b
	case "not":
		return !n.kids[0].eval(p)
	case "all":
		for _, k := range n.kids {
			if !k.eval(p) {
				return false
			}
		}
		return true
	case "any":
		for _, k := range n.kids {
			if k.eval(p) {
				return true
			}
		}
		return false
	}
	panic(n.op)
}

func (n *tcNode) depth() int {
	d := 0
	for _, k := range n.kids {
		d = max(d, k.depth())
	}
	return d + 1
}

func (n *tcNode) render(kw func(string) string, ws func() string) string {
	switch n.op {
	case "src", "dst":
		return fmt.Sprintf("%s%s=%s%d.%d.%d.%d/%d", kw(n.op), ws(), ws(), n.net[0], n.net[1], n.net[2], n.net[3], n.bits)
	case "dscp", "tos":
		return fmt.Sprintf("%s%s=0x%s%s", kw(n.op), ws(), ws(), n.name)
	case "proto":
		return fmt.Sprintf("%s%s=%s%s", kw("protocol"), ws(), ws(), n.name)
	case "sport", "dport":
		k := map[string]string{"sport": "srcport", "dport": "dstport"}[n.op]
		if n.rng {
			return fmt.Sprintf("%s%s=%s%d%s-%s%d", kw(k), ws(), ws(), n.min, ws(), ws(), n.max)
		}
		return fmt.Sprintf("%s%s=%s%d", kw(k), ws(), ws(), n.min)
	case "bool":
		return fmt.Sprintf("%s%s=%s%t", kw("bool"), ws(), ws(), n.b)
	case "not":
		return fmt.Sprintf("%s%s(%s%s%s)", kw("not"), ws(), ws(), n.kids[0].render(kw, ws), ws())
	default:
		var parts []string
		for _, k := range n.kids {
			parts = append(parts, ws()+k.render(kw, ws)+ws())
		}
		return fmt.Sprintf("%s%s(%s)", kw(n.op), ws(), strings.Join(parts, ","))
	}
}

var tcAddrs = [][4]byte{{10, 0, 0, 1}, {10, 0, 0, 255}, {10, 0, 1, 0}, {10, 1, 2, 3}, {10, 255, 255, 255}, {11, 0, 0, 0}, {192, 168, 1, 1}, {192, 168, 1, 128}, {192, 168, 2, 1}, {0, 0, 0, 0}, {255, 255, 255, 255}, {172, 16, 5, 4}}
var tcPorts = []uint16{0, 1, 79, 80, 81, 443, 1023, 1024, 1025, 30041, 65534, 65535}

var alphaRe = regexp.MustCompile(`^[a-zA-Z]+$`)
var hexOnlyRe = regexp.MustCompile(`^[a-fA-F]+$`)

// protocol names the grammar can express: purely alphabetic, not all-hex letters, not a keyword.
func tcProtocols() (names []string, nums []uint8) {
	kw := map[string]bool{"ANY": true, "ALL": true, "NOT": true, "BOOL": true, "SRC": true, "DST": true, "DSCP": true, "TOS": true, "PROTOCOL": true, "SRCPORT": true, "DSTPORT": true}
	seen := map[string]bool{}
	for num, meta := range layers.IPProtocolMetadata {
		n := meta.Name
		if n == "" || !alphaRe.MatchString(n) || hexOnlyRe.MatchString(n) || kw[strings.ToUpper(n)] || seen[strings.ToUpper(n)] {
			continue
		}
		seen[strings.ToUpper(n)] = true
		names = append(names, n)
		nums = append(nums, uint8(num))
	}
	return
}

func genTCNode(rt *rapid.T, depth int, names []string, nums []uint8) *tcNode {
	k := rapid.IntRange(0, 19).Draw(rt, "kind")
	if depth <= 1 && k >= 10 {
		k = rapid.IntRange(0, 9).Draw(rt, "leaf")
	}
	if k >= 13 {
		k = 11 + k%2 // all / any
	} else if k >= 10 {
		k = 10 // not
	}
	switch k {
	case 0, 1:
		n := &tcNode{op: []string{"src", "dst"}[k]}
		n.net = rapid.SampledFrom(tcAddrs).Draw(rt, "net")
		n.bits = rapid.SampledFrom([]int{0, 1, 8, 16, 23, 24, 25, 31, 32}).Draw(rt, "bits")
		return n
	case 2, 3:
		n := &tcNode{op: []string{"dscp", "tos"}[k-2]}
		n.val = rapid.SampledFrom([]uint8{0, 1, 2, 0x0a, 0x10, 0x2e, 0x3f, 0x40, 0xb8, 0xff}).Draw(rt, "val")
		n.name = fmt.Sprintf("%x", n.val)
		if rapid.Bool().Draw(rt, "upperhex") {
			n.name = strings.ToUpper(n.name)
		}
		return n
	case 4:
		i := rapid.IntRange(0, len(names)-1).Draw(rt, "proto")
		if rapid.Bool().Draw(rt, "common") {
			for j, nm := range names {
				if nm == []string{"TCP", "UDP"}[rapid.IntRange(0, 1).Draw(rt, "tcpudp")] {
					i = j
				}
			}
		}
		nm := names[i]
		switch rapid.IntRange(0, 2).Draw(rt, "case") {
		case 0:
			nm = strings.ToLower(nm)
		case 1:
			nm = strings.ToUpper(nm)
		}
		// lower/upper-casing may produce a keyword or an all-hex word: keep the original then
		if hexOnlyRe.MatchString(nm) {
			nm = names[i]
		}
		return &tcNode{op: "proto", val: nums[i], name: nm}
	case 5, 6, 7, 8:
		n := &tcNode{op: []string{"sport", "dport"}[k%2]}
		n.min = rapid.SampledFrom(tcPorts).Draw(rt, "pmin")
		n.max = n.min
		if rapid.Bool().Draw(rt, "range") {
			n.rng = true
			n.max = rapid.SampledFrom(tcPorts).Draw(rt, "pmax")
		}
		return n
	case 9:
		return &tcNode{op: "bool", b: rapid.Bool().Draw(rt, "b")}
	case 10:
		return &tcNode{op: "not", kids: []*tcNode{genTCNode(rt, depth-1, names, nums)}}
	default:
		n := &tcNode{op: []string{"all", "any"}[k%2]}
		for i := rapid.IntRange(1, 3).Draw(rt, "nkids"); i > 0; i-- {
			n.kids = append(n.kids, genTCNode(rt, depth-1, names, nums))
		}
		return n
	}
}

func genTCPkt(rt *rapid.T, nums []uint8) *tcPkt {
	p := &tcPkt{src: rapid.SampledFrom(tcAddrs).Draw(rt, "psrc"), dst: rapid.SampledFrom(tcAddrs).Draw(rt, "pdst"),
		tos: rapid.SampledFrom([]uint8{0, 1, 2, 4, 0x28, 0x29, 0x40, 0xb8, 0xb9, 0xfc, 0xff}).Draw(rt, "ptos")}
	if rapid.Bool().Draw(rt, "randtos") {
		p.tos = rapid.Uint8().Draw(rt, "ptos8")
	}
	var l4 []byte
	switch rapid.IntRange(0, 3).Draw(rt, "l4") {
	case 0:
		p.proto, p.hasPorts = 17, true
		p.sport, p.dport = rapid.SampledFrom(tcPorts).Draw(rt, "psp"), rapid.SampledFrom(tcPorts).Draw(rt, "pdp")
		l4 = make([]byte, 8+rapid.IntRange(0, 12).Draw(rt, "udppld"))
		binary.BigEndian.PutUint16(l4[0:], p.sport)
		binary.BigEndian.PutUint16(l4[2:], p.dport)
		binary.BigEndian.PutUint16(l4[4:], uint16(len(l4)))
	case 1:
		p.proto, p.hasPorts = 6, true
		p.sport, p.dport = rapid.SampledFrom(tcPorts).Draw(rt, "psp"), rapid.SampledFrom(tcPorts).Draw(rt, "pdp")
		l4 = make([]byte, 20+rapid.IntRange(0, 12).Draw(rt, "tcppld"))
		binary.BigEndian.PutUint16(l4[0:], p.sport)
		binary.BigEndian.PutUint16(l4[2:], p.dport)
		l4[12] = 5 << 4
	default:
		p.proto = nums[rapid.IntRange(0, len(nums)-1).Draw(rt, "pproto")]
		if p.proto == 6 || p.proto == 17 {
			p.proto = 47
		}
		l4 = rapid.SliceOfN(rapid.Byte(), 0, 24).Draw(rt, "otherpld")
	}
	raw := make([]byte, 20+len(l4))
	raw[0] = 0x45
	raw[1] = p.tos
	binary.BigEndian.PutUint16(raw[2:], uint16(len(raw)))
	raw[8] = 64
	raw[9] = p.proto
	copy(raw[12:16], p.src[:])
	copy(raw[16:20], p.dst[:])
	copy(raw[20:], l4)
	p.raw = raw
	return p
}

func decodeIPv4(raw []byte) (*layers.IPv4, error) {
	pkt := gopacket.NewPacket(raw, layers.LayerTypeIPv4, gopacket.DecodeOptions{NoCopy: true, Lazy: true})
	ip, ok := pkt.NetworkLayer().(*layers.IPv4)
	if !ok || ip == nil {
		return nil, fmt.Errorf("not IPv4: %v", pkt.ErrorLayer())
	}
	return ip, nil
}

func TestC43(t *testing.T) {
	names, nums := tcProtocols()
	rec := evid.New("C43", "rapid: expression trees to depth 4 over src/dst networks (prefix lengths 0..32), dscp, tos, protocol names the grammar can express, single ports and port ranges (boundary ports), "+
		"bool, all/any/not; rendered with random keyword case, hex case and whitespace; 20 IPv4 packets each (UDP/TCP with boundary ports, other protocols, boundary addresses and TOS values). "+
		"BuildClassTree(text).Eval(packet) vs the tree's own evaluation; BuildClassTree(parsed.String()) evaluates identically. Non-trivial: tree of depth >= 3 containing not or any, true on some and false on other sampled packets.")
	defer rec.Flush(t)
	rec.Assume("a packet without a decodable UDP/TCP header satisfies no port predicate", "IPv4 fragments and truncated L4 headers are not generated",
		fmt.Sprintf("%d protocol names are expressible in the grammar (purely alphabetic, not all hex letters)", len(names)))
	rec.Require("op_not", "op_any", "op_all", "leaf_src", "leaf_dscp", "leaf_tos", "leaf_proto", "leaf_sport", "leaf_dport", "mixed_truth", "depth4")
	rapid.Check(t, func(rt *rapid.T) {
		n := genTCNode(rt, 4, names, nums)
		kw := func(s string) string {
			if rapid.Bool().Draw(rt, "kwupper") {
				return strings.ToUpper(s)
			}
			return s
		}
		ws := func() string { return rapid.SampledFrom([]string{"", "", "", " ", "  ", "\t", "\n"}).Draw(rt, "ws") }
		text := n.render(kw, ws)
		cond, err := pktcls.BuildClassTree(text)
		if err != nil {
			rt.Fatalf("expression rejected: %q: %v", text, err)
		}
		printed := cond.String()
		cond2, err := pktcls.BuildClassTree(printed)
		if err != nil {
			rt.Fatalf("printed form %q of %q does not parse: %v", printed, text, err)
		}
		if err := pktcls.ValidateTrafficClass(text); err != nil {
			rt.Fatalf("ValidateTrafficClass rejects %q: %v", text, err)
		}
		labels := map[string]bool{}
		var walk func(*tcNode)
		walk = func(x *tcNode) {
			switch x.op {
			case "not", "any", "all":
				labels["op_"+x.op] = true
			default:
				labels["leaf_"+x.op] = true
			}
			for _, k := range x.kids {
				walk(k)
			}
		}
		walk(n)
		trues := 0
		for i := 0; i < 20; i++ {
			p := genTCPkt(rt, nums)
			ip, err := decodeIPv4(p.raw)
			if err != nil {
				rt.Fatalf("harness: %v", err)
			}
			want := n.eval(p)
			if got := cond.Eval(ip); got != want {
				rt.Fatalf("expression %q on packet src=%v dst=%v tos=%#x proto=%d ports=%d->%d(has=%v): evaluates to %v, expression value is %v",
					text, net.IP(p.src[:]), net.IP(p.dst[:]), p.tos, p.proto, p.sport, p.dport, p.hasPorts, got, want)
			}
			if got := cond2.Eval(ip); got != want {
				rt.Fatalf("printed form %q of %q evaluates to %v on packet src=%v dst=%v tos=%#x proto=%d ports=%d->%d, original %v",
					printed, text, got, net.IP(p.src[:]), net.IP(p.dst[:]), p.tos, p.proto, p.sport, p.dport, want)
			}
			if want {
				trues++
			}
		}
		rec.Eval(19)
		if trues > 0 && trues < 20 {
			labels["mixed_truth"] = true
		}
		if n.depth() >= 4 {
			labels["depth4"] = true
		}
		var ls []string
		for l := range labels {
			ls = append(ls, l)
		}
		nt := n.depth() >= 3 && (labels["op_not"] || labels["op_any"]) && labels["mixed_truth"]
		rec.Case(nt, text, ls...)
		rec.Sample(func() any { return map[string]any{"expression": text, "printed": printed, "true_on": trues, "of": 20} })
	})
}
