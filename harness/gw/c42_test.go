package gw

import (
	"context"
	"encoding/binary"
	"fmt"
	"io"
	"net"
	"net/netip"
	"strings"
	"sync"
	"testing"

	"github.com/gopacket/gopacket/layers"

	"github.com/gopacket/gopacket"
	"pgregory.net/rapid"

	"github.com/scionproto/scion/gateway/control"
	"github.com/scionproto/scion/gateway/dataplane"
	"github.com/scionproto/scion/gateway/pktcls"
	"github.com/scionproto/scion/gateway/routing"
	"github.com/scionproto/scion/pkg/addr"
	"github.com/scionproto/scion/pkg/private/common"

	"verif/internal/evid"
	"verif/internal/findings"
)

// ---------------------------------------------------------------------------------------------
// C42 — gateway routing picks the most specific prefix and applies policies in order.
// (a) real RoutingTable + real IPForwarder over an in-memory packet reader with recording
//     sessions; reference: longest prefix containing the destination, first traffic class (in chain
//     order) that is true on the packet, its session or drop; IPv4 fragments and garbage dropped.
// (b) routing.Policy parsed from text; reference: first accept/reject rule matching ISD-AS pair and
//     address, else default; evaluated at every prefix boundary +-1 and inside the queried prefix;
//     MarshalText -> UnmarshalText preserves decisions and AdvertiseList.
// ---------------------------------------------------------------------------------------------

type recSession struct {
	id   int
	pkts *[]string
}

func (s recSession) Write(p gopacket.Packet) {
	*s.pkts = append(*s.pkts, fmt.Sprintf("s%d:%x", s.id, p.Data()))
}

type listReader struct {
	pkts [][]byte
	i    int
}

func (r *listReader) Read(b []byte) (int, error) {
	if r.i >= len(r.pkts) {
		return 0, io.EOF
	}
	n := copy(b, r.pkts[r.i])
	r.i++
	return n, nil
}

var c42v4 = []string{"0.0.0.0/0", "10.0.0.0/8", "10.1.0.0/16", "10.1.2.0/24", "10.1.2.128/25", "10.1.2.3/32", "192.168.0.0/16", "192.168.1.0/24", "172.16.0.0/12", "11.0.0.0/8"}
var c42v6 = []string{"::/0", "2001:db8::/32", "2001:db8:1::/48", "2001:db8:1:2::/64", "fd00::/8"}

func ipv6Raw(src, dst netip.Addr, payload []byte) []byte {
	b := make([]byte, 40+len(payload))
	b[0] = 0x60
	binary.BigEndian.PutUint16(b[4:], uint16(len(payload)))
	b[6] = 59 // no next header
	b[7] = 64
	s, d := src.As16(), dst.As16()
	copy(b[8:24], s[:])
	copy(b[24:40], d[:])
	copy(b[40:], payload)
	return b
}

func routingTableCase(rt *rapid.T, rec *evid.Rec, names []string, nums []uint8) {
	// chains with distinct prefixes
	pool := append(append([]string{}, c42v4...), c42v6...)
	perm := rapid.Permutation(pool).Draw(rt, "prefixes")
	nChains := rapid.IntRange(1, 3).Draw(rt, "chains")
	type matcher struct {
		id   int
		tree *tcNode
	}
	type chain struct {
		prefixes []netip.Prefix
		matchers []matcher
	}
	var chains []chain
	var rc []*control.RoutingChain
	nextID := 1
	pi := 0
	allIDs := []int{}
	for c := 0; c < nChains; c++ {
		var ch chain
		r := &control.RoutingChain{RemoteIA: addr.MustParseIA("1-ff00:0:110")}
		for k := rapid.IntRange(1, 4).Draw(rt, "nprefix"); k > 0 && pi < len(perm); k-- {
			p := netip.MustParsePrefix(perm[pi])
			pi++
			ch.prefixes = append(ch.prefixes, p)
			_, ipn, _ := net.ParseCIDR(p.String())
			r.Prefixes = append(r.Prefixes, ipn)
		}
		for k := rapid.IntRange(1, 3).Draw(rt, "nmatchers"); k > 0; k-- {
			tree := genTCNode(rt, 2, names, nums)
			if rapid.IntRange(0, 3).Draw(rt, "catchall") == 0 {
				tree = &tcNode{op: "bool", b: true}
			}
			text := tree.render(func(s string) string { return s }, func() string { return "" })
			cond, err := pktcls.BuildClassTree(text)
			if err != nil {
				rt.Fatalf("class %q: %v", text, err)
			}
			ch.matchers = append(ch.matchers, matcher{nextID, tree})
			r.TrafficMatchers = append(r.TrafficMatchers, control.TrafficMatcher{ID: nextID, Matcher: cond})
			allIDs = append(allIDs, nextID)
			nextID++
		}
		chains = append(chains, ch)
		rc = append(rc, r)
	}
	table := dataplane.NewRoutingTable(rc)
	var got []string
	hasSession := map[int]bool{}
	for _, id := range allIDs {
		switch rapid.IntRange(0, 4).Draw(rt, "sess") {
		case 0: // never set
		case 1: // set then cleared
			if err := table.SetSession(id, recSession{id, &got}); err != nil {
				rt.Fatalf("SetSession: %v", err)
			}
			if err := table.ClearSession(id); err != nil {
				rt.Fatalf("ClearSession: %v", err)
			}
		default:
			if err := table.SetSession(id, recSession{id, &got}); err != nil {
				rt.Fatalf("SetSession: %v", err)
			}
			hasSession[id] = true
		}
	}
	// packets
	var raws [][]byte
	var want []string
	labels := map[string]bool{}
	nPk := rapid.IntRange(1, 25).Draw(rt, "npackets")
	for i := 0; i < nPk; i++ {
		var raw []byte
		var dst netip.Addr
		var p *tcPkt
		kind := rapid.IntRange(0, 9).Draw(rt, "pktkind")
		switch {
		case kind <= 5: // IPv4
			p = genTCPkt(rt, nums)
			// destination near the configured prefixes
			pf := netip.MustParsePrefix(rapid.SampledFrom(c42v4).Draw(rt, "near"))
			a := pf.Addr().As4()
			off := rapid.SampledFrom([]int{0, 1, 127, 128, 255, 256, 65536}).Draw(rt, "off")
			v := binary.BigEndian.Uint32(a[:]) + uint32(off)
			if rapid.Bool().Draw(rt, "before") {
				v = binary.BigEndian.Uint32(a[:]) - 1
			}
			binary.BigEndian.PutUint32(p.dst[:], v)
			copy(p.raw[16:20], p.dst[:])
			dst = netip.AddrFrom4(p.dst)
			raw = p.raw
		case kind == 6: // IPv4 fragment
			p = genTCPkt(rt, nums)
			if rapid.Bool().Draw(rt, "mf") {
				p.raw[6] |= 0x20
			} else {
				binary.BigEndian.PutUint16(p.raw[6:], uint16(rapid.IntRange(1, 0x1fff).Draw(rt, "fragoff")))
			}
			raws = append(raws, p.raw)
			labels["a_fragment"] = true
			continue
		case kind == 7: // garbage
			switch rapid.IntRange(0, 2).Draw(rt, "garbage") {
			case 0:
				raw = []byte{}
			case 1:
				raw = append([]byte{byte(rapid.SampledFrom([]int{0, 1, 5, 7, 15}).Draw(rt, "ver")) << 4}, make([]byte, 30)...)
			default:
				raw = []byte{0x45, 0, 0}
			}
			raws = append(raws, raw)
			labels["a_garbage"] = true
			continue
		default: // IPv6
			pf := netip.MustParsePrefix(rapid.SampledFrom(c42v6).Draw(rt, "near6"))
			a := pf.Addr().As16()
			a[15] += byte(rapid.IntRange(0, 2).Draw(rt, "off6"))
			if rapid.IntRange(0, 3).Draw(rt, "flip6") == 0 {
				a[rapid.IntRange(0, 7).Draw(rt, "flipbyte")] ^= 1
			}
			dst = netip.AddrFrom16(a)
			raw = ipv6Raw(netip.MustParseAddr("2001:db8::1"), dst, rapid.SliceOfN(rapid.Byte(), 0, 16).Draw(rt, "pld6"))
			p = &tcPkt{}
			labels["a_ipv6"] = true
		}
		raws = append(raws, raw)
		// reference decision
		best := -1
		var bestChain *chain
		for ci := range chains {
			for _, pf := range chains[ci].prefixes {
				if pf.Contains(dst) && pf.Bits() > best {
					best = pf.Bits()
					bestChain = &chains[ci]
				}
			}
		}
		if bestChain == nil {
			labels["a_no_prefix"] = true
			continue
		}
		if best > 0 {
			labels["a_specific_prefix"] = true
		}
		decided := false
		for _, m := range bestChain.matchers {
			v := false
			if dst.Is4() {
				v = m.tree.eval(p)
			} else {
				v = evalNonIPv4(m.tree)
			}
			if v {
				decided = true
				if hasSession[m.id] && upperLayerUndecodable(raw) && undecodableDropped(rt) {
					// known finding: the forwarder drops IP packets whose upper layer gopacket cannot decode
					rec.Known(sigUndecodable)
					labels["a_undecodable_upper_layer"] = true
				} else if hasSession[m.id] {
					want = append(want, fmt.Sprintf("s%d:%x", m.id, raw))
					labels["a_routed"] = true
				} else {
					labels["a_class_without_session"] = true
				}
				break
			}
		}
		if !decided {
			labels["a_no_class"] = true
		}
	}
	fwd := &dataplane.IPForwarder{Reader: &listReader{pkts: raws}, RoutingTable: table}
	_ = fwd.Run(context.Background()) // ends with the reader's EOF
	if fmt.Sprint(got) != fmt.Sprint(want) {
		var cs []string
		for _, ch := range chains {
			var ms []string
			for _, m := range ch.matchers {
				ms = append(ms, fmt.Sprintf("%d:%s(session=%v)", m.id, m.tree.render(func(s string) string { return s }, func() string { return "" }), hasSession[m.id]))
			}
			cs = append(cs, fmt.Sprintf("%v -> %v", ch.prefixes, ms))
		}
		rt.Fatalf("forwarder handed packets to sessions %v, reference %v\nchains %v", trunc(got), trunc(want), cs)
	}
	var ls []string
	for l := range labels {
		ls = append(ls, l)
	}
	rec.Case(labels["a_specific_prefix"] && labels["a_routed"], fmt.Sprint("A", got, len(raws)), ls...)
	rec.Eval(len(raws) - 1)
	rec.Sample(func() any {
		return map[string]any{"part": "routing table", "packets": len(raws), "routed": trunc(want)}
	})
}

const sigUndecodable = "C42/undecodable-upper-layer-dropped"

// upperLayerUndecodable reports whether gopacket's full decoder chain fails beyond the IP header.
func upperLayerUndecodable(raw []byte) bool {
	first := layers.LayerTypeIPv4
	if raw[0]>>4 == 6 {
		first = layers.LayerTypeIPv6
	}
	// same buffer shape as the forwarder (a slice of a larger read buffer): some gopacket decoders look
	// at the capacity, not the length
	buf := make([]byte, common.MaxMTU)
	n := copy(buf, raw)
	pkt := gopacket.NewPacket(buf[:n], first, gopacket.DecodeOptions{NoCopy: true, Lazy: true})
	return pkt.ErrorLayer() != nil && pkt.NetworkLayer() != nil
}

var (
	undecOnce    sync.Once
	undecPresent bool
)

// undecodableDropped is the deterministic probe of the listed finding: a well-formed IPv4 packet of
// the experimental protocol 253 towards a catch-all class with a session.
func undecodableDropped(t interface{ Fatalf(string, ...any) }) bool {
	undecOnce.Do(func() {
		_, ipn, _ := net.ParseCIDR("0.0.0.0/0")
		table := dataplane.NewRoutingTable([]*control.RoutingChain{{Prefixes: []*net.IPNet{ipn},
			TrafficMatchers: []control.TrafficMatcher{{ID: 1, Matcher: pktcls.CondTrue}}}})
		var got []string
		_ = table.SetSession(1, recSession{1, &got})
		raw := make([]byte, 28)
		raw[0], raw[3], raw[8], raw[9], raw[12], raw[16] = 0x45, 28, 64, 253, 10, 10
		fwd := &dataplane.IPForwarder{Reader: &listReader{pkts: [][]byte{raw}}, RoutingTable: table}
		_ = fwd.Run(context.Background())
		undecPresent = len(got) == 0
	})
	if !undecPresent {
		return false
	}
	if findings.Listed(sigUndecodable) {
		findings.Report(sigUndecodable)
		return true
	}
	t.Fatalf("a well-formed IPv4 packet with upper-layer protocol 253 towards a catch-all class with a session is dropped by the forwarder")
	return false
}

// TestC42Probe prints the KNOWN-FINDING line iff the listed defect is present.
func TestC42Probe(t *testing.T) { _ = undecodableDropped(t) }

func trunc(xs []string) []string {
	var out []string
	for _, x := range xs {
		if len(x) > 60 {
			x = x[:60] + "…"
		}
		out = append(out, x)
	}
	return out
}

// evalNonIPv4: every address, TOS, protocol and port predicate is false on a non-IPv4 packet.
func evalNonIPv4(n *tcNode) bool {
	switch n.op {
	case "bool":
		return n.b
	case "not":
		return !evalNonIPv4(n.kids[0])
	case "all":
		for _, k := range n.kids {
			if !evalNonIPv4(k) {
				return false
			}
		}
		return true
	case "any":
		for _, k := range n.kids {
			if evalNonIPv4(k) {
				return true
			}
		}
		return false
	}
	return false
}

// ---- (b) routing policy

type polRule struct {
	action   string
	from, to string
	nets     []netip.Prefix
	negated  bool
	comment  string
}

func iaMatch(m string, ia addr.IA) bool {
	neg := false
	if m[0] == '!' {
		neg, m = true, m[1:]
	}
	x := addr.MustParseIA(m)
	ok := (x.ISD() == 0 || x.ISD() == ia.ISD()) && (x.AS() == 0 || x.AS() == ia.AS())
	return ok != neg
}

func refContains(p netip.Prefix, a netip.Addr) bool {
	if p.Addr().Is4() != a.Is4() {
		return false
	}
	bits := p.Bits()
	x, y := p.Addr().AsSlice(), a.AsSlice()
	for i := 0; i < bits; i++ {
		if (x[i/8]>>(7-i%8))&1 != (y[i/8]>>(7-i%8))&1 {
			return false
		}
	}
	return true
}

func lastAddr(p netip.Prefix) netip.Addr {
	b := p.Masked().Addr().AsSlice()
	for i := p.Bits(); i < len(b)*8; i++ {
		b[i/8] |= 1 << (7 - i%8)
	}
	r, _ := netip.AddrFromSlice(b)
	return r
}

func policyCase(rt *rapid.T, rec *evid.Rec) {
	prefixes := append(append([]string{}, c42v4...), c42v6...)
	iaMatchers := []string{"0-0", "1-0", "1-ff00:0:110", "!1-ff00:0:110", "2-0", "0-ff00:0:110", "!2-0"}
	n := rapid.IntRange(0, 6).Draw(rt, "nrules")
	var rules []polRule
	for i := 0; i < n; i++ {
		r := polRule{action: rapid.SampledFrom([]string{"accept", "accept", "reject", "reject", "advertise", "redistribute-bgp"}).Draw(rt, "action"),
			from: rapid.SampledFrom(iaMatchers).Draw(rt, "from"), to: rapid.SampledFrom(iaMatchers).Draw(rt, "to"),
			negated: rapid.IntRange(0, 3).Draw(rt, "neg") == 0}
		for j := rapid.IntRange(1, 3).Draw(rt, "nnets"); j > 0; j-- {
			r.nets = append(r.nets, netip.MustParsePrefix(rapid.SampledFrom(prefixes).Draw(rt, "net")))
		}
		if rapid.Bool().Draw(rt, "comment") {
			r.comment = rapid.SampledFrom([]string{"x", "allow office", "a # b", "  padded  ", "#"}).Draw(rt, "ctext")
		}
		rules = append(rules, r)
	}
	var sb strings.Builder
	for _, r := range rules {
		var ns []string
		for _, p := range r.nets {
			ns = append(ns, p.String())
		}
		netText := strings.Join(ns, ",")
		if r.negated {
			netText = "!" + netText
		}
		sep := rapid.SampledFrom([]string{" ", "\t", "    "}).Draw(rt, "sep")
		line := strings.Join([]string{r.action, r.from, r.to, netText}, sep)
		if r.comment != "" {
			line += " # " + r.comment
		}
		sb.WriteString(line + "\n")
	}
	text := sb.String()
	def := rapid.SampledFrom([]routing.Action{routing.Accept, routing.Reject, routing.UnknownAction}).Draw(rt, "default")
	pol := routing.Policy{DefaultAction: def}
	if err := pol.UnmarshalText([]byte(text)); err != nil {
		rt.Fatalf("policy text rejected:\n%s%v", text, err)
	}
	if len(pol.Rules) != len(rules) {
		rt.Fatalf("parsed %d rules from %d lines", len(pol.Rules), len(rules))
	}
	out, err := pol.MarshalText()
	if err != nil {
		rt.Fatalf("marshal: %v", err)
	}
	pol2 := routing.Policy{DefaultAction: def}
	if err := pol2.UnmarshalText(out); err != nil {
		rt.Fatalf("re-parsing the serialized policy failed:\n%s%v", out, err)
	}
	ias := []addr.IA{addr.MustParseIA("1-ff00:0:110"), addr.MustParseIA("1-ff00:0:111"), addr.MustParseIA("2-ff00:0:110"), addr.MustParseIA("2-ff00:0:210")}
	from := rapid.SampledFrom(ias).Draw(rt, "qfrom")
	to := rapid.SampledFrom(ias).Draw(rt, "qto")
	q := netip.MustParsePrefix(rapid.SampledFrom(prefixes).Draw(rt, "query"))
	set, err := pol.Match(from, to, q)
	if err != nil {
		rt.Fatalf("match: %v", err)
	}
	set2, err := pol2.Match(from, to, q)
	if err != nil {
		rt.Fatalf("match (re-parsed): %v", err)
	}
	decide := func(a netip.Addr) bool {
		for _, r := range rules {
			if r.action != "accept" && r.action != "reject" {
				continue
			}
			if !iaMatch(r.from, from) || !iaMatch(r.to, to) {
				continue
			}
			in := false
			for _, p := range r.nets {
				in = in || refContains(p, a)
			}
			if in != r.negated {
				return r.action == "accept"
			}
		}
		return def == routing.Accept
	}
	var probes []netip.Addr
	for _, ps := range prefixes {
		p := netip.MustParsePrefix(ps)
		first, last := p.Masked().Addr(), lastAddr(p)
		probes = append(probes, first, first.Prev(), first.Next(), last, last.Next(), last.Prev())
	}
	labels := map[string]bool{}
	accepted, rejected := 0, 0
	for _, a := range probes {
		if !a.IsValid() || !refContains(q, a) {
			continue
		}
		want := decide(a)
		if got := set.Contains(a); got != want {
			rt.Fatalf("policy\n%sdefault=%v from=%s to=%s query=%s address %s: accepted=%v, first-match reference=%v", text, def, from, to, q, a, got, want)
		}
		if got := set2.Contains(a); got != want {
			rt.Fatalf("serialized and re-parsed policy decides %v for %s (original %v)\noriginal:\n%sserialized:\n%s", got, a, want, text, out)
		}
		if want {
			accepted++
		} else {
			rejected++
		}
	}
	// nothing outside the queried prefix
	for _, a := range probes {
		if a.IsValid() && !refContains(q, a) && set.Contains(a) {
			rt.Fatalf("policy match for %s contains %s, which is outside the queried prefix", q, a)
		}
	}
	// advertised prefixes
	var wantAdv []string
	for _, r := range rules {
		if r.action == "advertise" && iaMatch(r.from, from) && iaMatch(r.to, to) && !r.negated {
			for _, p := range r.nets {
				wantAdv = append(wantAdv, p.String())
			}
			labels["b_advertise"] = true
		}
	}
	for i, p := range []*routing.Policy{&pol, &pol2} {
		adv, err := routing.AdvertiseList(p, from, to)
		if err != nil {
			rt.Fatalf("AdvertiseList: %v", err)
		}
		var got []string
		for _, x := range adv {
			got = append(got, x.String())
		}
		if fmt.Sprint(got) != fmt.Sprint(wantAdv) {
			rt.Fatalf("AdvertiseList (policy %d: 0 parsed, 1 re-parsed) = %v, expected %v\n%s", i, got, wantAdv, text)
		}
	}
	if accepted > 0 && rejected > 0 {
		labels["b_mixed_decisions"] = true
	}
	for _, r := range rules {
		if r.negated {
			labels["b_negated_net"] = true
		}
		if r.from[0] == '!' || r.to[0] == '!' {
			labels["b_negated_ia"] = true
		}
		if r.comment != "" {
			labels["b_comment"] = true
		}
	}
	var ls []string
	for l := range labels {
		ls = append(ls, l)
	}
	rec.Case(labels["b_mixed_decisions"], "B"+text+q.String()+from.String()+to.String(), ls...)
	rec.Eval(accepted + rejected)
	rec.Sample(func() any {
		return map[string]any{"part": "policy", "policy": text, "default": def.String(), "from": from.String(), "to": to.String(), "query": q.String(), "accepted_probes": accepted, "rejected_probes": rejected}
	})
}

func TestC42(t *testing.T) {
	names, nums := tcProtocols()
	rec := evid.New("C42", "rapid: (a) routing tables of 1-3 chains with distinct IPv4/IPv6 prefixes (nested) and 1-3 traffic classes each (C43 generator), sessions set / never set / set-then-cleared, "+
		"1-25 packets (IPv4 to destinations at prefix boundaries, IPv6, IPv4 fragments, garbage) through the real IPForwarder: per-session packet lists vs longest-prefix / first-true-class reference; "+
		"(b) policies of 0-6 rules (accept/reject/advertise/redistribute-bgp, ISD-AS matchers with wildcards and negations, 1-3 prefixes, negated networks, comments) parsed from text, "+
		"queried for a prefix and an ISD-AS pair: every prefix boundary +-1 inside the query vs first-match reference; serialize + re-parse preserves decisions and advertised prefixes. "+
		"Non-trivial: (a) a packet routed via a prefix more specific than /0; (b) the queried prefix contains both accepted and rejected addresses.")
	defer rec.Flush(t)
	rec.Assume("traffic classes evaluate as in C43", "netipx IP set arithmetic is trusted; the reference decides per address")
	rec.Require("a_routed", "a_specific_prefix", "a_no_prefix", "a_no_class", "a_class_without_session", "a_fragment", "a_garbage", "a_ipv6",
		"b_mixed_decisions", "b_negated_net", "b_negated_ia", "b_comment", "b_advertise")
	t.Run("table", func(t *testing.T) { rapid.Check(t, func(rt *rapid.T) { routingTableCase(rt, rec, names, nums) }) })
	t.Run("policy", func(t *testing.T) { rapid.Check(t, func(rt *rapid.T) { policyCase(rt, rec) }) })
}
