// Package pki is a prototype SCION control-plane PKI factory for the verification harness:
// keys from a pool, the five certificate classes (with hooks to violate single constraints),
// TRCs signed through the repository's CMS code, and AS chains.
package pki

import (
	"crypto"
	"crypto/ecdsa"
	"crypto/elliptic"
	"crypto/rand"
	"crypto/x509"
	"crypto/x509/pkix"
	"encoding/asn1"
	"fmt"
	"math/big"
	"sync"
	"time"

	"github.com/scionproto/scion/pkg/addr"
	"github.com/scionproto/scion/pkg/scrypto/cms/protocol"
	"github.com/scionproto/scion/pkg/scrypto/cppki"
)

// ---------------------------------------------------------------------------------------------
// Key pool

var (
	poolMu sync.Mutex
	pool   = map[string][]*ecdsa.PrivateKey{}
	poolIx = map[string]int{}
)

// Key returns the i-th key of the named curve from a process-wide pool (generated lazily).
func Key(curve elliptic.Curve, i int) *ecdsa.PrivateKey {
	name := curve.Params().Name
	poolMu.Lock()
	defer poolMu.Unlock()
	for len(pool[name]) <= i {
		k, err := ecdsa.GenerateKey(curve, rand.Reader)
		if err != nil {
			panic(err)
		}
		pool[name] = append(pool[name], k)
	}
	return pool[name][i]
}

// ---------------------------------------------------------------------------------------------
// Certificates

// Subject builds a distinguished name carrying the ISD-AS attribute.
func Subject(ia addr.IA, cn string) pkix.Name {
	return pkix.Name{
		CommonName: cn,
		ExtraNames: []pkix.AttributeTypeAndValue{
			{Type: asn1.ObjectIdentifier{2, 5, 4, 3}, Value: cn},
			{Type: cppki.OIDNameIA, Value: ia.String()},
		},
	}
}

var serialCtr int64 = 1000

func template(typ cppki.CertType) x509.Certificate {
	switch typ {
	case cppki.AS:
		return x509.Certificate{KeyUsage: x509.KeyUsageDigitalSignature,
			ExtKeyUsage: []x509.ExtKeyUsage{x509.ExtKeyUsageServerAuth, x509.ExtKeyUsageClientAuth,
				x509.ExtKeyUsageTimeStamping}}
	case cppki.CA:
		return x509.Certificate{KeyUsage: x509.KeyUsageCertSign, BasicConstraintsValid: true,
			IsCA: true, MaxPathLen: 0, MaxPathLenZero: true}
	case cppki.Root:
		return x509.Certificate{KeyUsage: x509.KeyUsageCertSign,
			ExtKeyUsage:           []x509.ExtKeyUsage{x509.ExtKeyUsageTimeStamping},
			UnknownExtKeyUsage:    []asn1.ObjectIdentifier{cppki.OIDExtKeyUsageRoot},
			BasicConstraintsValid: true, IsCA: true, MaxPathLen: 1}
	case cppki.Regular:
		return x509.Certificate{ExtKeyUsage: []x509.ExtKeyUsage{x509.ExtKeyUsageTimeStamping},
			UnknownExtKeyUsage: []asn1.ObjectIdentifier{cppki.OIDExtKeyUsageRegular}}
	case cppki.Sensitive:
		return x509.Certificate{ExtKeyUsage: []x509.ExtKeyUsage{x509.ExtKeyUsageTimeStamping},
			UnknownExtKeyUsage: []asn1.ObjectIdentifier{cppki.OIDExtKeyUsageSensitive}}
	}
	panic("unknown cert type")
}

// Cert is a certificate together with its private key.
type Cert struct {
	X   *x509.Certificate
	Key *ecdsa.PrivateKey
}

// NewCert issues a certificate of the given class. parent == nil means self-signed. mods may
// alter the template to violate constraints on purpose.
func NewCert(typ cppki.CertType, subj pkix.Name, key *ecdsa.PrivateKey, nb, na time.Time,
	parent *Cert, mods ...func(*x509.Certificate)) (*Cert, error) {

	t := template(typ)
	poolMu.Lock()
	serialCtr++
	t.SerialNumber = big.NewInt(serialCtr)
	poolMu.Unlock()
	skid, err := cppki.SubjectKeyID(key.Public())
	if err != nil {
		return nil, err
	}
	t.SubjectKeyId = skid
	t.Subject = subj
	t.NotBefore, t.NotAfter = nb, na
	var signerKey crypto.Signer = key
	par := &t
	if parent != nil {
		t.AuthorityKeyId = parent.X.SubjectKeyId
		par = parent.X
		signerKey = parent.Key
	}
	for _, m := range mods {
		m(&t)
	}
	der, err := x509.CreateCertificate(rand.Reader, &t, par, key.Public(), signerKey)
	if err != nil {
		return nil, err
	}
	x, err := x509.ParseCertificate(der)
	if err != nil {
		return nil, err
	}
	return &Cert{X: x, Key: key}, nil
}

// ---------------------------------------------------------------------------------------------
// TRCs

// SignTRC encodes the payload and collects one CMS signer info per signer, using the same
// CMS code path as `scion-pki trc sign` + `combine`.
func SignTRC(trc cppki.TRC, signers []*Cert) (cppki.SignedTRC, error) {
	raw, err := trc.Encode()
	if err != nil {
		return cppki.SignedTRC{}, fmt.Errorf("encoding payload: %w", err)
	}
	var infos []protocol.SignerInfo
	for _, s := range signers {
		eci, err := protocol.NewDataEncapsulatedContentInfo(raw)
		if err != nil {
			return cppki.SignedTRC{}, err
		}
		sd, err := protocol.NewSignedData(eci)
		if err != nil {
			return cppki.SignedTRC{}, err
		}
		if err := sd.AddSignerInfo([]*x509.Certificate{s.X}, s.Key); err != nil {
			return cppki.SignedTRC{}, err
		}
		infos = append(infos, sd.SignerInfos...)
	}
	dec, err := cppki.DecodeTRC(raw)
	if err != nil {
		return cppki.SignedTRC{}, fmt.Errorf("decoding payload: %w", err)
	}
	st := cppki.SignedTRC{TRC: dec, SignerInfos: infos}
	enc, err := st.Encode()
	if err != nil {
		return cppki.SignedTRC{}, fmt.Errorf("encoding signed TRC: %w", err)
	}
	return cppki.DecodeSignedTRC(enc)
}

// ISD is a complete, valid trust setup for one ISD.
type ISD struct {
	ID        addr.ISD
	Sensitive []*Cert
	Regular   []*Cert
	Roots     []*Cert
	CAs       []*Cert // CA i is issued by root i
	Base      cppki.SignedTRC
}

// NewISD creates voters and roots held by the given core ASes (one of each per core AS) and a
// valid, fully signed base TRC.
func NewISD(isd addr.ISD, cores []addr.AS, nb, na time.Time, keyBase int) (*ISD, error) {
	x := &ISD{ID: isd}
	k := keyBase
	var certs []*x509.Certificate
	for i, as := range cores {
		ia := addr.MustIAFrom(isd, as)
		for _, typ := range []cppki.CertType{cppki.Sensitive, cppki.Regular, cppki.Root} {
			c, err := NewCert(typ, Subject(ia, fmt.Sprintf("%s %s %d", ia, typ, i)),
				Key(elliptic.P256(), k), nb, na, nil)
			if err != nil {
				return nil, fmt.Errorf("creating %s cert: %w", typ, err)
			}
			k++
			switch typ {
			case cppki.Sensitive:
				x.Sensitive = append(x.Sensitive, c)
			case cppki.Regular:
				x.Regular = append(x.Regular, c)
			case cppki.Root:
				x.Roots = append(x.Roots, c)
				ca, err := NewCert(cppki.CA, Subject(ia, fmt.Sprintf("%s CA %d", ia, i)),
					Key(elliptic.P256(), k), nb, na, c)
				if err != nil {
					return nil, fmt.Errorf("creating CA cert: %w", err)
				}
				k++
				x.CAs = append(x.CAs, ca)
			}
			certs = append(certs, c.X)
		}
	}
	trc := cppki.TRC{
		Version: 1, ID: cppki.TRCID{ISD: isd, Base: 1, Serial: 1},
		Validity: cppki.Validity{NotBefore: nb, NotAfter: na}, Quorum: (len(cores) + 1) / 2,
		CoreASes: cores, AuthoritativeASes: cores, Description: "verif", Certificates: certs,
		NoTrustReset: false,
	}
	signers := append(append([]*Cert{}, x.Sensitive...), x.Regular...)
	st, err := SignTRC(trc, signers)
	if err != nil {
		return nil, err
	}
	x.Base = st
	return x, nil
}

// ASChain issues an AS certificate chain for ia under CA caIdx.
func (x *ISD) ASChain(ia addr.IA, key *ecdsa.PrivateKey, caIdx int, nb, na time.Time) (
	[]*x509.Certificate, error) {
	as, err := NewCert(cppki.AS, Subject(ia, ia.String()+" AS"), key, nb, na, x.CAs[caIdx])
	if err != nil {
		return nil, err
	}
	return []*x509.Certificate{as.X, x.CAs[caIdx].X}, nil
}
