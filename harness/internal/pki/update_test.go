package pki

import (
	"crypto/elliptic"
	"crypto/x509"
	"testing"
	"time"

	"github.com/scionproto/scion/pkg/addr"
	"github.com/scionproto/scion/pkg/scrypto/cppki"
)

func TestUpdates(t *testing.T) {
	now := time.Now()
	nb, na := now.Add(-time.Hour).Truncate(time.Second), now.Add(72*time.Hour).Truncate(time.Second)
	cores := []addr.AS{addr.MustParseAS("ff00:0:110"), addr.MustParseAS("ff00:0:120"), addr.MustParseAS("ff00:0:130")}
	isd, err := NewISD(1, cores, nb, na, 0)
	if err != nil {
		t.Fatal(err)
	}
	pred := isd.Base.TRC
	t.Logf("quorum %d certs %d", pred.Quorum, len(pred.Certificates))
	idxOf := func(c *Cert) int {
		for i, x := range pred.Certificates {
			if x.Equal(c.X) {
				return i
			}
		}
		return -1
	}
	// regular update: nothing changes, votes by regular certs 0 and 1
	next := pred
	next.Raw = nil
	next.ID.Serial = 2
	next.Validity = cppki.Validity{NotBefore: nb.Add(time.Minute), NotAfter: na}
	next.GracePeriod = time.Hour
	next.Votes = []int{idxOf(isd.Regular[0]), idxOf(isd.Regular[1])}
	st, err := SignTRC(next, []*Cert{isd.Regular[0], isd.Regular[1]})
	if err != nil {
		t.Fatal(err)
	}
	t.Logf("regular update verify: %v", st.Verify(&pred))
	// same with only one signature
	st1, _ := SignTRC(next, []*Cert{isd.Regular[0]})
	t.Logf("regular update, one signature missing: %v", st1.Verify(&pred))
	// duplicate votes
	dup := next
	dup.Votes = []int{idxOf(isd.Regular[0]), idxOf(isd.Regular[0])}
	st2, _ := SignTRC(dup, []*Cert{isd.Regular[0]})
	t.Logf("duplicate votes: %v", st2.Verify(&pred))
	// regular update replacing regular voter 2 (must vote with old, and new must sign)
	newReg, err := NewCert(cppki.Regular, isd.Regular[2].X.Subject, Key(elliptic.P256(), 500), nb, na, nil)
	if err != nil {
		t.Fatal(err)
	}
	rep := next
	rep.Certificates = append([]*x509.Certificate{}, pred.Certificates...)
	rep.Certificates[idxOf(isd.Regular[2])] = newReg.X
	rep.Votes = []int{idxOf(isd.Regular[0]), idxOf(isd.Regular[2])}
	st3, err := SignTRC(rep, []*Cert{isd.Regular[0], isd.Regular[2], newReg})
	if err != nil {
		t.Fatal(err)
	}
	t.Logf("replace regular voter (old voted, new signed): %v", st3.Verify(&pred))
	st4, _ := SignTRC(rep, []*Cert{isd.Regular[0], isd.Regular[2]})
	t.Logf("replace regular voter (new did not sign): %v", st4.Verify(&pred))
	rep2 := rep
	rep2.Votes = []int{idxOf(isd.Regular[0]), idxOf(isd.Regular[1])}
	st5, _ := SignTRC(rep2, []*Cert{isd.Regular[0], isd.Regular[1], newReg})
	t.Logf("replace regular voter (old did not vote): %v", st5.Verify(&pred))
	// sensitive update: change quorum, votes by sensitive 0,1
	sens := next
	sens.Quorum = 1
	sens.Votes = []int{idxOf(isd.Sensitive[0]), idxOf(isd.Sensitive[1])}
	st6, err := SignTRC(sens, []*Cert{isd.Sensitive[0], isd.Sensitive[1]})
	if err != nil {
		t.Fatal(err)
	}
	t.Logf("sensitive update: %v", st6.Verify(&pred))
	// quorum change voted by regular only
	bad := sens
	bad.Votes = []int{idxOf(isd.Regular[0]), idxOf(isd.Regular[1])}
	st7, _ := SignTRC(bad, []*Cert{isd.Regular[0], isd.Regular[1]})
	t.Logf("quorum change with regular votes: %v", st7.Verify(&pred))
}
