package pki

import (
	"context"
	"crypto"
	"crypto/elliptic"
	"crypto/x509"
	"fmt"
	"testing"
	"time"

	"github.com/scionproto/scion/pkg/addr"
	"github.com/scionproto/scion/pkg/scrypto/cppki"
	sdb "github.com/scionproto/scion/private/storage/db"
	trustsql "github.com/scionproto/scion/private/storage/trust/sqlite"
	"github.com/scionproto/scion/private/trust"
)

type ring []crypto.Signer

func (r ring) PrivateKeys(ctx context.Context) ([]crypto.Signer, error) { return r, nil }

func TestISD(t *testing.T) {
	now := time.Now()
	nb, na := now.Add(-time.Hour).Truncate(time.Second), now.Add(72*time.Hour).Truncate(time.Second)
	t0 := time.Now()
	isd, err := NewISD(1, []addr.AS{addr.MustParseAS("ff00:0:110"), addr.MustParseAS("ff00:0:120")}, nb, na, 0)
	if err != nil {
		t.Fatal(err)
	}
	t.Logf("NewISD took %v", time.Since(t0))
	if err := isd.Base.Verify(nil); err != nil {
		t.Fatalf("base TRC does not verify: %v", err)
	}
	ia := addr.MustParseIA("1-ff00:0:111")
	key := Key(elliptic.P256(), 100)
	chain, err := isd.ASChain(ia, key, 0, nb.Add(time.Minute), na.Add(-time.Minute))
	if err != nil {
		t.Fatal(err)
	}
	if err := cppki.VerifyChain(chain, cppki.VerifyOptions{TRC: []*cppki.TRC{&isd.Base.TRC}}); err != nil {
		t.Fatalf("chain: %v", err)
	}
	db, err := trustsql.New(fmt.Sprintf("pki_test_%d", time.Now().UnixNano()), &sdb.SqliteConfig{InMemory: true})
	if err != nil {
		t.Fatal(err)
	}
	defer db.Close()
	ctx := context.Background()
	if _, err := db.InsertTRC(ctx, isd.Base); err != nil {
		t.Fatal(err)
	}
	if _, err := db.InsertChain(ctx, chain); err != nil {
		t.Fatal(err)
	}
	gen := trust.SignerGen{IA: ia, KeyRing: ring{key}, DB: db, ExtKeyUsage: x509.ExtKeyUsageAny}
	signers, err := gen.Generate(ctx)
	if err != nil {
		t.Fatal(err)
	}
	t.Logf("signers: %d exp=%v", len(signers), signers[0].Expiration)
	msg, err := signers[0].Sign(ctx, []byte("hello"), []byte("ad"))
	if err != nil {
		t.Fatal(err)
	}
	v := trust.Verifier{BoundIA: ia, Engine: trust.FetchingProvider{DB: db, Recurser: trust.NeverRecurser{}}}
	m, err := v.Verify(ctx, msg, []byte("ad"))
	t.Logf("verify: %v body=%q", err, m.Body)
}
