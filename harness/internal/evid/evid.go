// Package evid collects what a check actually explored (cases, labels, distinct non-trivial cases,
// samples, known-finding hits) and writes it as an evidence fragment that bin/check merges into
// /verif/evidence/<id>.json.
package evid

import (
	"encoding/json"
	"fmt"
	"hash/fnv"
	"os"
	"path/filepath"
	"sort"
	"strconv"
	"sync"
	"testing"
	"time"
)

// Rec is the recorder of one property check. All methods are safe for concurrent use.
type Rec struct {
	mu          sync.Mutex
	id          string
	rule        string
	start       time.Time
	evaluations int64
	labels      map[string]int64
	nt          map[uint64]struct{}
	samples     []any
	seen        int64
	known       map[string]int64
	excluded    map[string]int64
	assumptions []string
	required    []string
	exhaustive  bool
	extra       map[string]any
}

const maxSamples = 6

// New creates a recorder. rule states how cases are generated and what makes one non-trivial.
func New(id, rule string) *Rec {
	return &Rec{
		id: id, rule: rule, start: time.Now(),
		labels: map[string]int64{}, nt: map[uint64]struct{}{},
		known: map[string]int64{}, excluded: map[string]int64{}, extra: map[string]any{},
	}
}

// Case counts one generated case. If nontrivial, canon (a canonical rendering of the case) is
// hashed into the distinct set. labels classify the case.
func (r *Rec) Case(nontrivial bool, canon string, labels ...string) {
	r.mu.Lock()
	defer r.mu.Unlock()
	r.evaluations++
	if nontrivial {
		h := fnv.New64a()
		h.Write([]byte(canon))
		r.nt[h.Sum64()] = struct{}{}
		r.labels["nontrivial"]++
	}
	for _, l := range labels {
		r.labels[l]++
	}
}

// Eval counts n evaluations without classification (sub-cases of one generated case).
func (r *Rec) Eval(n int) {
	r.mu.Lock()
	r.evaluations += int64(n)
	r.mu.Unlock()
}

// Distinct adds a non-trivial distinct case without counting an evaluation.
func (r *Rec) Distinct(canon string) {
	r.mu.Lock()
	h := fnv.New64a()
	h.Write([]byte(canon))
	r.nt[h.Sum64()] = struct{}{}
	r.mu.Unlock()
}

// Label adds n to a class counter.
func (r *Rec) Label(l string, n ...int) {
	k := 1
	if len(n) > 0 {
		k = n[0]
	}
	r.mu.Lock()
	r.labels[l] += int64(k)
	r.mu.Unlock()
}

// Sample offers a case rendering for the samples list: the first three are kept, later slots are
// replaced at power-of-two case numbers so that late cases are represented too. f is only called
// when the sample is kept.
func (r *Rec) Sample(f func() any) {
	r.mu.Lock()
	defer r.mu.Unlock()
	r.seen++
	if len(r.samples) < maxSamples {
		r.samples = append(r.samples, f())
		return
	}
	if r.seen&(r.seen-1) == 0 {
		r.samples[3+int(r.seen%3)] = f()
	}
}

// Known counts a hit of a listed known finding (by signature).
func (r *Rec) Known(sig string) {
	r.mu.Lock()
	r.known[sig]++
	r.mu.Unlock()
}

// Excluded counts a case removed from generation by construction (e.g. behind a known finding).
func (r *Rec) Excluded(why string) {
	r.mu.Lock()
	r.excluded[why]++
	r.mu.Unlock()
}

// Assume records an assumption / trusted-base item.
func (r *Rec) Assume(s ...string) {
	r.mu.Lock()
	r.assumptions = append(r.assumptions, s...)
	r.mu.Unlock()
}

// Require lists classes that a healthy generator must produce; empty ones are reported.
func (r *Rec) Require(classes ...string) {
	r.mu.Lock()
	r.required = append(r.required, classes...)
	r.mu.Unlock()
}

// Exhaustive marks the run as a complete enumeration of a finite space.
func (r *Rec) Exhaustive(what string) {
	r.mu.Lock()
	r.exhaustive = true
	r.extra["exhaustive_space"] = what
	r.mu.Unlock()
}

// Set stores an extra coverage key.
func (r *Rec) Set(k string, v any) {
	r.mu.Lock()
	r.extra[k] = v
	r.mu.Unlock()
}

// Count returns a label counter.
func (r *Rec) Count(l string) int64 {
	r.mu.Lock()
	defer r.mu.Unlock()
	return r.labels[l]
}

// Fragment is the on-disk form merged by bin/check.
type Fragment struct {
	ID          string           `json:"property_id"`
	Rule        string           `json:"rule"`
	Evaluations int64            `json:"evaluations"`
	Labels      map[string]int64 `json:"classes"`
	NT          []string         `json:"nt_hashes"`
	Samples     []any            `json:"samples"`
	Known       map[string]int64 `json:"known_finding_hits"`
	Excluded    map[string]int64 `json:"excluded"`
	Assumptions []string         `json:"assumptions"`
	Required    []string         `json:"required_classes"`
	Exhaustive  bool             `json:"exhaustive"`
	Extra       map[string]any   `json:"extra"`
	WallS       float64          `json:"wall_s"`
	Failed      bool             `json:"failed"`
}

// Flush writes the fragment to $VERIF_FRAG_DIR (no-op if unset). Call via t.Cleanup or defer.
func (r *Rec) Flush(t testing.TB) {
	dir := os.Getenv("VERIF_FRAG_DIR")
	r.mu.Lock()
	defer r.mu.Unlock()
	f := Fragment{
		ID: r.id, Rule: r.rule, Evaluations: r.evaluations, Labels: r.labels,
		Samples: r.samples, Known: r.known, Excluded: r.excluded, Assumptions: r.assumptions,
		Required: r.required, Exhaustive: r.exhaustive, Extra: r.extra,
		WallS: time.Since(r.start).Seconds(), Failed: t != nil && t.Failed(),
	}
	for h := range r.nt {
		f.NT = append(f.NT, strconv.FormatUint(h, 16))
	}
	sort.Strings(f.NT)
	if t != nil {
		t.Logf("evidence %s: evaluations=%d distinct_nontrivial=%d classes=%v known=%v",
			r.id, r.evaluations, len(r.nt), r.labels, r.known)
	}
	if dir == "" {
		return
	}
	b, err := json.Marshal(f)
	if err != nil {
		// samples must be JSON-serialisable; fall back to their %v rendering
		for i, s := range f.Samples {
			f.Samples[i] = fmt.Sprintf("%+v", s)
		}
		b, _ = json.Marshal(f)
	}
	name := filepath.Join(dir, fmt.Sprintf("%s.%d.%d.json", r.id, os.Getpid(), time.Now().UnixNano()))
	_ = os.WriteFile(name, b, 0o644)
}

// Tier returns "quick" or "thorough".
func Tier() string {
	if os.Getenv("VERIF_TIER") == "thorough" {
		return "thorough"
	}
	return "quick"
}

// Thorough reports whether the thorough tier is running.
func Thorough() bool { return Tier() == "thorough" }

// Seed returns VERIF_SEED (default 1).
func Seed() int64 {
	s, err := strconv.ParseInt(os.Getenv("VERIF_SEED"), 10, 64)
	if err != nil || s == 0 {
		return 1
	}
	return s
}

// Scale returns quick or thorough depending on the tier (for non-rapid loops).
func Scale(quick, thorough int) int {
	if Thorough() {
		return thorough
	}
	return quick
}
