// Package findings matches oracle-computed signatures against the committed, read-only
// /verif/known_findings.json. A listed signature is a genuine defect of the repository that was
// recorded instead of repaired; the check counts it, prints one KNOWN-FINDING line and goes on.
// Anything not listed is a violation. The file is never written at run time.
package findings

import (
	"encoding/json"
	"fmt"
	"os"
	"path/filepath"
	"sync"
)

type Finding struct {
	Property  string `json:"property"`
	Signature string `json:"signature"`
	What      string `json:"what"`
}

type file struct {
	Findings []Finding `json:"findings"`
	Fixed    []string  `json:"fixed"`
}

var (
	once     sync.Once
	listed   map[string]Finding
	reported sync.Map
)

func load() {
	listed = map[string]Finding{}
	root := os.Getenv("VERIF_ROOT")
	if root == "" {
		root = "/verif"
	}
	b, err := os.ReadFile(filepath.Join(root, "known_findings.json"))
	if err != nil {
		return
	}
	var f file
	if json.Unmarshal(b, &f) != nil {
		return
	}
	for _, x := range f.Findings {
		listed[x.Signature] = x
	}
}

// Listed reports whether sig is a listed open finding.
func Listed(sig string) bool {
	once.Do(load)
	_, ok := listed[sig]
	return ok
}

// Report prints the KNOWN-FINDING line for sig (once per process). Call only when the defect
// was actually observed in this run.
func Report(sig string) {
	once.Do(load)
	f, ok := listed[sig]
	if !ok {
		return
	}
	if _, dup := reported.LoadOrStore(sig, true); dup {
		return
	}
	fmt.Printf("KNOWN-FINDING: property=%s %s [%s]\n", f.Property, f.What, f.Signature)
}
