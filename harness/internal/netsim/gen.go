package netsim

import (
	"context"
	"crypto/ecdsa"
	"crypto/elliptic"
	"crypto/rand"
	"fmt"
	"time"

	"github.com/gopacket/gopacket"
	"pgregory.net/rapid"

	"github.com/scionproto/scion/control/beaconing"
	"github.com/scionproto/scion/pkg/addr"
	"github.com/scionproto/scion/pkg/scrypto/cppki"
	"github.com/scionproto/scion/pkg/scrypto/signed"
	seg "github.com/scionproto/scion/pkg/segment"
	"github.com/scionproto/scion/pkg/slayers"
	scionpath "github.com/scionproto/scion/pkg/slayers/path/scion"
	"github.com/scionproto/scion/private/path/combinator"
	infra "github.com/scionproto/scion/private/segment/verifier"
	"github.com/scionproto/scion/private/topology"
	"github.com/scionproto/scion/private/trust"
)

// GenTopo draws a random, well-formed SCION inter-network: 1-2 ISDs, 1-2 core ASes each (with
// optional extra, possibly parallel core links), 0-5 non-core ASes of depth <= 3 with an optional
// second parent (possibly parallel to the first), 0-3 peering links between non-core ASes, 1-3
// border routers per AS with interfaces assigned at random (so sibling traversals occur), BGP-style
// and ff00: AS numbers, random forwarding keys and MTUs.
func GenTopo(t *rapid.T) Topo {
	var topo Topo
	nISD := rapid.IntRange(1, 2).Draw(t, "nISD")
	type asRef struct {
		idx   int
		isd   int
		core  bool
		depth int
	}
	var all []asRef
	nextIf := map[int]uint16{}
	addAS := func(isd int, core bool, depth int) int {
		idx := len(topo.ASes)
		var as addr.AS
		if rapid.IntRange(0, 3).Draw(t, "bgpAS") == 0 {
			as = addr.AS(64500 + idx)
		} else {
			as = addr.MustParseAS(fmt.Sprintf("ff00:0:%x", 0x100*isd+idx+1))
		}
		key := rapid.SliceOfN(rapid.Byte(), 16, 16).Draw(t, "key")
		topo.ASes = append(topo.ASes, ASSpec{IA: addr.MustIAFrom(addr.ISD(isd), as), Core: core, Master: key,
			MTU:        uint16(rapid.IntRange(1300, 1500).Draw(t, "asMTU")),
			NumRouters: rapid.IntRange(1, 3).Draw(t, "routers")})
		nextIf[idx] = uint16(rapid.IntRange(1, 40).Draw(t, "ifBase"))
		all = append(all, asRef{idx, isd, core, depth})
		return idx
	}
	link := func(a, b int, aTo, bTo topology.LinkType) {
		mtu := uint16(rapid.IntRange(1200, 1500).Draw(t, "linkMTU"))
		ia, ib := nextIf[a], nextIf[b]
		nextIf[a] += uint16(rapid.IntRange(1, 3).Draw(t, "ifStep"))
		nextIf[b] += uint16(rapid.IntRange(1, 3).Draw(t, "ifStep"))
		A, B := &topo.ASes[a], &topo.ASes[b]
		A.Ifs = append(A.Ifs, IfSpec{ID: ia, Remote: B.IA, RemoteID: ib, LinkTo: aTo, MTU: mtu,
			Router: rapid.IntRange(0, A.NumRouters-1).Draw(t, "rtr")})
		B.Ifs = append(B.Ifs, IfSpec{ID: ib, Remote: A.IA, RemoteID: ia, LinkTo: bTo, MTU: mtu,
			Router: rapid.IntRange(0, B.NumRouters-1).Draw(t, "rtr")})
	}
	var cores []int
	for isd := 1; isd <= nISD; isd++ {
		n := rapid.IntRange(1, 2).Draw(t, "nCore")
		for i := 0; i < n; i++ {
			c := addAS(isd, true, 0)
			if len(cores) > 0 {
				link(cores[rapid.IntRange(0, len(cores)-1).Draw(t, "coreNbr")], c, topology.Core, topology.Core)
			}
			cores = append(cores, c)
		}
	}
	if len(cores) > 1 {
		for i := rapid.IntRange(0, 2).Draw(t, "extraCore"); i > 0; i-- {
			a := rapid.IntRange(0, len(cores)-1).Draw(t, "a")
			b := rapid.IntRange(0, len(cores)-2).Draw(t, "b")
			if b >= a {
				b++
			}
			link(cores[a], cores[b], topology.Core, topology.Core)
		}
	}
	nNon := rapid.IntRange(0, 5).Draw(t, "nNonCore")
	for i := 0; i < nNon; i++ {
		isd := rapid.IntRange(1, nISD).Draw(t, "isd")
		var cands []asRef
		for _, r := range all {
			if r.isd == isd && r.depth < 3 {
				cands = append(cands, r)
			}
		}
		p1 := cands[rapid.IntRange(0, len(cands)-1).Draw(t, "parent")]
		c := addAS(isd, false, p1.depth+1)
		link(p1.idx, c, topology.Child, topology.Parent)
		if rapid.IntRange(0, 2).Draw(t, "second") == 0 {
			p2 := cands[rapid.IntRange(0, len(cands)-1).Draw(t, "parent2")]
			link(p2.idx, c, topology.Child, topology.Parent)
		}
	}
	var non []int
	for _, r := range all {
		if !r.core {
			non = append(non, r.idx)
		}
	}
	if len(non) > 1 {
		for i := rapid.IntRange(0, 3).Draw(t, "nPeer"); i > 0; i-- {
			a := rapid.IntRange(0, len(non)-1).Draw(t, "pa")
			b := rapid.IntRange(0, len(non)-2).Draw(t, "pb")
			if b >= a {
				b++
			}
			link(non[a], non[b], topology.Peer, topology.Peer)
		}
	}
	return topo
}

// LitSigners returns per-AS signers over literal trust.Signer values with fresh keys (the
// verifier used with them accepts everything; signature checking is exercised by C23-C25).
func LitSigners() func(addr.IA) beaconing.SignerGen {
	cache := map[addr.IA]trust.Signer{}
	return func(ia addr.IA) beaconing.SignerGen {
		s, ok := cache[ia]
		if !ok {
			priv, _ := ecdsa.GenerateKey(elliptic.P256(), rand.Reader)
			s = trust.Signer{PrivateKey: priv, Algorithm: signed.ECDSAWithSHA256, IA: ia,
				TRCID:        cppki.TRCID{ISD: ia.ISD(), Base: 1, Serial: 1},
				SubjectKeyID: []byte("skid"), Expiration: time.Now().Add(48 * time.Hour),
				ChainValidity: cppki.Validity{NotBefore: time.Now().Add(-time.Hour),
					NotAfter: time.Now().Add(48 * time.Hour)}}
			cache[ia] = s
		}
		return beaconing.SignerGenFunc(func(ctx context.Context) ([]beaconing.Signer, error) {
			return []beaconing.Signer{s}, nil
		})
	}
}

var sharedSigners = LitSigners()

// Net is a simulated network after beaconing and segment registration.
type Net struct {
	Sim   *Sim
	Cores []*seg.PathSegment
}

// Build runs origination, propagation rounds and registration on a fresh simulator.
func Build(topo Topo, epic bool, perm func(n int) []int) (*Net, error) {
	sim, err := New(topo, sharedSigners, infra.AcceptAllVerifier{})
	if err != nil {
		return nil, err
	}
	sim.EPIC = epic
	sim.Perm = perm
	ctx := context.Background()
	sim.Originate(ctx)
	for round := 0; round < 70; round++ {
		ok, rej := sim.Deliver(ctx)
		if rej > 0 {
			sim.Close()
			return nil, fmt.Errorf("%d beacons rejected by the receiving AS", rej)
		}
		if ok == 0 {
			break
		}
		sim.Propagate(ctx)
	}
	if err := sim.Register(ctx); err != nil {
		sim.Close()
		return nil, err
	}
	n := &Net{Sim: sim}
	for _, x := range sim.Order {
		n.Cores = append(n.Cores, sim.ASes[x].Registered[seg.TypeCore]...)
	}
	return n, nil
}

func (n *Net) Close() { n.Sim.Close() }

// Paths returns every path the real combinator builds from the registered segments.
func (n *Net) Paths(src, dst addr.IA) []combinator.Path {
	return combinator.Combine(src, dst, n.Sim.ASes[src].Registered[seg.TypeUp], n.Cores,
		n.Sim.ASes[dst].Registered[seg.TypeDown], false)
}

// PktOpts are the variable parts of a generated data packet.
type PktOpts struct {
	SrcHost, DstHost addr.Host
	SrcPort, DstPort uint16
	TrafficClass     uint8
	FlowID           uint32
	Payload          []byte
	HBH, E2E         []Opt // extension header options (nil = header absent)
	WithHBH, WithE2E bool
	SCMP             gopacket.SerializableLayer // if set together with SCMPHdr, replaces UDP
	SCMPHdr          *slayers.SCMP
}

type Opt struct {
	Type uint8
	Data []byte
}

// BuildPacket serializes a SCION packet over the given raw SCION path.
func BuildPacket(src, dst addr.IA, raw *scionpath.Raw, o PktOpts) ([]byte, error) {
	s := &slayers.SCION{FlowID: o.FlowID, TrafficClass: o.TrafficClass, NextHdr: slayers.L4UDP, PathType: scionpath.PathType,
		Path: raw, SrcIA: src, DstIA: dst}
	if err := s.SetSrcAddr(o.SrcHost); err != nil {
		return nil, err
	}
	if err := s.SetDstAddr(o.DstHost); err != nil {
		return nil, err
	}
	ls := []gopacket.SerializableLayer{s}
	next := &s.NextHdr
	if o.WithHBH {
		h := &slayers.HopByHopExtn{}
		for _, x := range o.HBH {
			h.Options = append(h.Options, &slayers.HopByHopOption{OptType: slayers.OptionType(x.Type), OptData: x.Data})
		}
		*next = slayers.HopByHopClass
		next = &h.NextHdr
		ls = append(ls, h)
	}
	if o.WithE2E {
		e := &slayers.EndToEndExtn{}
		for _, x := range o.E2E {
			e.Options = append(e.Options, &slayers.EndToEndOption{OptType: slayers.OptionType(x.Type), OptData: x.Data})
		}
		*next = slayers.End2EndClass
		next = &e.NextHdr
		ls = append(ls, e)
	}
	if o.SCMPHdr != nil {
		*next = slayers.L4SCMP
		o.SCMPHdr.SetNetworkLayerForChecksum(s)
		ls = append(ls, o.SCMPHdr, o.SCMP)
	} else {
		*next = slayers.L4UDP
		udp := &slayers.UDP{SrcPort: o.SrcPort, DstPort: o.DstPort}
		udp.SetNetworkLayerForChecksum(s)
		ls = append(ls, udp)
	}
	ls = append(ls, gopacket.Payload(o.Payload))
	buf := gopacket.NewSerializeBuffer()
	if err := gopacket.SerializeLayers(buf, gopacket.SerializeOptions{FixLengths: true, ComputeChecksums: true}, ls...); err != nil {
		return nil, err
	}
	return append([]byte{}, buf.Bytes()...), nil
}

// DefaultOpts is a plain UDP packet between two fixed hosts.
func DefaultOpts() PktOpts {
	return PktOpts{SrcHost: addr.MustParseHost("10.9.9.7"), DstHost: addr.MustParseHost("10.9.9.9"),
		SrcPort: 40001, DstPort: 40002, FlowID: 1, Payload: []byte("payload")}
}

// GenOpts draws packet contents: hosts (IPv4/IPv6), ports inside the dispatched range, traffic
// class, flow id, payload, optional extension headers with random options.
func GenOpts(t *rapid.T) PktOpts {
	o := DefaultOpts()
	if rapid.Bool().Draw(t, "v6hosts") {
		o.SrcHost, o.DstHost = addr.MustParseHost("2001:db8::7"), addr.MustParseHost("2001:db8::9")
	}
	o.SrcPort = uint16(rapid.IntRange(1024, 65535).Draw(t, "sport"))
	o.DstPort = uint16(rapid.IntRange(1024, 65535).Draw(t, "dport"))
	o.TrafficClass = rapid.Uint8().Draw(t, "tc")
	o.FlowID = rapid.Uint32Range(0, 0xfffff).Draw(t, "flow")
	o.Payload = rapid.SliceOfN(rapid.Byte(), 0, 200).Draw(t, "payload")
	genOpts := func(label string) []Opt {
		var out []Opt
		for i := rapid.IntRange(0, 3).Draw(t, label+"n"); i > 0; i-- {
			out = append(out, Opt{Type: uint8(rapid.IntRange(3, 255).Draw(t, label+"type")),
				Data: rapid.SliceOfN(rapid.Byte(), 0, 30).Draw(t, label+"data")})
		}
		return out
	}
	if rapid.IntRange(0, 2).Draw(t, "hbh") == 0 {
		o.WithHBH, o.HBH = true, genOpts("hbh")
	}
	if rapid.IntRange(0, 2).Draw(t, "e2e") == 0 {
		o.WithE2E, o.E2E = true, genOpts("e2e")
	}
	return o
}

// InterfaceSeq lists the inter-AS interfaces crossed by the forward part of a walk (reply=false)
// or by the walk of a router-generated answer (reply=true), as "IA#id".
func (s *Sim) InterfaceSeq(w WalkResult, reply bool) []string {
	var seq []string
	for _, st := range w.Steps {
		if st.Reply != reply {
			continue
		}
		if st.Via == "ext" {
			seq = append(seq, fmt.Sprintf("%s#%d", st.IA, st.Ingress))
		}
		if st.Res.Disposition == 1 && st.Res.Egress != 0 && s.ASes[st.IA].Routers[st.Router].Owned[st.Res.Egress] {
			seq = append(seq, fmt.Sprintf("%s#%d", st.IA, st.Res.Egress))
		}
	}
	return seq
}
