package netsim

import (
	"context"
	"fmt"
	"net"
	"testing"

	"github.com/gopacket/gopacket"
	"pgregory.net/rapid"

	"github.com/scionproto/scion/pkg/addr"
	seg "github.com/scionproto/scion/pkg/segment"
	"github.com/scionproto/scion/pkg/slayers"
	scionpath "github.com/scionproto/scion/pkg/slayers/path/scion"
	"github.com/scionproto/scion/private/path/combinator"
	infra "github.com/scionproto/scion/private/segment/verifier"
	"github.com/scionproto/scion/private/topology"
)

// GenTopo draws a random, well-formed SCION inter-network.
func GenTopo(t *rapid.T) Topo {
	var topo Topo
	nISD := rapid.IntRange(1, 2).Draw(t, "nISD")
	type asRef struct {
		idx   int
		isd   int
		core  bool
		depth int
	}
	var all []asRef
	nextIf := map[int]uint16{}
	addAS := func(isd int, core bool, depth int) int {
		idx := len(topo.ASes)
		var as addr.AS
		if rapid.IntRange(0, 3).Draw(t, "bgpAS") == 0 {
			as = addr.AS(64500 + idx)
		} else {
			as = addr.MustParseAS(fmt.Sprintf("ff00:0:%x", 0x100*isd+idx+1))
		}
		key := rapid.SliceOfN(rapid.Byte(), 16, 16).Draw(t, "key")
		topo.ASes = append(topo.ASes, ASSpec{IA: addr.MustIAFrom(addr.ISD(isd), as), Core: core, Master: key,
			MTU:        uint16(rapid.IntRange(1300, 1500).Draw(t, "asMTU")),
			NumRouters: rapid.IntRange(1, 3).Draw(t, "routers")})
		nextIf[idx] = uint16(rapid.IntRange(1, 40).Draw(t, "ifBase"))
		all = append(all, asRef{idx, isd, core, depth})
		return idx
	}
	link := func(a, b int, aTo, bTo topology.LinkType) {
		mtu := uint16(rapid.IntRange(1200, 1500).Draw(t, "linkMTU"))
		ia, ib := nextIf[a], nextIf[b]
		nextIf[a] += uint16(rapid.IntRange(1, 3).Draw(t, "ifStep"))
		nextIf[b] += uint16(rapid.IntRange(1, 3).Draw(t, "ifStep"))
		A, B := &topo.ASes[a], &topo.ASes[b]
		A.Ifs = append(A.Ifs, IfSpec{ID: ia, Remote: B.IA, RemoteID: ib, LinkTo: aTo, MTU: mtu,
			Router: rapid.IntRange(0, A.NumRouters-1).Draw(t, "rtr")})
		B.Ifs = append(B.Ifs, IfSpec{ID: ib, Remote: A.IA, RemoteID: ia, LinkTo: bTo, MTU: mtu,
			Router: rapid.IntRange(0, B.NumRouters-1).Draw(t, "rtr")})
	}
	var cores []int
	for isd := 1; isd <= nISD; isd++ {
		n := rapid.IntRange(1, 2).Draw(t, "nCore")
		for i := 0; i < n; i++ {
			c := addAS(isd, true, 0)
			if len(cores) > 0 {
				link(cores[rapid.IntRange(0, len(cores)-1).Draw(t, "coreNbr")], c, topology.Core, topology.Core)
			}
			cores = append(cores, c)
		}
	}
	// extra (possibly parallel) core links
	if len(cores) > 1 {
		for i := rapid.IntRange(0, 2).Draw(t, "extraCore"); i > 0; i-- {
			a := rapid.IntRange(0, len(cores)-1).Draw(t, "a")
			b := rapid.IntRange(0, len(cores)-2).Draw(t, "b")
			if b >= a {
				b++
			}
			link(cores[a], cores[b], topology.Core, topology.Core)
		}
	}
	nNon := rapid.IntRange(0, 5).Draw(t, "nNonCore")
	for i := 0; i < nNon; i++ {
		isd := rapid.IntRange(1, nISD).Draw(t, "isd")
		// candidate parents: same ISD, depth < 3
		var cands []asRef
		for _, r := range all {
			if r.isd == isd && r.depth < 3 {
				cands = append(cands, r)
			}
		}
		p1 := cands[rapid.IntRange(0, len(cands)-1).Draw(t, "parent")]
		c := addAS(isd, false, p1.depth+1)
		link(p1.idx, c, topology.Child, topology.Parent)
		if rapid.IntRange(0, 2).Draw(t, "second") == 0 {
			p2 := cands[rapid.IntRange(0, len(cands)-1).Draw(t, "parent2")]
			link(p2.idx, c, topology.Child, topology.Parent) // may be parallel to the first
		}
	}
	// peering between non-core ASes
	var non []int
	for _, r := range all {
		if !r.core {
			non = append(non, r.idx)
		}
	}
	if len(non) > 1 {
		for i := rapid.IntRange(0, 3).Draw(t, "nPeer"); i > 0; i-- {
			a := rapid.IntRange(0, len(non)-1).Draw(t, "pa")
			b := rapid.IntRange(0, len(non)-2).Draw(t, "pb")
			if b >= a {
				b++
			}
			link(non[a], non[b], topology.Peer, topology.Peer)
		}
	}
	return topo
}

func buildUDP(src, dst addr.IA, raw *scionpath.Raw) ([]byte, error) {
	s := &slayers.SCION{FlowID: 1, NextHdr: slayers.L4UDP, PathType: scionpath.PathType,
		Path: raw, SrcIA: src, DstIA: dst}
	_ = s.SetSrcAddr(addr.MustParseHost("10.9.9.7"))
	_ = s.SetDstAddr(addr.MustParseHost("10.9.9.9"))
	udp := &slayers.UDP{SrcPort: 40001, DstPort: 40002}
	udp.SetNetworkLayerForChecksum(s)
	buf := gopacket.NewSerializeBuffer()
	if err := gopacket.SerializeLayers(buf,
		gopacket.SerializeOptions{FixLengths: true, ComputeChecksums: true},
		s, udp, gopacket.Payload([]byte("payload"))); err != nil {
		return nil, err
	}
	return append([]byte{}, buf.Bytes()...), nil
}

func TestGenTopoPaths(t *testing.T) {
	stats := map[string]int{}
	signers := litSigners()
	rapid.Check(t, func(rt *rapid.T) {
		topo := GenTopo(rt)
		sim, err := New(topo, signers, infra.AcceptAllVerifier{})
		if err != nil {
			rt.Fatalf("building sim: %v", err)
		}
		defer sim.Close()
		ctx := context.Background()
		sim.Originate(ctx)
		for round := 0; round < 5; round++ {
			if ok, rej := sim.Deliver(ctx); ok+rej == 0 {
				break
			} else if rej > 0 {
				rt.Fatalf("beacons rejected: %d", rej)
			}
			sim.Propagate(ctx)
		}
		if err := sim.Register(ctx); err != nil {
			rt.Fatalf("register: %v", err)
		}
		var cores []*seg.PathSegment
		for _, x := range sim.Order {
			cores = append(cores, sim.ASes[x].Registered[seg.TypeCore]...)
		}
		stats["topos"]++
		stats[fmt.Sprintf("ases=%d", len(topo.ASes))]++
		for _, src := range sim.Order {
			for _, dst := range sim.Order {
				if src == dst {
					continue
				}
				paths := combinator.Combine(src, dst, sim.ASes[src].Registered[seg.TypeUp], cores,
					sim.ASes[dst].Registered[seg.TypeDown], false)
				for _, p := range paths {
					raw := &scionpath.Raw{}
					if err := raw.DecodeFromBytes(p.SCIONPath.Raw); err != nil {
						rt.Fatalf("decode: %v", err)
					}
					b, err := buildUDP(src, dst, raw)
					if err != nil {
						rt.Fatalf("build: %v", err)
					}
					w := sim.Walk(src, uint16(p.Metadata.Interfaces[0].ID),
						&net.UDPAddr{IP: net.IPv4(10, 9, 9, 7), Port: 40001}, b)
					stats["paths"]++
					if inf, _ := raw.GetInfoField(0); inf.Peer {
						stats["peering"]++
					}
					if !w.Delivered || w.DeliverIA != dst {
						for _, st := range w.Steps {
							rt.Logf("   %s r%d in=%d via=%s -> %+v", st.IA, st.Router, st.Ingress, st.Via, st.Res)
						}
						rt.Fatalf("%s -> %s meta=%v pathmeta=%v: not delivered: %s", src, dst,
							p.Metadata.Interfaces, raw.PathMeta, w.Stopped)
					}
					// interface sequence
					var seq []string
					for _, st := range w.Steps {
						if st.Via == "ext" {
							seq = append(seq, fmt.Sprintf("%s#%d", st.IA, st.Ingress))
						}
						if st.Res.Egress != 0 && sim.ASes[st.IA].Routers[st.Router].Owned[st.Res.Egress] {
							seq = append(seq, fmt.Sprintf("%s#%d", st.IA, st.Res.Egress))
						}
					}
					var want []string
					for _, i := range p.Metadata.Interfaces {
						want = append(want, fmt.Sprintf("%s#%d", i.IA, i.ID))
					}
					if fmt.Sprint(seq) != fmt.Sprint(want) {
						rt.Fatalf("interface sequence %v != metadata %v", seq, want)
					}
				}
			}
		}
	})
	t.Logf("stats: %v", stats)
}
