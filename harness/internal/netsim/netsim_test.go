package netsim

import (
	"context"
	"fmt"
	"crypto/ecdsa"
	"crypto/elliptic"
	"crypto/rand"
	"net"
	"testing"
	"time"

	"github.com/gopacket/gopacket"

	"github.com/scionproto/scion/control/beaconing"
	"github.com/scionproto/scion/pkg/addr"
	"github.com/scionproto/scion/pkg/scrypto/cppki"
	"github.com/scionproto/scion/pkg/scrypto/signed"
	seg "github.com/scionproto/scion/pkg/segment"
	"github.com/scionproto/scion/pkg/slayers"
	scionpath "github.com/scionproto/scion/pkg/slayers/path/scion"
	"github.com/scionproto/scion/private/path/combinator"
	infra "github.com/scionproto/scion/private/segment/verifier"
	"github.com/scionproto/scion/private/topology"
	"github.com/scionproto/scion/private/trust"
)

func ia(s string) addr.IA { return addr.MustParseIA(s) }

// fixed topology:
//
//	C1 ==== C2        (two parallel core links)
//	| \      |
//	A   B----+        (B has parents C1 and C2)
//	|
//	D                 peering: A--E? E under C2;  B--D peering
func fixedTopo() Topo {
	C1, C2, A, B, D, E := ia("1-ff00:0:110"), ia("1-ff00:0:120"), ia("1-ff00:0:111"),
		ia("1-ff00:0:112"), ia("1-ff00:0:113"), ia("1-ff00:0:121")
	P, Ch, Co, Pe := topology.Parent, topology.Child, topology.Core, topology.Peer
	return Topo{ASes: []ASSpec{
		{IA: C1, Core: true, Master: []byte("master-C1-000000"), MTU: 1472, NumRouters: 2, Ifs: []IfSpec{
			{ID: 1, Remote: C2, RemoteID: 1, LinkTo: Co, MTU: 1400, Router: 0},
			{ID: 2, Remote: C2, RemoteID: 2, LinkTo: Co, MTU: 1350, Router: 1},
			{ID: 11, Remote: A, RemoteID: 1, LinkTo: Ch, MTU: 1400, Router: 0},
			{ID: 12, Remote: B, RemoteID: 1, LinkTo: Ch, MTU: 1400, Router: 1},
		}},
		{IA: C2, Core: true, Master: []byte("master-C2-000000"), MTU: 1472, NumRouters: 1, Ifs: []IfSpec{
			{ID: 1, Remote: C1, RemoteID: 1, LinkTo: Co, MTU: 1400},
			{ID: 2, Remote: C1, RemoteID: 2, LinkTo: Co, MTU: 1350},
			{ID: 21, Remote: B, RemoteID: 2, LinkTo: Ch, MTU: 1400},
			{ID: 22, Remote: E, RemoteID: 1, LinkTo: Ch, MTU: 1400},
		}},
		{IA: A, Master: []byte("master-A-0000000"), MTU: 1472, NumRouters: 2, Ifs: []IfSpec{
			{ID: 1, Remote: C1, RemoteID: 11, LinkTo: P, MTU: 1400, Router: 0},
			{ID: 3, Remote: D, RemoteID: 1, LinkTo: Ch, MTU: 1300, Router: 1},
			{ID: 4, Remote: E, RemoteID: 4, LinkTo: Pe, MTU: 1250, Router: 1},
		}},
		{IA: B, Master: []byte("master-B-0000000"), MTU: 1472, NumRouters: 1, Ifs: []IfSpec{
			{ID: 1, Remote: C1, RemoteID: 12, LinkTo: P, MTU: 1400},
			{ID: 2, Remote: C2, RemoteID: 21, LinkTo: P, MTU: 1400},
			{ID: 5, Remote: D, RemoteID: 5, LinkTo: Pe, MTU: 1200},
		}},
		{IA: D, Master: []byte("master-D-0000000"), MTU: 1472, NumRouters: 1, Ifs: []IfSpec{
			{ID: 1, Remote: A, RemoteID: 3, LinkTo: P, MTU: 1300},
			{ID: 5, Remote: B, RemoteID: 5, LinkTo: Pe, MTU: 1200},
		}},
		{IA: E, Master: []byte("master-E-0000000"), MTU: 1472, NumRouters: 1, Ifs: []IfSpec{
			{ID: 1, Remote: C2, RemoteID: 22, LinkTo: P, MTU: 1400},
			{ID: 4, Remote: A, RemoteID: 4, LinkTo: Pe, MTU: 1250},
		}},
	}}
}

func litSigners() func(addr.IA) beaconing.SignerGen {
	cache := map[addr.IA]trust.Signer{}
	return func(ia addr.IA) beaconing.SignerGen {
		s, ok := cache[ia]
		if !ok {
			priv, _ := ecdsa.GenerateKey(elliptic.P256(), rand.Reader)
			s = trust.Signer{PrivateKey: priv, Algorithm: signed.ECDSAWithSHA256, IA: ia,
				TRCID:        cppki.TRCID{ISD: ia.ISD(), Base: 1, Serial: 1},
				SubjectKeyID: []byte("skid"), Expiration: time.Now().Add(48 * time.Hour),
				ChainValidity: cppki.Validity{NotBefore: time.Now().Add(-time.Hour),
					NotAfter: time.Now().Add(48 * time.Hour)}}
			cache[ia] = s
		}
		return beaconing.SignerGenFunc(func(ctx context.Context) ([]beaconing.Signer, error) {
			return []beaconing.Signer{s}, nil
		})
	}
}

func TestFixed(t *testing.T) {
	topo := fixedTopo()
	sim, err := New(topo, litSigners(), infra.AcceptAllVerifier{})
	if err != nil {
		t.Fatal(err)
	}
	defer sim.Close()
	sim.Log = t.Logf
	ctx := context.Background()
	t0 := time.Now()
	sim.Originate(ctx)
	for round := 0; round < 6; round++ {
		ok, rej := sim.Deliver(ctx)
		t.Logf("round %d: delivered ok=%d rejected=%d", round, ok, rej)
		if ok+rej == 0 {
			break
		}
		sim.Propagate(ctx)
	}
	if err := sim.Register(ctx); err != nil {
		t.Fatal(err)
	}
	t.Logf("beaconing took %v", time.Since(t0))
	var cores []*seg.PathSegment
	for _, iaX := range sim.Order {
		a := sim.ASes[iaX]
		t.Logf("%s: up=%d down=%d core=%d", iaX, len(a.Registered[seg.TypeUp]),
			len(a.Registered[seg.TypeDown]), len(a.Registered[seg.TypeCore]))
		cores = append(cores, a.Registered[seg.TypeCore]...)
	}
	total, delivered := 0, 0
	stats := map[string]int{}
	for _, src := range sim.Order {
		for _, dst := range sim.Order {
			if src == dst {
				continue
			}
			ups := sim.ASes[src].Registered[seg.TypeUp]
			downs := sim.ASes[dst].Registered[seg.TypeDown]
			paths := combinator.Combine(src, dst, ups, cores, downs, false)
			for _, p := range paths {
				total++
				raw := &scionpath.Raw{}
				if err := raw.DecodeFromBytes(p.SCIONPath.Raw); err != nil {
					t.Fatal(err)
				}
				s := &slayers.SCION{FlowID: 1, NextHdr: slayers.L4UDP, PathType: scionpath.PathType,
					Path: raw, SrcIA: src, DstIA: dst}
				_ = s.SetSrcAddr(addr.MustParseHost("10.9.9.7"))
				_ = s.SetDstAddr(addr.MustParseHost("10.9.9.9"))
				udp := &slayers.UDP{SrcPort: 40001, DstPort: 40002}
				udp.SetNetworkLayerForChecksum(s)
				buf := gopacket.NewSerializeBuffer()
				if err := gopacket.SerializeLayers(buf,
					gopacket.SerializeOptions{FixLengths: true, ComputeChecksums: true},
					s, udp, gopacket.Payload([]byte("payload"))); err != nil {
					t.Fatal(err)
				}
				w := sim.Walk(src, uint16(p.Metadata.Interfaces[0].ID),
					&net.UDPAddr{IP: net.IPv4(10, 9, 9, 7), Port: 40001}, buf.Bytes())
				if w.Delivered && w.DeliverIA == dst {
					delivered++
					stats[fmt.Sprintf("segs=%d", raw.NumINF)]++
					if inf, _ := raw.GetInfoField(0); inf.Peer {
						stats["peering"]++
					}
					for _, st := range w.Steps {
						if st.Via == "sib" {
							stats["sibling"]++
							break
						}
					}
					if len(p.Metadata.Interfaces) < 2*(raw.NumHops-raw.NumINF+1) {
						stats["shortcut-ish"]++
					}
				} else {
					t.Errorf("%s -> %s path %v meta=%v: not delivered: %s", src, dst,
						raw.PathMeta, p.Metadata.Interfaces, w.Stopped)
					for _, st := range w.Steps {
						t.Logf("   %s r%d in=%d via=%s -> %+v", st.IA, st.Router, st.Ingress, st.Via, st.Res)
					}
				}
			}
		}
	}
	t.Logf("paths=%d delivered=%d stats=%v", total, delivered, stats)
}
