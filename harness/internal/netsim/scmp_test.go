package netsim

import (
	"context"
	"fmt"
	"net"
	"testing"

	"github.com/gopacket/gopacket"
	"pgregory.net/rapid"

	seg "github.com/scionproto/scion/pkg/segment"
	"github.com/scionproto/scion/pkg/slayers"
	scionpath "github.com/scionproto/scion/pkg/slayers/path/scion"
	"github.com/scionproto/scion/private/path/combinator"
	infra "github.com/scionproto/scion/private/segment/verifier"
)

// Break the MAC of one hop field of every path; the router that detects it answers with an SCMP
// error, which must travel back to the source host.
func TestSCMPComesBack(t *testing.T) {
	stats := map[string]int{}
	signers := litSigners()
	rapid.Check(t, func(rt *rapid.T) {
		topo := GenTopo(rt)
		sim, err := New(topo, signers, infra.AcceptAllVerifier{})
		if err != nil {
			rt.Fatalf("building sim: %v", err)
		}
		defer sim.Close()
		ctx := context.Background()
		sim.Originate(ctx)
		for round := 0; round < 5; round++ {
			if ok, rej := sim.Deliver(ctx); ok+rej == 0 {
				break
			}
			sim.Propagate(ctx)
		}
		_ = sim.Register(ctx)
		var cores []*seg.PathSegment
		for _, x := range sim.Order {
			cores = append(cores, sim.ASes[x].Registered[seg.TypeCore]...)
		}
		for _, src := range sim.Order {
			for _, dst := range sim.Order {
				if src == dst {
					continue
				}
				paths := combinator.Combine(src, dst, sim.ASes[src].Registered[seg.TypeUp], cores,
					sim.ASes[dst].Registered[seg.TypeDown], false)
				for pi, p := range paths {
					raw := &scionpath.Raw{}
					if err := raw.DecodeFromBytes(append([]byte{}, p.SCIONPath.Raw...)); err != nil {
						rt.Fatalf("decode: %v", err)
					}
					// corrupt hop k (deterministic choice per path)
					k := (pi*7 + 1) % raw.NumHops
					hf, _ := raw.GetHopField(k)
					hf.Mac[5] ^= 0x01
					_ = raw.SetHopField(hf, k)
					b, err := buildUDP(src, dst, raw)
					if err != nil {
						rt.Fatalf("build: %v", err)
					}
					srcHost := &net.UDPAddr{IP: net.IPv4(10, 9, 9, 7), Port: 40001}
					w := sim.Walk(src, uint16(p.Metadata.Interfaces[0].ID), srcHost, b)
					stats["paths"]++
					if w.Delivered {
						rt.Fatalf("packet with corrupted hop %d delivered", k)
					}
					if w.SlowPath == nil {
						stats["silently-dropped"]++
						rt.Fatalf("corrupted hop %d: no SCMP: %s", k, w.Stopped)
					}
					var d slayers.SCION
					if err := d.DecodeFromBytes(w.SlowPath, gopacket.NilDecodeFeedback); err != nil {
						rt.Fatalf("SCMP packet does not decode: %v", err)
					}
					if !w.ReplyDelivered || w.ReplyIA != src {
						for _, st := range w.Steps {
							rt.Logf("   reply=%v %s r%d in=%d via=%s -> %+v", st.Reply, st.IA, st.Router, st.Ingress, st.Via, st.Res)
						}
						rt.Fatalf("%s->%s hop %d/%d pathmeta=%v: SCMP from %s not delivered to source: %s",
							src, dst, k, raw.NumHops, raw.PathMeta, w.SlowAt.IA, w.ReplyStopped)
					}
					if w.ReplyTo.IP.String() != "10.9.9.7" {
						rt.Fatalf("SCMP delivered to %v", w.ReplyTo)
					}
					stats[fmt.Sprintf("at-%s", w.SlowAt.Via)]++
					stats[fmt.Sprintf("port-%d", w.ReplyTo.Port)]++
				}
			}
		}
	})
	t.Logf("stats: %v", stats)
}
