package netsim

import (
	"context"
	"crypto"
	"crypto/elliptic"
	"crypto/x509"
	"fmt"
	"testing"
	"time"

	"github.com/scionproto/scion/control/beaconing"
	"github.com/scionproto/scion/pkg/addr"
	seg "github.com/scionproto/scion/pkg/segment"
	sdb "github.com/scionproto/scion/private/storage/db"
	trustsql "github.com/scionproto/scion/private/storage/trust/sqlite"
	"github.com/scionproto/scion/private/path/combinator"
	"github.com/scionproto/scion/private/trust"
	"github.com/scionproto/scion/private/trust/compat"

	"verif/internal/pki"
)

type ring []crypto.Signer

func (r ring) PrivateKeys(ctx context.Context) ([]crypto.Signer, error) { return r, nil }

func TestRealTrust(t *testing.T) {
	topo := fixedTopo()
	now := time.Now()
	nb, na := now.Add(-time.Hour).Truncate(time.Second), now.Add(72*time.Hour).Truncate(time.Second)
	isd, err := pki.NewISD(1, []addr.AS{ia("1-ff00:0:110").AS(), ia("1-ff00:0:120").AS()}, nb, na, 0)
	if err != nil {
		t.Fatal(err)
	}
	db, err := trustsql.New(fmt.Sprintf("real_%d", time.Now().UnixNano()), &sdb.SqliteConfig{InMemory: true})
	if err != nil {
		t.Fatal(err)
	}
	defer db.Close()
	ctx := context.Background()
	if _, err := db.InsertTRC(ctx, isd.Base); err != nil {
		t.Fatal(err)
	}
	gens := map[addr.IA]trust.SignerGen{}
	for i, a := range topo.ASes {
		key := pki.Key(elliptic.P256(), 200+i)
		chain, err := isd.ASChain(a.IA, key, i%2, nb.Add(time.Minute), na.Add(-time.Minute))
		if err != nil {
			t.Fatal(err)
		}
		if _, err := db.InsertChain(ctx, chain); err != nil {
			t.Fatal(err)
		}
		gens[a.IA] = trust.SignerGen{IA: a.IA, KeyRing: ring{key}, DB: db, ExtKeyUsage: x509.ExtKeyUsageAny}
	}
	signers := func(ia addr.IA) beaconing.SignerGen {
		g := gens[ia]
		return beaconing.SignerGenFunc(func(ctx context.Context) ([]beaconing.Signer, error) {
			ss, err := g.Generate(ctx)
			if err != nil {
				return nil, err
			}
			var r []beaconing.Signer
			for _, s := range ss {
				r = append(r, s)
			}
			return r, nil
		})
	}
	verifier := compat.Verifier{Verifier: trust.Verifier{
		Engine: trust.FetchingProvider{DB: db, Recurser: trust.NeverRecurser{}}}}
	sim, err := New(topo, signers, verifier)
	if err != nil {
		t.Fatal(err)
	}
	defer sim.Close()
	sim.Log = t.Logf
	t0 := time.Now()
	sim.Originate(ctx)
	for round := 0; round < 4; round++ {
		ok, rej := sim.Deliver(ctx)
		t.Logf("round %d ok=%d rej=%d", round, ok, rej)
		sim.Propagate(ctx)
	}
	if err := sim.Register(ctx); err != nil {
		t.Fatal(err)
	}
	t.Logf("beaconing with real trust took %v", time.Since(t0))
	var cores []*seg.PathSegment
	n := 0
	for _, x := range sim.Order {
		cores = append(cores, sim.ASes[x].Registered[seg.TypeCore]...)
	}
	for _, src := range sim.Order {
		for _, dst := range sim.Order {
			if src != dst {
				n += len(combinator.Combine(src, dst, sim.ASes[src].Registered[seg.TypeUp], cores,
					sim.ASes[dst].Registered[seg.TypeDown], false))
			}
		}
	}
	t.Logf("paths=%d", n)
}
