// Package netsim is a prototype multi-AS simulator built from the real control-plane and
// data-plane components of scionproto/scion.
package netsim

import (
	"context"
	"fmt"
	"net"
	"net/netip"
	"sort"
	"sync"
	"time"

	"github.com/scionproto/scion/control/beacon"
	"github.com/scionproto/scion/control/beaconing"
	"github.com/scionproto/scion/control/ifstate"
	"github.com/scionproto/scion/control/segreg"
	"github.com/scionproto/scion/pkg/addr"
	"github.com/scionproto/scion/pkg/private/ptr"
	"github.com/scionproto/scion/pkg/scrypto"
	seg "github.com/scionproto/scion/pkg/segment"
	"github.com/scionproto/scion/pkg/segment/iface"
	"github.com/scionproto/scion/pkg/segment/extensions/discovery"
	"github.com/scionproto/scion/pkg/snet"
	snetpath "github.com/scionproto/scion/pkg/snet/path"
	beaconsql "github.com/scionproto/scion/private/storage/beacon/sqlite"
	sdb "github.com/scionproto/scion/private/storage/db"
	infra "github.com/scionproto/scion/private/segment/verifier"
	"github.com/scionproto/scion/private/topology"
	"github.com/scionproto/scion/private/underlay/conn"
	"github.com/scionproto/scion/router"
	rctrl "github.com/scionproto/scion/router/control"
	_ "github.com/scionproto/scion/router/underlayproviders/udpip"
)

// ---------------------------------------------------------------------------------------------
// Topology description

type IfSpec struct {
	ID       uint16
	Remote   addr.IA
	RemoteID uint16
	LinkTo   topology.LinkType
	MTU      uint16
	Router   int // index of the owning border router
}

type ASSpec struct {
	IA         addr.IA
	Core       bool
	Master     []byte
	MTU        uint16
	NumRouters int
	Ifs        []IfSpec
}

type Topo struct {
	ASes []ASSpec
	// MaxHops, if > 0, replaces the default maximum beacon length (10 AS entries) of all policies.
	MaxHops int
}

// ---------------------------------------------------------------------------------------------
// Simulator

type Router struct {
	Idx      int
	DP       *router.VerifDataPlane
	FP       *router.VerifFastPath
	SP       *router.VerifSlowPath
	Internal netip.AddrPort
	Owned    map[uint16]bool
	Opened   []OpenRec
}

type OpenRec struct {
	Local, Remote netip.AddrPort
	Cfg           conn.Config
}

type storeI interface {
	beaconing.BeaconInserter
	BeaconsToPropagate(ctx context.Context) ([]beacon.Beacon, error)
	SegmentsToRegister(ctx context.Context, segType seg.Type) (
		[]beacon.Beacon, []beacon.RegistrationPolicy, error)
	MaxExpTime(policyType beacon.PolicyType) uint8
}

type AS struct {
	Spec       ASSpec
	Intfs      *ifstate.Interfaces
	Store      storeI
	DB         *beaconsql.Backend
	Handler    beaconing.Handler
	Routers    []*Router
	Registered map[seg.Type][]*seg.PathSegment
	sim        *Sim
}

type Sim struct {
	Topo     Topo
	ASes     map[addr.IA]*AS
	Order    []addr.IA
	Signers  func(ia addr.IA) beaconing.SignerGen
	Verifier infra.Verifier
	queue    []delivery
	mu       sync.Mutex
	Log      func(format string, args ...any)
	dbSeq    int
	EPIC     bool
	// Perm, if set, chooses the order in which queued beacons are delivered (a permutation of
	// 0..n-1 applied after the deterministic sort). It models beacon propagation orders.
	Perm func(n int) []int
}

type delivery struct {
	from   addr.IA
	egress uint16
	seg    *seg.PathSegment
}

var dbCounter int
var dbMu sync.Mutex

func nextDBName() string {
	dbMu.Lock()
	defer dbMu.Unlock()
	dbCounter++
	return fmt.Sprintf("netsim_beacon_%d_%d", time.Now().UnixNano(), dbCounter)
}

// nullConn is a BatchConn that is never used for I/O.
type nullConn struct{}

func (nullConn) ReadBatch(conn.Messages) (int, error)           { select {} }
func (nullConn) WriteBatch(m conn.Messages, f int) (int, error) { return len(m), nil }
func (nullConn) Close() error                                   { return nil }

type recOpener struct{ r *Router }

func (o recOpener) Open(l, r netip.AddrPort, c *conn.Config) (router.BatchConn, error) {
	o.r.Opened = append(o.r.Opened, OpenRec{Local: l, Remote: r, Cfg: *c})
	return nullConn{}, nil
}
func (o recOpener) UDPCanReuseLocal() bool { return true }

func ifaceID(x uint16) iface.ID { return iface.ID(x) }

func asIndex(t Topo, ia addr.IA) int {
	for i, a := range t.ASes {
		if a.IA == ia {
			return i
		}
	}
	return -1
}

func internalAddr(asIdx, rIdx int) netip.AddrPort {
	return netip.AddrPortFrom(netip.AddrFrom4([4]byte{10, byte(asIdx + 1), 0, byte(rIdx + 1)}), 30042)
}

func extAddr(asIdx int, ifID uint16) netip.AddrPort {
	return netip.AddrPortFrom(
		netip.AddrFrom4([4]byte{172, byte(16 + asIdx), byte(ifID >> 8), byte(ifID)}), 50000)
}

// New builds all per-AS components.
func New(t Topo, signers func(ia addr.IA) beaconing.SignerGen, verifier infra.Verifier) (*Sim, error) {
	s := &Sim{Topo: t, ASes: map[addr.IA]*AS{}, Signers: signers, Verifier: verifier,
		Log: func(string, ...any) {}}
	for i, spec := range t.ASes {
		a := &AS{Spec: spec, Registered: map[seg.Type][]*seg.PathSegment{}, sim: s}
		infos := map[uint16]ifstate.InterfaceInfo{}
		for _, ifs := range spec.Ifs {
			infos[ifs.ID] = ifstate.InterfaceInfo{ID: ifs.ID, IA: ifs.Remote, LinkType: ifs.LinkTo,
				RemoteID: ifs.RemoteID, MTU: ifs.MTU, InternalAddr: internalAddr(i, ifs.Router)}
		}
		a.Intfs = ifstate.NewInterfaces(infos, ifstate.Config{})
		db, err := beaconsql.New(nextDBName(), spec.IA, &sdb.SqliteConfig{InMemory: true})
		if err != nil {
			return nil, err
		}
		a.DB = db
		if spec.Core {
			cp := beacon.CorePolicies{}
			if t.MaxHops > 0 {
				cp.Prop.Filter.MaxHopsLength, cp.CoreReg.Filter.MaxHopsLength = t.MaxHops, t.MaxHops
			}
			st, err := beacon.NewCoreBeaconStore(cp, db)
			if err != nil {
				return nil, err
			}
			a.Store = st
		} else {
			np := beacon.Policies{}
			if t.MaxHops > 0 {
				np.Prop.Filter.MaxHopsLength, np.UpReg.Filter.MaxHopsLength, np.DownReg.Filter.MaxHopsLength = t.MaxHops, t.MaxHops, t.MaxHops
			}
			st, err := beacon.NewBeaconStore(np, db)
			if err != nil {
				return nil, err
			}
			a.Store = st
		}
		a.Handler = beaconing.Handler{LocalIA: spec.IA, Inserter: a.Store, Verifier: verifier,
			Interfaces: a.Intfs}
		// routers
		for r := 0; r < spec.NumRouters; r++ {
			rt, err := s.buildRouter(i, r, spec)
			if err != nil {
				return nil, err
			}
			a.Routers = append(a.Routers, rt)
		}
		s.ASes[spec.IA] = a
		s.Order = append(s.Order, spec.IA)
	}
	return s, nil
}

func (s *Sim) Close() {
	for _, a := range s.ASes {
		a.DB.Close()
	}
}

func (s *Sim) buildRouter(asIdx, rIdx int, spec ASSpec) (*Router, error) {
	rt := &Router{Idx: rIdx, Owned: map[uint16]bool{}, Internal: internalAddr(asIdx, rIdx)}
	dp := router.NewVerifDataPlane(router.RunConfig{NumProcessors: 1, NumSlowPathProcessors: 1,
		BatchSize: 8}, false)
	dp.Underlay("udpip").SetConnOpener(recOpener{rt})
	if err := dp.SetIA(spec.IA); err != nil {
		return nil, err
	}
	if err := dp.SetKey(rctrl.DeriveHFMacKey(spec.Master)); err != nil {
		return nil, err
	}
	ih := addr.HostIP(rt.Internal.Addr())
	if err := dp.AddInternalInterface(ih, "udpip", rt.Internal.String()); err != nil {
		return nil, err
	}
	nobfd := rctrl.BFD{Disable: ptr.To(true)}
	ifs := append([]IfSpec{}, spec.Ifs...)
	sort.Slice(ifs, func(i, j int) bool { return ifs[i].ID < ifs[j].ID })
	for _, ifc := range ifs {
		if err := dp.AddNeighborIA(ifc.ID, ifc.Remote); err != nil {
			return nil, err
		}
		if ifc.Router == rIdx {
			rt.Owned[ifc.ID] = true
			remIdx := asIndex(s.Topo, ifc.Remote)
			l, r := extAddr(asIdx, ifc.ID), extAddr(remIdx, ifc.RemoteID)
			li := rctrl.LinkInfo{Provider: "udpip",
				Local:  rctrl.LinkEnd{IA: spec.IA, Addr: l.String()},
				Remote: rctrl.LinkEnd{IA: ifc.Remote, Addr: r.String()},
				LinkTo: ifc.LinkTo, BFD: nobfd, MTU: int(ifc.MTU)}
			if err := dp.AddExternalInterface(ifc.ID, li, addr.HostIP(l.Addr()),
				addr.HostIP(r.Addr())); err != nil {
				return nil, err
			}
		} else {
			sib := internalAddr(asIdx, ifc.Router)
			li := rctrl.LinkInfo{Provider: "udpip",
				Local:  rctrl.LinkEnd{IA: spec.IA, Addr: rt.Internal.String()},
				Remote: rctrl.LinkEnd{IA: ifc.Remote, Addr: sib.String()},
				LinkTo: ifc.LinkTo, BFD: nobfd, MTU: int(ifc.MTU)}
			if err := dp.AddNextHop(ifc.ID, li, ih, addr.HostIP(sib.Addr())); err != nil {
				return nil, err
			}
		}
	}
	dp.SetPortRange(1024, 65535)
	rt.DP = dp
	rt.FP = dp.NewFastPath()
	rt.SP = dp.NewSlowPath()
	return rt, nil
}

// ---------------------------------------------------------------------------------------------
// Beaconing

func (a *AS) extender(task string, pol beacon.PolicyType) *beaconing.DefaultExtender {
	macF, err := scrypto.HFMacFactory(a.Spec.Master)
	if err != nil {
		panic(err)
	}
	return &beaconing.DefaultExtender{
		IA: a.Spec.IA, SignerGen: a.sim.Signers(a.Spec.IA), MAC: macF, Intfs: a.Intfs,
		MTU:                  a.Spec.MTU,
		MaxExpTime:           func() uint8 { return a.Store.MaxExpTime(pol) },
		Task:                 task,
		StaticInfo:           func() *beaconing.StaticInfoCfg { return nil },
		DiscoveryInformation: func() *discovery.Extension { return nil },
		EPIC:                 a.sim.EPIC,
	}
}

type simSender struct {
	s      *Sim
	from   addr.IA
	egress uint16
}

func (x simSender) Send(ctx context.Context, b *seg.PathSegment) error {
	// Cross the "wire" through protobuf, as the gRPC transport would.
	c, err := seg.BeaconFromPB(seg.PathSegmentToPB(b))
	if err != nil {
		return err
	}
	x.s.mu.Lock()
	defer x.s.mu.Unlock()
	x.s.queue = append(x.s.queue, delivery{from: x.from, egress: x.egress, seg: c})
	return nil
}
func (x simSender) Close() error { return nil }

type simSenderFactory struct {
	s    *Sim
	from addr.IA
}

func (f simSenderFactory) NewSender(ctx context.Context, dst addr.IA, egress uint16,
	nexthop *net.UDPAddr) (beaconing.Sender, error) {
	return simSender{s: f.s, from: f.from, egress: egress}, nil
}

func (a *AS) filter(types ...topology.LinkType) func() []*ifstate.Interface {
	return func() []*ifstate.Interface {
		return a.Intfs.Filtered(func(i *ifstate.Interface) bool {
			for _, t := range types {
				if i.TopoInfo().LinkType == t {
					return true
				}
			}
			return false
		})
	}
}

// Originate runs the real originator of every core AS once.
func (s *Sim) Originate(ctx context.Context) {
	for _, ia := range s.Order {
		a := s.ASes[ia]
		if !a.Spec.Core {
			continue
		}
		o := &beaconing.Originator{
			Extender:              a.extender("originator", beacon.PropPolicy),
			SenderFactory:         simSenderFactory{s, ia},
			IA:                    ia,
			AllInterfaces:         a.Intfs,
			OriginationInterfaces: a.filter(topology.Core, topology.Child),
			Tick:                  beaconing.NewTick(time.Nanosecond),
		}
		o.Run(ctx)
	}
}

// Propagate runs the real propagator of every AS once.
func (s *Sim) Propagate(ctx context.Context) {
	for _, ia := range s.Order {
		a := s.ASes[ia]
		lt := topology.Child
		if a.Spec.Core {
			lt = topology.Core
		}
		p := &beaconing.Propagator{
			Extender:              a.extender("propagator", beacon.PropPolicy),
			SenderFactory:         simSenderFactory{s, ia},
			Provider:              a.Store,
			IA:                    ia,
			AllInterfaces:         a.Intfs,
			PropagationInterfaces: a.filter(lt),
			AllowIsdLoop:          true,
			Tick:                  beaconing.NewTick(time.Nanosecond),
		}
		p.Run(ctx)
	}
}

// Deliver hands all queued beacons to the receiving AS's real handler. Returns the number of
// beacons handled without error.
func (s *Sim) Deliver(ctx context.Context) (ok, rejected int) {
	s.mu.Lock()
	q := s.queue
	s.queue = nil
	s.mu.Unlock()
	// deterministic order
	sort.SliceStable(q, func(i, j int) bool {
		if q[i].from != q[j].from {
			return q[i].from < q[j].from
		}
		return q[i].egress < q[j].egress
	})
	if s.Perm != nil && len(q) > 1 {
		p := s.Perm(len(q))
		q2 := make([]delivery, len(q))
		for i, j := range p {
			q2[i] = q[j]
		}
		q = q2
	}
	for _, d := range q {
		from := s.ASes[d.from]
		var ifc *IfSpec
		for i := range from.Spec.Ifs {
			if from.Spec.Ifs[i].ID == d.egress {
				ifc = &from.Spec.Ifs[i]
			}
		}
		to := s.ASes[ifc.Remote]
		peer := &snet.UDPAddr{IA: d.from, Path: snetpath.Empty{},
			Host: &net.UDPAddr{IP: net.IPv4(10, 0, 0, 1), Port: 30252}}
		err := to.Handler.HandleBeacon(ctx, beacon.Beacon{Segment: d.seg, InIfID: ifc.RemoteID}, peer)
		if err != nil {
			rejected++
			s.Log("beacon %s#%d -> %s#%d rejected: %v", d.from, d.egress, ifc.Remote, ifc.RemoteID, err)
		} else {
			ok++
		}
	}
	return
}

type capRegistrar struct {
	a *AS
	t seg.Type
}

func (c capRegistrar) RegisterSegments(ctx context.Context, beacons []beacon.Beacon,
	peers []uint16) *segreg.RegistrationSummary {
	sum := segreg.NewSummary()
	for _, b := range beacons {
		c.a.Registered[c.t] = append(c.a.Registered[c.t], b.Segment)
		sum.RecordSegment(b.Segment)
	}
	return sum
}

// Register terminates and registers segments in every AS with the real write scheduler and
// group writer; registered segments are captured per AS and type.
func (s *Sim) Register(ctx context.Context) error {
	for _, ia := range s.Order {
		a := s.ASes[ia]
		a.Registered = map[seg.Type][]*seg.PathSegment{}
		pts := []beacon.RegPolicyType{beacon.RegPolicyTypeUp, beacon.RegPolicyTypeDown}
		if a.Spec.Core {
			pts = []beacon.RegPolicyType{beacon.RegPolicyTypeCore}
		}
		for _, pt := range pts {
			regs := segreg.SegmentRegistrars{}
			if err := regs.RegisterDefaultSegmentRegistrar(pt,
				capRegistrar{a, pt.SegmentType()}); err != nil {
				return err
			}
			w := &beaconing.WriteScheduler{
				Provider: a.Store, Intfs: a.Intfs, Type: pt.SegmentType(),
				Writer: &beaconing.GroupWriter{PolicyType: pt, Registrars: regs, Intfs: a.Intfs,
					Extender: a.extender("writer", pt.PolicyType())},
				Tick: beaconing.NewTick(time.Nanosecond),
			}
			w.Run(ctx)
		}
	}
	return nil
}

// ---------------------------------------------------------------------------------------------
// Packet walk

type Step struct {
	IA      addr.IA
	Router  int
	Ingress uint16 // 0 = internal/sibling
	Via     string // "host", "ext", "sib"
	Res     router.VerifResult
	In, Out []byte
	Reply   bool // step belongs to the walk of a router-generated answer
}

type WalkResult struct {
	Steps     []Step
	Delivered bool
	DeliverTo *net.UDPAddr
	DeliverIA addr.IA
	Stopped   string // reason if not delivered
	SlowPath  []byte // packet produced by slow path, if any
	SlowAt    *Step

	ReplyDelivered bool
	ReplyTo        *net.UDPAddr
	ReplyIA        addr.IA
	ReplyStopped   string
}

func (a *AS) routerOwning(ifID uint16) *Router {
	for _, r := range a.Routers {
		if r.Owned[ifID] {
			return r
		}
	}
	return nil
}

func (a *AS) ifSpec(id uint16) *IfSpec {
	for i := range a.Spec.Ifs {
		if a.Spec.Ifs[i].ID == id {
			return &a.Spec.Ifs[i]
		}
	}
	return nil
}

// Walk injects raw at the router of srcIA that owns firstIf (as a host would, via the internal
// link) and follows it through the network. If a router answers with an SCMP message (slow
// path), that message is followed in turn (at most once), and the result is reported in
// Reply*.
func (s *Sim) Walk(srcIA addr.IA, firstIf uint16, srcHost *net.UDPAddr, raw []byte) WalkResult {
	var res WalkResult
	cur := s.ASes[srcIA]
	rt := cur.routerOwning(firstIf)
	if rt == nil {
		res.Stopped = "no router owns first interface"
		return res
	}
	link := rt.DP.Interface(0)
	ingress := uint16(0)
	via := "host"
	bytes := append([]byte{}, raw...)
	remote := srcHost
	var prevRt *Router
	inReply := false
	for hop := 0; hop < 400; hop++ {
		pkt := rt.DP.NewPacket(bytes, link, remote)
		r := rt.FP.Process(pkt)
		st := Step{IA: cur.Spec.IA, Router: rt.Idx, Ingress: ingress, Via: via, Res: r,
			In: bytes, Out: append([]byte{}, pkt.RawPacket...), Reply: inReply}
		res.Steps = append(res.Steps, st)
		switch r.Disposition {
		case router.VerifDispForward:
		case router.VerifDispSlowPath:
			if inReply {
				res.ReplyStopped = "second slow path"
				return res
			}
			if err := rt.SP.Process(pkt); err != nil {
				res.Stopped = fmt.Sprintf("slow path error: %v", err)
				return res
			}
			res.SlowPath = append([]byte{}, pkt.RawPacket...)
			res.SlowAt = &res.Steps[len(res.Steps)-1]
			res.Stopped = "slowpath"
			inReply = true
			// The answer leaves through the link the offending packet came in on.
			bytes = append([]byte{}, pkt.RawPacket...)
			switch via {
			case "host":
				res.ReplyDelivered = true
				res.ReplyTo = pkt.VerifRemote()
				res.ReplyIA = cur.Spec.IA
				return res
			case "ext":
				ifc := cur.ifSpec(ingress)
				next := s.ASes[ifc.Remote]
				nrt := next.routerOwning(ifc.RemoteID)
				cur, prevRt, rt, ingress, via = next, nil, nrt, ifc.RemoteID, "ext"
				link = nrt.DP.Interface(ifc.RemoteID)
				remote = nil
			case "sib":
				back := prevRt
				var l router.Link
				for id := range rt.Owned {
					l = back.DP.Interface(id)
					break
				}
				if l == nil {
					res.ReplyStopped = "cannot identify sibling link for reply"
					return res
				}
				prevRt, rt, ingress, via, link, remote = rt, back, 0, "sib", l, nil
			}
			continue
		default:
			if inReply {
				res.ReplyStopped = fmt.Sprintf("disposition %d", r.Disposition)
			} else {
				res.Stopped = fmt.Sprintf("disposition %d", r.Disposition)
			}
			return res
		}
		if r.Egress == 0 {
			if inReply {
				res.ReplyDelivered = true
				res.ReplyTo = pkt.VerifRemote()
				res.ReplyIA = cur.Spec.IA
			} else {
				res.Delivered = true
				res.DeliverTo = pkt.VerifRemote()
				res.DeliverIA = cur.Spec.IA
			}
			return res
		}
		el := rt.DP.Interface(r.Egress)
		bytes = append([]byte{}, pkt.RawPacket...)
		remote = nil
		switch el.Scope() {
		case router.External:
			ifc := cur.ifSpec(r.Egress)
			next := s.ASes[ifc.Remote]
			nrt := next.routerOwning(ifc.RemoteID)
			cur, prevRt, rt, ingress, via = next, nil, nrt, ifc.RemoteID, "ext"
			link = nrt.DP.Interface(ifc.RemoteID)
		case router.Sibling:
			nrt := cur.routerOwning(r.Egress)
			// the link object through which nrt sees rt: any interface owned by rt
			var l router.Link
			for id := range rt.Owned {
				l = nrt.DP.Interface(id)
				break
			}
			if l == nil {
				res.Stopped = "sender router owns no interface; cannot identify sibling link"
				return res
			}
			prevRt, rt, ingress, via, link = rt, nrt, 0, "sib", l
		default:
			res.Stopped = "egress on internal link with non-zero id"
			return res
		}
	}
	res.Stopped = "hop limit"
	return res
}
