package netsim

import (
	"context"
	"fmt"
	"net"
	"testing"

	"pgregory.net/rapid"

	seg "github.com/scionproto/scion/pkg/segment"
	scionpath "github.com/scionproto/scion/pkg/slayers/path/scion"
	"github.com/scionproto/scion/private/path/combinator"
	infra "github.com/scionproto/scion/private/segment/verifier"
)

func TestTamper(t *testing.T) {
	stats := map[string]int{}
	signers := litSigners()
	rapid.Check(t, func(rt *rapid.T) {
		topo := GenTopo(rt)
		sim, err := New(topo, signers, infra.AcceptAllVerifier{})
		if err != nil {
			rt.Fatalf("building sim: %v", err)
		}
		defer sim.Close()
		ctx := context.Background()
		sim.Originate(ctx)
		for round := 0; round < 5; round++ {
			if ok, rej := sim.Deliver(ctx); ok+rej == 0 {
				break
			}
			sim.Propagate(ctx)
		}
		_ = sim.Register(ctx)
		var cores []*seg.PathSegment
		for _, x := range sim.Order {
			cores = append(cores, sim.ASes[x].Registered[seg.TypeCore]...)
		}
		field := rapid.IntRange(0, 4).Draw(rt, "field")
		bit := rapid.IntRange(0, 31).Draw(rt, "bit")
		sel := rapid.IntRange(0, 63).Draw(rt, "sel")
		for _, src := range sim.Order {
			for _, dst := range sim.Order {
				if src == dst {
					continue
				}
				paths := combinator.Combine(src, dst, sim.ASes[src].Registered[seg.TypeUp], cores,
					sim.ASes[dst].Registered[seg.TypeDown], false)
				for _, p := range paths {
					raw := &scionpath.Raw{}
					if err := raw.DecodeFromBytes(append([]byte{}, p.SCIONPath.Raw...)); err != nil {
						rt.Fatalf("decode: %v", err)
					}
					desc := ""
					switch field {
					case 0, 1, 2:
						k := sel % raw.NumHops
						hf, _ := raw.GetHopField(k)
						switch field {
						case 0:
							hf.ExpTime ^= 1 << (bit % 8)
							desc = fmt.Sprintf("hop %d ExpTime bit %d", k, bit%8)
						case 1:
							hf.ConsIngress ^= 1 << (bit % 16)
							desc = fmt.Sprintf("hop %d ConsIngress bit %d", k, bit%16)
						case 2:
							hf.ConsEgress ^= 1 << (bit % 16)
							desc = fmt.Sprintf("hop %d ConsEgress bit %d", k, bit%16)
						}
						_ = raw.SetHopField(hf, k)
					case 3, 4:
						k := sel % raw.NumINF
						inf, _ := raw.GetInfoField(k)
						if field == 3 {
							inf.Timestamp ^= 1 << bit
							desc = fmt.Sprintf("info %d Timestamp bit %d", k, bit)
						} else {
							inf.SegID ^= 1 << (bit % 16)
							desc = fmt.Sprintf("info %d SegID bit %d", k, bit%16)
						}
						_ = raw.SetInfoField(inf, k)
					}
					b, err := buildUDP(src, dst, raw)
					if err != nil {
						rt.Fatalf("build: %v", err)
					}
					w := sim.Walk(src, uint16(p.Metadata.Interfaces[0].ID),
						&net.UDPAddr{IP: net.IPv4(10, 9, 9, 7), Port: 40001}, b)
					stats["walks"]++
					if w.Delivered {
						for _, st := range w.Steps {
							rt.Logf("   %s r%d in=%d via=%s -> %+v", st.IA, st.Router, st.Ingress, st.Via, st.Res)
						}
						rt.Fatalf("%s->%s %v: tampered (%s) packet was delivered to %s", src, dst,
							p.Metadata.Interfaces, desc, w.DeliverIA)
					}
					stats[fmt.Sprintf("field%d", field)]++
				}
			}
		}
	})
	t.Logf("stats: %v", stats)
}
