package netsim

import (
	"context"
	"net"
	"net/netip"
	"testing"
	"time"

	"pgregory.net/rapid"

	"github.com/scionproto/scion/pkg/addr"
	"github.com/scionproto/scion/pkg/scrypto"
	seg "github.com/scionproto/scion/pkg/segment"
	"github.com/scionproto/scion/pkg/slayers/path"
	"github.com/scionproto/scion/pkg/snet"
	snetpath "github.com/scionproto/scion/pkg/snet/path"
	"github.com/scionproto/scion/private/path/combinator"
	infra "github.com/scionproto/scion/private/segment/verifier"
)

func TestEPICPaths(t *testing.T) {
	stats := map[string]int{}
	signers := litSigners()
	rapid.Check(t, func(rt *rapid.T) {
		topo := GenTopo(rt)
		sim, err := New(topo, signers, infra.AcceptAllVerifier{})
		if err != nil {
			rt.Fatalf("building sim: %v", err)
		}
		sim.EPIC = true
		defer sim.Close()
		ctx := context.Background()
		sim.Originate(ctx)
		for round := 0; round < 5; round++ {
			if ok, rej := sim.Deliver(ctx); ok+rej == 0 {
				break
			}
			sim.Propagate(ctx)
		}
		_ = sim.Register(ctx)
		var cores []*seg.PathSegment
		for _, x := range sim.Order {
			cores = append(cores, sim.ASes[x].Registered[seg.TypeCore]...)
		}
		for _, src := range sim.Order {
			for _, dst := range sim.Order {
				if src == dst {
					continue
				}
				paths := combinator.Combine(src, dst, sim.ASes[src].Registered[seg.TypeUp], cores,
					sim.ASes[dst].Registered[seg.TypeDown], false)
				for _, p := range paths {
					stats["paths"]++
					if !p.Metadata.EpicAuths.SupportsEpic() {
						stats["no-epic-auths"]++
						continue
					}
					ep, err := snetpath.NewEPICDataplanePath(p.SCIONPath, p.Metadata.EpicAuths)
					if err != nil {
						rt.Fatalf("epic path: %v", err)
					}
					pkt := &snet.Packet{PacketInfo: snet.PacketInfo{
						Source:      snet.SCIONAddress{IA: src, Host: addr.MustParseHost("10.9.9.7")},
						Destination: snet.SCIONAddress{IA: dst, Host: addr.MustParseHost("10.9.9.9")},
						Path:        ep,
						Payload:     snet.UDPPayload{SrcPort: 40001, DstPort: 40002, Payload: []byte("epic payload")},
					}}
					if err := pkt.Serialize(); err != nil {
						rt.Fatalf("serialize: %v", err)
					}
					w := sim.Walk(src, uint16(p.Metadata.Interfaces[0].ID),
						&net.UDPAddr{IP: net.IPv4(10, 9, 9, 7), Port: 40001}, pkt.Bytes)
					if (!w.Delivered || w.DeliverIA != dst) && p.SCIONPath.Raw[4]&2 != 0 {
						stats["epic-peering-rejected"]++
						continue
					}
					if !w.Delivered || w.DeliverIA != dst {
						for _, st := range w.Steps {
							rt.Logf("   %s r%d in=%d via=%s -> %+v", st.IA, st.Router, st.Ingress, st.Via, st.Res)
						}
						rt.Fatalf("EPIC %s -> %s meta=%v: not delivered: %s", src, dst, p.Metadata.Interfaces, w.Stopped)
					}
					stats["epic-delivered"]++
				}
			}
		}
	})
	t.Logf("stats: %v", stats)
}

func TestOneHop(t *testing.T) {
	topo := fixedTopo()
	sim, err := New(topo, litSigners(), infra.AcceptAllVerifier{})
	if err != nil {
		t.Fatal(err)
	}
	defer sim.Close()
	n, okc := 0, 0
	for _, iaX := range sim.Order {
		a := sim.ASes[iaX]
		macF, _ := scrypto.HFMacFactory(a.Spec.Master)
		for _, ifc := range a.Spec.Ifs {
			n++
			info := path.InfoField{ConsDir: true, Timestamp: uint32(time.Now().Unix() - 5), SegID: 0x4242}
			first := path.HopField{ConsEgress: ifc.ID, ExpTime: 63}
			first.Mac = path.MAC(macF(), info, first, nil)
			pkt := &snet.Packet{PacketInfo: snet.PacketInfo{
				Source:      snet.SCIONAddress{IA: iaX, Host: addr.MustParseHost("10.9.9.7")},
				Destination: snet.SCIONAddress{IA: ifc.Remote, Host: addr.HostSVC(addr.SvcCS)},
				Path:        snetpath.OneHop{Info: info, FirstHop: first},
				Payload:     snet.UDPPayload{SrcPort: 40001, DstPort: 0, Payload: []byte("beacon")},
			}}
			if err := pkt.Serialize(); err != nil {
				t.Fatal(err)
			}
			// register a CS instance at the neighbour so SVC resolution works
			nb := sim.ASes[ifc.Remote]
			for _, r := range nb.Routers {
				_ = r.DP.AddSvc(addr.SvcCS, addr.MustParseHost("10.77.0.1"), 30252)
			}
			w := sim.Walk(iaX, ifc.ID, &net.UDPAddr{IP: net.IPv4(10, 9, 9, 7), Port: 40001}, pkt.Bytes)
			if !w.Delivered || w.DeliverIA != ifc.Remote {
				t.Errorf("OHP %s#%d -> %s: %s", iaX, ifc.ID, ifc.Remote, w.Stopped)
				for _, st := range w.Steps {
					t.Logf("   %s r%d in=%d via=%s -> %+v", st.IA, st.Router, st.Ingress, st.Via, st.Res)
				}
				continue
			}
			if netip.MustParseAddrPort(w.DeliverTo.String()) != netip.MustParseAddrPort("10.77.0.1:30252") {
				t.Errorf("OHP delivered to %v", w.DeliverTo)
			}
			okc++
		}
	}
	t.Logf("one-hop packets: %d delivered %d", n, okc)
}
