package netsim

import (
	"context"
	"fmt"
	"net"
	"testing"
	"time"

	"pgregory.net/rapid"

	"github.com/scionproto/scion/pkg/addr"
	"github.com/scionproto/scion/pkg/private/ctrl/path_mgmt"
	seg "github.com/scionproto/scion/pkg/segment"
	"github.com/scionproto/scion/private/revcache/memrevcache"
	"github.com/scionproto/scion/private/segment/segfetcher"
	infra "github.com/scionproto/scion/private/segment/verifier"
	sdb "github.com/scionproto/scion/private/storage/db"
	pathsql "github.com/scionproto/scion/private/storage/path/sqlite"
	"github.com/scionproto/scion/private/trust"
)

type allLocal struct{}

func (allLocal) IsSegLocal(segfetcher.Request) bool { return true }

type nh struct{}

func (nh) UnderlayNextHop(uint16) *net.UDPAddr { return &net.UDPAddr{IP: net.IPv4(10, 0, 0, 1), Port: 30042} }

type inspector struct{ t Topo }

func (i inspector) ByAttributes(ctx context.Context, isd addr.ISD, attrs trust.Attribute) ([]addr.IA, error) {
	var r []addr.IA
	for _, a := range i.t.ASes {
		if a.Core && a.IA.ISD() == isd {
			r = append(r, a.IA)
		}
	}
	return r, nil
}
func (i inspector) HasAttributes(ctx context.Context, ia addr.IA, attrs trust.Attribute) (bool, error) {
	for _, a := range i.t.ASes {
		if a.IA == ia {
			return a.Core, nil
		}
	}
	return false, nil
}

type noReq struct{}

func (noReq) Request(ctx context.Context, reqs segfetcher.Requests) <-chan segfetcher.ReplyOrErr {
	c := make(chan segfetcher.ReplyOrErr)
	close(c)
	return c
}

var fetcherMetrics = segfetcher.NewFetcherMetrics("verif")

func TestPather(t *testing.T) {
	stats := map[string]int{}
	signers := litSigners()
	n := 0
	rapid.Check(t, func(rt *rapid.T) {
		n++
		topo := GenTopo(rt)
		sim, err := New(topo, signers, infra.AcceptAllVerifier{})
		if err != nil {
			rt.Fatalf("building sim: %v", err)
		}
		defer sim.Close()
		ctx := context.Background()
		sim.Originate(ctx)
		for round := 0; round < 5; round++ {
			if ok, rej := sim.Deliver(ctx); ok+rej == 0 {
				break
			}
			sim.Propagate(ctx)
		}
		_ = sim.Register(ctx)
		srcSpec := topo.ASes[rapid.IntRange(0, len(topo.ASes)-1).Draw(rt, "src")]
		src := sim.ASes[srcSpec.IA]
		db, err := pathsql.New(fmt.Sprintf("pather_%d_%d", time.Now().UnixNano(), n), &sdb.SqliteConfig{InMemory: true})
		if err != nil {
			rt.Fatalf("db: %v", err)
		}
		defer db.Close()
		ins := func(s *seg.PathSegment, t seg.Type) {
			if _, err := db.Insert(ctx, &seg.Meta{Segment: s, Type: t}); err != nil {
				rt.Fatalf("insert: %v", err)
			}
		}
		for _, s := range src.Registered[seg.TypeUp] {
			ins(s, seg.TypeUp)
		}
		for _, x := range sim.Order {
			for _, s := range sim.ASes[x].Registered[seg.TypeCore] {
				ins(s, seg.TypeCore)
			}
			for _, s := range sim.ASes[x].Registered[seg.TypeDown] {
				ins(s, seg.TypeDown)
			}
		}
		rc := memrevcache.New()
		// revoke one random interface of a random AS
		var revIA addr.IA
		var revIf uint16
		if rapid.Bool().Draw(rt, "revoke") {
			ra := topo.ASes[rapid.IntRange(0, len(topo.ASes)-1).Draw(rt, "revAS")]
			if len(ra.Ifs) > 0 {
				ri := ra.Ifs[rapid.IntRange(0, len(ra.Ifs)-1).Draw(rt, "revIf")]
				revIA, revIf = ra.IA, ri.ID
				_, _ = rc.Insert(ctx, &path_mgmt.RevInfo{IfID: ifaceID(revIf), RawIsdas: revIA,
					RawTimestamp: uint32(time.Now().Unix() - 1), RawTTL: 60})
			}
		}
		p := &segfetcher.Pather{IA: srcSpec.IA, MTU: srcSpec.MTU, NextHopper: nh{}, RevCache: rc,
			Fetcher: &segfetcher.Fetcher{Resolver: segfetcher.NewResolver(db, rc, allLocal{}), Requester: noReq{},
				PathDB: db, QueryInterval: time.Minute, Metrics: fetcherMetrics},
			Splitter: &segfetcher.MultiSegmentSplitter{LocalIA: srcSpec.IA, Core: srcSpec.Core, Inspector: inspector{topo}}}
		for _, d := range topo.ASes {
			paths, err := p.GetPaths(ctx, d.IA, false)
			stats["lookups"]++
			if d.IA == srcSpec.IA {
				if err != nil || len(paths) != 1 || len(paths[0].Metadata().Interfaces) != 0 {
					rt.Fatalf("local lookup: %v %v", paths, err)
				}
				continue
			}
			if err != nil {
				stats["lookup-error"]++
				continue
			}
			for _, pa := range paths {
				md := pa.Metadata()
				stats["paths"]++
				if md.Interfaces[0].IA != srcSpec.IA || md.Interfaces[len(md.Interfaces)-1].IA != d.IA {
					rt.Fatalf("path endpoints %v for %s -> %s", md.Interfaces, srcSpec.IA, d.IA)
				}
				if !md.Expiry.After(time.Now()) {
					rt.Fatalf("expired path returned")
				}
				for _, i := range md.Interfaces {
					if i.IA == revIA && uint16(i.ID) == revIf {
						rt.Fatalf("path uses revoked interface %s#%d: %v", revIA, revIf, md.Interfaces)
					}
				}
			}
			if len(paths) == 0 {
				stats["no-paths"]++
			}
		}
	})
	t.Logf("stats %v", stats)
}
