package netsim

import (
	"bytes"
	"context"
	"net"
	"testing"

	"github.com/gopacket/gopacket"
	"pgregory.net/rapid"

	"github.com/scionproto/scion/pkg/addr"
	seg "github.com/scionproto/scion/pkg/segment"
	"github.com/scionproto/scion/pkg/slayers"
	scionpath "github.com/scionproto/scion/pkg/slayers/path/scion"
	"github.com/scionproto/scion/pkg/snet"
	snetpath "github.com/scionproto/scion/pkg/snet/path"
	"github.com/scionproto/scion/private/path/combinator"
	infra "github.com/scionproto/scion/private/segment/verifier"
)

func refChecksum(s *slayers.SCION, proto uint8, upper []byte) uint16 {
	var sum uint32
	add := func(b []byte) {
		for i := 0; i+1 < len(b); i += 2 {
			sum += uint32(b[i])<<8 | uint32(b[i+1])
		}
		if len(b)%2 == 1 {
			sum += uint32(b[len(b)-1]) << 8
		}
	}
	var ia [16]byte
	for i := 0; i < 8; i++ {
		ia[i] = byte(uint64(s.SrcIA) >> (56 - 8*i))
		ia[8+i] = byte(uint64(s.DstIA) >> (56 - 8*i))
	}
	add(ia[:])
	add(s.RawSrcAddr)
	add(s.RawDstAddr)
	l := uint32(len(upper))
	add([]byte{byte(l >> 24), byte(l >> 16), byte(l >> 8), byte(l), 0, 0, 0, proto})
	add(upper)
	for sum > 0xffff {
		sum = sum>>16 + sum&0xffff
	}
	return uint16(sum)
}

func TestSCMPWellFormed(t *testing.T) {
	stats := map[string]int{}
	signers := litSigners()
	rapid.Check(t, func(rt *rapid.T) {
		topo := GenTopo(rt)
		sim, err := New(topo, signers, infra.AcceptAllVerifier{})
		if err != nil {
			rt.Fatalf("building sim: %v", err)
		}
		defer sim.Close()
		ctx := context.Background()
		sim.Originate(ctx)
		for round := 0; round < 5; round++ {
			if ok, rej := sim.Deliver(ctx); ok+rej == 0 {
				break
			}
			sim.Propagate(ctx)
		}
		_ = sim.Register(ctx)
		var cores []*seg.PathSegment
		for _, x := range sim.Order {
			cores = append(cores, sim.ASes[x].Registered[seg.TypeCore]...)
		}
		v6 := rapid.Bool().Draw(rt, "v6")
		srcHost, dstHost := "10.9.9.7", "10.9.9.9"
		if v6 {
			srcHost, dstHost = "2001:db8::7", "2001:db8::9"
		}
		for _, src := range sim.Order {
			for _, dst := range sim.Order {
				if src == dst {
					continue
				}
				paths := combinator.Combine(src, dst, sim.ASes[src].Registered[seg.TypeUp], cores,
					sim.ASes[dst].Registered[seg.TypeDown], false)
				for pi, p := range paths {
					raw := &scionpath.Raw{}
					if err := raw.DecodeFromBytes(append([]byte{}, p.SCIONPath.Raw...)); err != nil {
						rt.Fatalf("decode: %v", err)
					}
					k := (pi*5 + 2) % raw.NumHops
					hf, _ := raw.GetHopField(k)
					hf.Mac[0] ^= 0x80
					_ = raw.SetHopField(hf, k)
					plen := []int{0, 1, 7, 600, 1100, 1231, 3000}[(pi+int(src))%7]
					pkt := &snet.Packet{PacketInfo: snet.PacketInfo{
						Source:      snet.SCIONAddress{IA: src, Host: addr.MustParseHost(srcHost)},
						Destination: snet.SCIONAddress{IA: dst, Host: addr.MustParseHost(dstHost)},
						Path:        snetpath.SCION{Raw: raw.Raw},
						Payload:     snet.UDPPayload{SrcPort: 40001, DstPort: 40002, Payload: bytes.Repeat([]byte{0xab}, plen)},
					}}
					if err := pkt.Serialize(); err != nil {
						rt.Fatalf("serialize: %v", err)
					}
					w := sim.Walk(src, uint16(p.Metadata.Interfaces[0].ID),
						&net.UDPAddr{IP: net.ParseIP(srcHost), Port: 40001}, pkt.Bytes)
					if w.SlowPath == nil {
						rt.Fatalf("no SCMP")
					}
					stats["scmp"]++
					if len(w.SlowPath) > slayers.MaxSCMPPacketLen {
						rt.Fatalf("SCMP packet too long: %d", len(w.SlowPath))
					}
					if len(w.SlowPath) == slayers.MaxSCMPPacketLen {
						stats["truncated-quote"]++
					}
					var d slayers.SCION
					if err := d.DecodeFromBytes(w.SlowPath, gopacket.NilDecodeFeedback); err != nil {
						rt.Fatalf("decode SCMP pkt: %v", err)
					}
					if d.DstIA != src || d.SrcIA != w.SlowAt.IA {
						rt.Fatalf("addresses: %s -> %s", d.SrcIA, d.DstIA)
					}
					if !bytes.Equal(d.RawDstAddr, net.ParseIP(srcHost).To16()[map[bool]int{true: 0, false: 12}[v6]:]) {
						rt.Fatalf("dst host %x", d.RawDstAddr)
					}
					if int(d.PayloadLen) != len(d.Payload) || d.NextHdr != slayers.L4SCMP {
						rt.Fatalf("payload len/next hdr")
					}
					if c := refChecksum(&d, uint8(slayers.L4SCMP), d.Payload); c != 0xffff {
						rt.Fatalf("checksum does not verify: sum=%04x len=%d", c, len(d.Payload))
					}
					var sc slayers.SCMP
					_ = sc.DecodeFromBytes(d.Payload, gopacket.NilDecodeFeedback)
					if sc.TypeCode.Type() != slayers.SCMPTypeParameterProblem || sc.TypeCode.Code() != slayers.SCMPCodeInvalidHopFieldMAC {
						rt.Fatalf("type/code %v", sc.TypeCode)
					}
					var pp slayers.SCMPParameterProblem
					_ = pp.DecodeFromBytes(sc.Payload, gopacket.NilDecodeFeedback)
					quote := pp.Payload
					in := w.SlowAt.In
					if len(quote) > len(in) {
						rt.Fatalf("quote longer than offending packet")
					}
					// pointer must designate hop k
					var od slayers.SCION
					_ = od.DecodeFromBytes(in, gopacket.NilDecodeFeedback)
					wantPtr := 12 + od.AddrHdrLen() + 4 + 8*raw.NumINF + 12*k
					if int(pp.Pointer) != wantPtr {
						rt.Fatalf("pointer %d want %d (hop %d)", pp.Pointer, wantPtr, k)
					}
					// quote equals offending packet outside the path header's mutable bytes
					pathStart := 12 + od.AddrHdrLen()
					pathEnd := pathStart + 4 + 8*raw.NumINF + 12*raw.NumHops
					if !bytes.Equal(quote[:min(len(quote), pathStart)], in[:min(len(quote), pathStart)]) {
						rt.Fatalf("quote differs in common/address header")
					}
					if len(quote) > pathEnd && !bytes.Equal(quote[pathEnd:], in[pathEnd:len(quote)]) {
						rt.Fatalf("quote differs after path header")
					}
				}
			}
		}
	})
	t.Logf("stats: %v", stats)
}
