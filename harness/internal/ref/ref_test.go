package ref

import (
	"bytes"
	"crypto/aes"
	"encoding/hex"
	"testing"

	"github.com/dchest/cmac"
)

func TestCMACVectors(t *testing.T) {
	key, _ := hex.DecodeString("2b7e151628aed2a6abf7158809cf4f3c")
	msg, _ := hex.DecodeString("6bc1bee22e409f96e93d7e117393172aae2d8a571e03ac9c9eb76fac45af8e5130c81c46a35ce411e5fbc1191a0a52eff69f2445df4f9b17ad2b417be66c3710")
	want := map[int]string{0: "bb1d6929e95937287fa37d129b756746", 16: "070a16b46b4d4144f79bdd9dd04a287c",
		40: "dfa66747de9ae63030ca32611497c827", 64: "51f0bebf7e3b9d92fc49741779363cfe"}
	for n, w := range want {
		got := CMAC(key, msg[:n])
		if hex.EncodeToString(got[:]) != w {
			t.Fatalf("len %d: %x want %s", n, got, w)
		}
	}
	c, _ := aes.NewCipher(key)
	for n := 0; n <= 64; n++ {
		m, _ := cmac.New(c)
		m.Write(msg[:n])
		got := CMAC(key, msg[:n])
		if !bytes.Equal(m.Sum(nil), got[:]) {
			t.Fatalf("len %d differs from library", n)
		}
	}
}
