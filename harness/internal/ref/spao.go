package ref

import (
	"encoding/binary"
	"fmt"
)

// SPAOInfo describes the packet authenticator option found in a raw SCION packet.
type SPAOInfo struct {
	SPI       uint32
	Algorithm uint8
	Timestamp uint64 // 48 bit
	Tag       []byte
	UpperType uint8
	Upper     []byte // upper-layer packet (after all extension headers)
}

// FindSPAO walks the extension headers of a raw SCION packet (header layout of
// doc/protocols/scion-header.rst and authenticator-option.rst) and returns the authenticator
// option, if present, together with the upper layer.
func FindSPAO(raw []byte) (*SPAOInfo, error) {
	if len(raw) < 12 {
		return nil, fmt.Errorf("short packet")
	}
	hdrLen := int(raw[5]) * 4
	if hdrLen > len(raw) {
		return nil, fmt.Errorf("header exceeds packet")
	}
	next := raw[4]
	rest := raw[hdrLen:]
	var info *SPAOInfo
	for next == 200 || next == 201 {
		if len(rest) < 2 {
			return nil, fmt.Errorf("truncated extension header")
		}
		l := (int(rest[1]) + 1) * 4
		if l > len(rest) {
			return nil, fmt.Errorf("extension header exceeds packet")
		}
		if next == 201 { // end-to-end options
			off := 2
			for off < l {
				t := rest[off]
				if t == 0 { // Pad1
					off++
					continue
				}
				if off+2 > l {
					return nil, fmt.Errorf("truncated option")
				}
				ol := int(rest[off+1])
				if off+2+ol > l {
					return nil, fmt.Errorf("option exceeds extension header")
				}
				if t == 2 { // authenticator
					d := rest[off+2 : off+2+ol]
					if len(d) < 12 {
						return nil, fmt.Errorf("authenticator option too short")
					}
					info = &SPAOInfo{SPI: binary.BigEndian.Uint32(d[0:4]), Algorithm: d[4],
						Timestamp: uint64(d[6])<<40 | uint64(d[7])<<32 | uint64(binary.BigEndian.Uint32(d[8:12])), Tag: append([]byte{}, d[12:]...)}
				}
				off += 2 + ol
			}
		}
		next = rest[0]
		rest = rest[l:]
	}
	if info == nil {
		return nil, nil
	}
	info.UpperType = next
	info.Upper = rest
	return info, nil
}

// SPAOTag recomputes the AES-CMAC authenticator of a raw SCION packet under key, from the
// documented MAC input (authenticator-option.rst, "Authenticated Data"): option metadata, first
// common-header line with the ECN bits cleared (tcMask), path type/address types, the address
// fields the SPI kind includes, the path with its mutable fields zeroed, the upper layer.
func SPAOTag(key []byte, raw []byte, a *SPAOInfo, tcMask uint8) ([]byte, error) {
	hdrLen := int(raw[5]) * 4
	dl := (int(raw[9]>>4&3) + 1) * 4
	sl := (int(raw[9]&3) + 1) * 4
	pathOff := 12 + 16 + dl + sl
	if pathOff > hdrLen {
		return nil, fmt.Errorf("address header exceeds header")
	}
	in := make([]byte, 0, 1100+len(a.Upper))
	in = append(in, raw[5], a.UpperType)
	in = binary.BigEndian.AppendUint16(in, uint16(len(a.Upper)))
	in = append(in, a.Algorithm, 0, byte(a.Timestamp>>40), byte(a.Timestamp>>32), byte(a.Timestamp>>24), byte(a.Timestamp>>16), byte(a.Timestamp>>8), byte(a.Timestamp))
	first := binary.BigEndian.Uint32(raw[0:4])
	tc := uint8(first >> 20)
	first = first&0xf00fffff | uint32(tc&tcMask)<<20
	in = binary.BigEndian.AppendUint32(in, first)
	in = append(in, raw[8], raw[9], 0, 0)
	drkey := a.SPI >= 1 && a.SPI < 1<<21
	t, d := a.SPI>>17&1, a.SPI>>16&1
	if !drkey {
		in = append(in, raw[12:28]...)
	}
	if !drkey || (t == 0 && d == 1) {
		in = append(in, raw[28:28+dl]...)
	}
	if !drkey || (t == 0 && d == 0) {
		in = append(in, raw[28+dl:28+dl+sl]...)
	}
	pb := append([]byte{}, raw[pathOff:hdrLen]...)
	zeroScion := func(b []byte) error {
		if len(b) < 4 {
			return fmt.Errorf("short path")
		}
		line := binary.BigEndian.Uint32(b)
		b[0] = 0
		off, hops := 4, 0
		for _, l := range []int{int(line >> 12 & 63), int(line >> 6 & 63), int(line & 63)} {
			if l > 0 {
				if off+8 > len(b) {
					return fmt.Errorf("short path")
				}
				b[off+2], b[off+3] = 0, 0
				off += 8
				hops += l
			}
		}
		for i := 0; i < hops; i++ {
			if off+12 > len(b) {
				return fmt.Errorf("short path")
			}
			b[off] &^= 0x03
			off += 12
		}
		return nil
	}
	switch raw[8] {
	case 1:
		if err := zeroScion(pb); err != nil {
			return nil, err
		}
	case 3:
		if len(pb) < 16 {
			return nil, fmt.Errorf("short EPIC path")
		}
		if err := zeroScion(pb[16:]); err != nil {
			return nil, err
		}
	case 2:
		if len(pb) < 32 {
			return nil, fmt.Errorf("short one-hop path")
		}
		pb[2], pb[3] = 0, 0
		pb[8] &^= 0x03
		for i := 20; i < 32; i++ {
			pb[i] = 0
		}
	}
	in = append(in, pb...)
	in = append(in, a.Upper...)
	m := CMAC(key, in)
	return m[:], nil
}
