// Package ref holds small reference implementations written from the protocol documents under
// /repo/doc (not from the code under test): AES-CMAC (RFC 4493), the hop-field MAC input and
// SegID chaining, the one's-complement checksum, the SPAO input layout. They are the trusted base
// of the differential oracles and are listed under "assumptions" in the evidence files.
package ref

import (
	"crypto/aes"
	"crypto/sha256"
	"encoding/binary"
	"time"

	"golang.org/x/crypto/pbkdf2"
)

// CMAC computes AES-CMAC (RFC 4493) of msg under key (16/24/32 bytes).
func CMAC(key, msg []byte) [16]byte {
	c, err := aes.NewCipher(key)
	if err != nil {
		panic(err)
	}
	var l, k1, k2 [16]byte
	c.Encrypt(l[:], l[:])
	dbl := func(in [16]byte) (out [16]byte) {
		carry := byte(0)
		for i := 15; i >= 0; i-- {
			out[i] = in[i]<<1 | carry
			carry = in[i] >> 7
		}
		if in[0]&0x80 != 0 {
			out[15] ^= 0x87
		}
		return
	}
	k1 = dbl(l)
	k2 = dbl(k1)
	n := (len(msg) + 15) / 16
	complete := n > 0 && len(msg)%16 == 0
	if n == 0 {
		n = 1
	}
	var x [16]byte
	for i := 0; i < n-1; i++ {
		for j := 0; j < 16; j++ {
			x[j] ^= msg[16*i+j]
		}
		c.Encrypt(x[:], x[:])
	}
	var last [16]byte
	rest := msg[16*(n-1):]
	if complete {
		copy(last[:], rest)
		for j := range last {
			last[j] ^= k1[j]
		}
	} else {
		copy(last[:], rest)
		last[len(rest)] = 0x80
		for j := range last {
			last[j] ^= k2[j]
		}
	}
	for j := 0; j < 16; j++ {
		x[j] ^= last[j]
	}
	c.Encrypt(x[:], x[:])
	return x
}

// HopKey derives the hop-field MAC key from an AS master secret (doc/cryptography: PBKDF2 with
// salt "Derive OF Key", 1000 iterations, SHA-256, 16 bytes).
func HopKey(master []byte) []byte {
	return pbkdf2.Key(master, []byte("Derive OF Key"), 1000, 16, sha256.New)
}

// HopMACInput is the 16-byte MAC input block of scion-header.rst ("Hop Field MAC Computation").
func HopMACInput(segID uint16, ts uint32, expTime uint8, consIngress, consEgress uint16) [16]byte {
	var b [16]byte
	binary.BigEndian.PutUint16(b[2:], segID)
	binary.BigEndian.PutUint32(b[4:], ts)
	b[9] = expTime
	binary.BigEndian.PutUint16(b[10:], consIngress)
	binary.BigEndian.PutUint16(b[12:], consEgress)
	return b
}

// FullHopMAC is the untruncated 16-byte hop MAC under the derived key.
func FullHopMAC(key []byte, segID uint16, ts uint32, expTime uint8, consIngress, consEgress uint16) [16]byte {
	in := HopMACInput(segID, ts, expTime, consIngress, consEgress)
	return CMAC(key, in[:])
}

// HopMAC is the 6-byte hop field MAC.
func HopMAC(key []byte, segID uint16, ts uint32, expTime uint8, consIngress, consEgress uint16) [6]byte {
	f := FullHopMAC(key, segID, ts, expTime, consIngress, consEgress)
	var m [6]byte
	copy(m[:], f[:6])
	return m
}

// HopExpiry is the absolute expiry of a hop field: Timestamp + (1+ExpTime) * 24h/256.
func HopExpiry(ts uint32, expTime uint8) time.Time {
	return time.Unix(int64(ts), 0).Add(time.Duration(1+int(expTime)) * (24 * time.Hour / 256))
}

// OnesSum is the folded 16-bit one's-complement sum of the concatenation of the chunks, each
// chunk padded with a zero byte to even length as the pseudo-header definition implies for the
// trailing upper-layer byte (chunks before the last must have even length).
func OnesSum(chunks ...[]byte) uint16 {
	var sum uint32
	for _, b := range chunks {
		for i := 0; i+1 < len(b); i += 2 {
			sum += uint32(b[i])<<8 | uint32(b[i+1])
		}
		if len(b)%2 == 1 {
			sum += uint32(b[len(b)-1]) << 8
		}
		for sum > 0xffff {
			sum = sum>>16 + sum&0xffff
		}
	}
	return uint16(sum)
}

// PseudoSum folds pseudo header + upper layer (scion-header.rst, "Pseudo Header for Upper-Layer
// Checksum"): DstIA, SrcIA, DstHostAddr, SrcHostAddr, 32-bit length, 3 zero bytes, next header.
func PseudoSum(srcIA, dstIA uint64, rawSrc, rawDst []byte, proto uint8, upper []byte) uint16 {
	var ia [16]byte
	binary.BigEndian.PutUint64(ia[0:], dstIA)
	binary.BigEndian.PutUint64(ia[8:], srcIA)
	var tail [8]byte
	binary.BigEndian.PutUint32(tail[0:], uint32(len(upper)))
	tail[7] = proto
	return OnesSum(ia[:], rawDst, rawSrc, tail[:], upper)
}

// EpicHVF is the EPIC hop validation field: the first four bytes of the last block of an AES-CBC-MAC
// (zero IV) keyed with the hop's full 16-byte MAC over
//
//	flags (source address length code) | path timestamp (4) | packet id (8) | SrcIA (8) | source
//	host address | payload length (2) | zero padding to a multiple of 16
func EpicHVF(auth [16]byte, srcAddrLenCode uint8, pathTimestamp uint32, pktTimestamp, pktCounter uint32, srcIA uint64, srcAddr []byte, payloadLen uint16) [4]byte {
	in := []byte{srcAddrLenCode & 3}
	in = binary.BigEndian.AppendUint32(in, pathTimestamp)
	in = binary.BigEndian.AppendUint32(in, pktTimestamp)
	in = binary.BigEndian.AppendUint32(in, pktCounter)
	in = binary.BigEndian.AppendUint64(in, srcIA)
	in = append(in, srcAddr...)
	in = binary.BigEndian.AppendUint16(in, payloadLen)
	for len(in)%16 != 0 {
		in = append(in, 0)
	}
	c, err := aes.NewCipher(auth[:])
	if err != nil {
		panic(err)
	}
	var x [16]byte
	for i := 0; i < len(in); i += 16 {
		for j := 0; j < 16; j++ {
			x[j] ^= in[i+j]
		}
		c.Encrypt(x[:], x[:])
	}
	var out [4]byte
	copy(out[:], x[:4])
	return out
}
