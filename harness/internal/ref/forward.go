package ref

import (
	"encoding/binary"
	"fmt"
)

// PathView is a read-only view of the SCION path of a raw packet, computed from the header layout
// of doc/protocols/scion-header.rst (not with the repository's codecs).
type PathView struct {
	PathOff  int // offset of the path meta header
	CurrINF  int
	CurrHF   int
	SegLen   [3]int
	NumINF   int
	NumHops  int
	HdrLen   int
	PathType uint8
}

// ParsePath locates the path in a raw SCION packet with a SCION (type 1) path.
func ParsePath(raw []byte) (PathView, error) {
	var v PathView
	if len(raw) < 12 {
		return v, fmt.Errorf("short packet")
	}
	v.HdrLen = int(raw[5]) * 4
	v.PathType = raw[8]
	dl := (int(raw[9]>>4&3) + 1) * 4
	sl := (int(raw[9]&3) + 1) * 4
	v.PathOff = 12 + 16 + dl + sl
	if v.PathType == 3 { // EPIC: PktID (8) + PHVF (4) + LHVF (4) precede the SCION path
		v.PathOff += 16
	}
	if v.PathType != 1 && v.PathType != 3 {
		return v, fmt.Errorf("path type %d has no meta header", v.PathType)
	}
	if len(raw) < v.PathOff+4 {
		return v, fmt.Errorf("short path")
	}
	line := binary.BigEndian.Uint32(raw[v.PathOff:])
	v.CurrINF = int(line >> 30)
	v.CurrHF = int(line >> 24 & 0x3f)
	v.SegLen = [3]int{int(line >> 12 & 0x3f), int(line >> 6 & 0x3f), int(line & 0x3f)}
	for _, l := range v.SegLen {
		if l > 0 {
			v.NumINF++
			v.NumHops += l
		}
	}
	if len(raw) < v.PathOff+4+8*v.NumINF+12*v.NumHops {
		return v, fmt.Errorf("path exceeds packet")
	}
	return v, nil
}

func (v PathView) InfoOff(i int) int { return v.PathOff + 4 + 8*i }
func (v PathView) HopOff(h int) int  { return v.PathOff + 4 + 8*v.NumINF + 12*h }

// SegOf returns the segment index of hop h.
func (v PathView) SegOf(h int) int {
	s := 0
	for s < 2 && h >= v.SegLen[s] {
		h -= v.SegLen[s]
		s++
	}
	return s
}

// Hop is a decoded hop field.
type Hop struct {
	Flags       byte
	ExpTime     uint8
	ConsIngress uint16
	ConsEgress  uint16
	MAC         [6]byte
}

func (v PathView) Hop(raw []byte, h int) Hop {
	o := v.HopOff(h)
	var x Hop
	x.Flags = raw[o]
	x.ExpTime = raw[o+1]
	x.ConsIngress = binary.BigEndian.Uint16(raw[o+2:])
	x.ConsEgress = binary.BigEndian.Uint16(raw[o+4:])
	copy(x.MAC[:], raw[o+6:o+12])
	return x
}

// Info is a decoded info field.
type Info struct {
	Peer, ConsDir bool
	SegID         uint16
	Timestamp     uint32
}

func (v PathView) Info(raw []byte, i int) Info {
	o := v.InfoOff(i)
	return Info{Peer: raw[o]&2 != 0, ConsDir: raw[o]&1 != 0, SegID: binary.BigEndian.Uint16(raw[o+2:]), Timestamp: binary.BigEndian.Uint32(raw[o+4:])}
}

// PeerHop reports whether hop h is one of the two peering hops of a peering path.
func (v PathView) PeerHop(raw []byte, h int) bool {
	if !v.Info(raw, v.SegOf(h)).Peer {
		return false
	}
	return v.SegLen[0] > 0 && v.SegLen[1] > 0 && v.SegLen[2] == 0 && (h == v.SegLen[0]-1 || h == v.SegLen[0])
}

// ForwardResult is what the reference says a border router does with an accepted packet.
type ForwardResult struct {
	Out     []byte
	Egress  uint16 // 0 = deliver locally
	Deliver bool
}

// Forward is the reference forwarding step of one border router for a packet that passes all
// checks (doc/protocols/scion-header.rst, "Path Calculation"/"Path processing at routers"):
//   - a packet entering the AS from outside on a hop traversed against construction direction
//     (and not a peering hop) gets SegID ^= MAC[0:2] of the current hop;
//   - if the destination is the local AS nothing else changes;
//   - at a segment cross-over (current hop is the last of its segment, not a peering hop) the
//     router that first handles the packet in this AS moves the pointers to the first hop of the
//     next segment;
//   - the router owning the egress interface, on a hop in construction direction (and not a
//     peering hop), sets SegID ^= MAC[0:2] of the (then current) hop and advances the pointers.
//
// fromOutside: packet arrived over an external link. firstInAS: this router is the first of the
// AS to handle the packet (false for a packet handed over by a sibling router). dstLocal: the
// destination ISD-AS is the local AS. ownsEgress tells whether this router owns an interface.
func Forward(raw []byte, fromOutside, firstInAS, dstLocal bool, ownsEgress func(uint16) bool) (ForwardResult, error) {
	out := append([]byte{}, raw...)
	v, err := ParsePath(out)
	if err != nil {
		return ForwardResult{}, err
	}
	setPtr := func(h int) {
		out[v.PathOff] = byte(v.SegOf(h))<<6 | byte(h)
	}
	xorSegID := func(seg int, mac [6]byte) {
		o := v.InfoOff(seg) + 2
		out[o] ^= mac[0]
		out[o+1] ^= mac[1]
	}
	h := v.CurrHF
	seg := v.SegOf(h)
	info := v.Info(out, seg)
	hop := v.Hop(out, h)
	peer := v.PeerHop(out, h)
	if fromOutside && !info.ConsDir && !peer {
		xorSegID(seg, hop.MAC)
	}
	if dstLocal {
		return ForwardResult{Out: out, Deliver: true}, nil
	}
	lastOfSeg := h+1 < v.NumHops && v.SegOf(h+1) != seg
	if firstInAS && lastOfSeg && !peer {
		h++
		seg = v.SegOf(h)
		setPtr(h)
		info = v.Info(out, seg)
		hop = v.Hop(out, h)
	}
	egress := hop.ConsEgress
	if !info.ConsDir {
		egress = hop.ConsIngress
	}
	if ownsEgress(egress) {
		if info.ConsDir && !v.PeerHop(out, h) {
			xorSegID(seg, hop.MAC)
		}
		if h+1 >= v.NumHops {
			return ForwardResult{}, fmt.Errorf("egress at the last hop")
		}
		setPtr(h + 1)
	}
	return ForwardResult{Out: out, Egress: egress}, nil
}

// HopBetas returns, for every hop field of the SCION path in raw (positioned at its first hop), the
// SegID value (accumulator) a router uses when it validates that hop, following the traversal
// rules of Forward.
func HopBetas(raw []byte) ([]uint16, error) {
	v, err := ParsePath(raw)
	if err != nil {
		return nil, err
	}
	var segID [3]uint16
	for i := 0; i < v.NumINF; i++ {
		segID[i] = v.Info(raw, i).SegID
	}
	out := make([]uint16, v.NumHops)
	for h := 0; h < v.NumHops; h++ {
		s := v.SegOf(h)
		info := v.Info(raw, s)
		hop := v.Hop(raw, h)
		peer := v.PeerHop(raw, h)
		firstAfterXover := h > 0 && v.SegOf(h-1) != s && !peer
		fromOutside := h > 0 && !firstAfterXover
		sigma := uint16(hop.MAC[0])<<8 | uint16(hop.MAC[1])
		if fromOutside && !info.ConsDir && !peer {
			segID[s] ^= sigma
		}
		out[h] = segID[s]
		lastOfSeg := h+1 < v.NumHops && v.SegOf(h+1) != s
		egressHere := h != v.NumHops-1 && !(lastOfSeg && !peer)
		if egressHere && info.ConsDir && !peer {
			segID[s] ^= sigma
		}
	}
	return out, nil
}
