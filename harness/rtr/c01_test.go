package rtr

import (
	"bytes"
	"fmt"
	"testing"
	"time"

	"pgregory.net/rapid"

	"github.com/scionproto/scion/pkg/slayers"
	"github.com/scionproto/scion/router"

	"verif/internal/evid"
	"verif/internal/ref"
)

// ---------------------------------------------------------------------------------------------
// C01 — routers forward only along unexpired hop fields issued by their own AS.
// Forged packets (reference MACs) for one real router in a two-router AS, at every position and
// ingress kind, then exactly one of: nothing; one MAC bit of a validated hop flipped; one SegID bit
// flipped; the segment timestamp shifted; the virtual clock moved to expiry-1s / expiry+1ns /
// expiry+1s of a validated hop (testing/synctest). Oracle (D, V): valid => forwarded/delivered with
// the reference forwarder's output; otherwise not forwarded, and an emitted SCMP is a parameter
// problem (invalid hop-field MAC resp. path expired) whose pointer is the byte offset of the
// offending hop field computed from the header layout.
// ---------------------------------------------------------------------------------------------

func TestC01(t *testing.T) {
	rec := evid.New("C01", "rapid: forwarding key x packet shape (1-3 segments of 2-5 hops, peering paths with singleton segments, both construction directions) x position (source, transit, cross-over, delivery) x ingress "+
		"(host, external, sibling link) x egress (own external, sibling-owned) x extension headers, with reference MACs; one fault from {none, MAC bit of the current hop, MAC bit of the next segment's first hop at a cross-over, SegID bit, "+
		"timestamp shift, other ExpTime value, interface bit, clock at expiry-1s, expiry+1ns, expiry+1s of either validated hop}. Non-trivial: fault at a cross-over, on a peering hop, against construction direction, or on a non-external ingress.")
	defer rec.Flush(t)
	rec.Assume("reference hop MAC = AES-CMAC (RFC 4493) over the 16-byte input block of scion-header.rst with the PBKDF2-derived key (internal/ref)", "expiry = timestamp + (1+ExpTime) * 337.5 s; the instant of equality is not asserted",
		"6-byte MAC collisions ignored")
	rec.Require("fault_none", "fault_mac", "fault_mac_after_xover", "fault_segid", "fault_timestamp", "fault_exptime", "fault_interfaces", "primed_with_valid_twin", "fault_expired", "fault_expired_after_xover", "fault_not_yet_expired",
		"arrival_host", "arrival_ext", "arrival_sib", "xover", "peering", "deliver", "egress_sibling", "answered_scmp", "router_alert_on_refused_hop")
	rapid.Check(t, func(rt *rapid.T) {
		var fail string
		var labels []string
		var canon string
		nt := false
		bubble(t, func() {
			time.Sleep(30 * 365 * 24 * time.Hour) // virtual clock to ~2030
			master := rapid.SliceOfN(rapid.Byte(), 16, 16).Draw(rt, "masterKey")
			l := newLab(func(f string, a ...any) { fail = fmt.Sprintf(f, a...) }, labCfg{master: master})
			if fail != "" {
				return
			}
			k := genForge(rt, l, time.Now())
			validated := []int{k.h}
			if k.xover {
				validated = append(validated, k.h+1)
			}
			fault := rapid.SampledFrom([]string{"none", "none", "mac", "mac", "segid", "timestamp", "exptime", "interfaces", "expired", "expired", "not_yet_expired"}).Draw(rt, "fault")
			target := validated[rapid.IntRange(0, len(validated)-1).Draw(rt, "targetHop")]
			tseg := k.segOf(target)
			wantCode := slayers.SCMPCode(0)
			wantForward := true
			if fault == "expired" || fault == "not_yet_expired" {
				for _, v := range validated {
					k.hops[v].ExpTime = 255
				}
				k.hops[target].ExpTime = uint8(rapid.IntRange(0, 20).Draw(rt, "shortExp"))
				k.remac(l.key, rapid.Uint16().Draw(rt, "beta3"), rapid.Uint16().Draw(rt, "beta4"))
			}
			// Half of the faulty packets are preceded, on the same packet processor, by their valid
			// twin (a router processes many packets of a flow with one processor object).
			primed := fault != "none" && rapid.Bool().Draw(rt, "primeWithValidTwin")
			if primed {
				twin, err := k.serialize()
				if err != nil {
					fail = "harness: " + err.Error()
					return
				}
				if r0 := l.inject(k, twin); r0.res.Disposition != router.VerifDispForward {
					fail = fmt.Sprintf("valid twin not forwarded (disposition %d code %d): %v", r0.res.Disposition, r0.res.SPCode, k)
					return
				}
				labels = append(labels, "primed_with_valid_twin")
			}
			switch fault {
			case "mac":
				b := rapid.IntRange(0, 47).Draw(rt, "macBit")
				k.hops[target].Mac[b/8] ^= 1 << (b % 8)
				wantForward, wantCode = false, slayers.SCMPCodeInvalidHopFieldMAC
			case "segid":
				k.infos[tseg].SegID ^= 1 << rapid.IntRange(0, 15).Draw(rt, "segidBit")
				wantForward, wantCode = false, slayers.SCMPCodeInvalidHopFieldMAC
				// the SegID of a segment is first used for its first validated hop in this AS
				if k.xover && tseg == k.segOf(k.h) {
					target = k.h
				}
			case "timestamp":
				// shift forward so that nothing expires: only the MAC input changes
				k.infos[tseg].Timestamp += uint32(rapid.IntRange(1, 100).Draw(rt, "tsShift"))
				wantForward, wantCode = false, slayers.SCMPCodeInvalidHopFieldMAC
				if k.xover && tseg == k.segOf(k.h) {
					target = k.h
				}
			case "exptime":
				// the expiry field itself is MAC-protected: any other value (longer or shorter life)
				// must fail validation; the hop stays unexpired so that only the MAC decides
				old := k.hops[target].ExpTime
				nv := uint8(rapid.IntRange(10, 255).Draw(rt, "newExp"))
				if nv == old {
					nv ^= 0x80
				}
				k.hops[target].ExpTime = nv
				wantForward, wantCode = false, slayers.SCMPCodeInvalidHopFieldMAC
			case "interfaces":
				// the interface pair is MAC-protected; change the side this router does not look up
				// for routing at this hop only when that keeps routing valid, else any side
				if rapid.Bool().Draw(rt, "ifSide") {
					k.hops[target].ConsIngress ^= 1 << rapid.IntRange(8, 15).Draw(rt, "ifBit")
				} else {
					k.hops[target].ConsEgress ^= 1 << rapid.IntRange(8, 15).Draw(rt, "ifBit")
				}
				wantForward, wantCode = false, 0 // rejected; the code depends on which check fires first
			case "expired", "not_yet_expired":
				expiry := ref.HopExpiry(k.infos[tseg].Timestamp, k.hops[target].ExpTime)
				delta := -time.Second
				if fault == "expired" {
					delta = rapid.SampledFrom([]time.Duration{time.Nanosecond, time.Second, time.Hour}).Draw(rt, "afterExpiry")
					wantForward, wantCode = false, slayers.SCMPCodePathExpired
				}
				time.Sleep(time.Until(expiry.Add(delta)))
			}
			// A router-alert flag (not MAC input) on a hop field that does not validate asks for nothing: the
			// refusal comes first, no traceroute answer is given on behalf of a forged hop field.
			alert := ""
			if !wantForward {
				alert = rapid.SampledFrom([]string{"", "", "ingress", "egress", "both"}).Draw(rt, "routerAlert")
				if target != k.h && alert != "" {
					// An ingress alert on the (valid) current hop field diverts the packet to the traceroute
					// handling before the next segment's first hop field is looked at; the packet is then
					// answered or sent back, not forwarded along the path. Only the egress alert is neutral there.
					alert = "egress"
				}
				if alert == "ingress" || alert == "both" {
					if k.consdir[k.segOf(k.h)] {
						k.hops[k.h].IngressRouterAlert = true
					} else {
						k.hops[k.h].EgressRouterAlert = true
					}
				}
				if alert == "egress" || alert == "both" {
					if k.consdir[k.segOf(k.vHop)] {
						k.hops[k.vHop].EgressRouterAlert = true
					} else {
						k.hops[k.vHop].IngressRouterAlert = true
					}
				}
				if alert != "" {
					labels = append(labels, "router_alert_on_refused_hop")
				}
			}
			raw, err := k.serialize()
			if err != nil {
				fail = "harness: " + err.Error()
				return
			}
			r := l.inject(k, raw)
			desc := fmt.Sprintf("%v fault=%s target hop %d alert=%q", k, fault, target, alert)
			if wantForward {
				want, err := k.expectForward(raw)
				if err != nil {
					fail = "harness reference forwarder: " + err.Error()
					return
				}
				if r.res.Disposition != router.VerifDispForward {
					fail = fmt.Sprintf("valid packet not forwarded (disposition %d, slow path type %d code %d): %s", r.res.Disposition, r.res.SPType, r.res.SPCode, desc)
					return
				}
				if r.res.Egress != want.Egress || !bytes.Equal(r.out, want.Out) {
					fail = fmt.Sprintf("valid packet forwarded differently from the reference (egress %d vs %d): %s\n out %x\n ref %x", r.res.Egress, want.Egress, desc, r.out, want.Out)
					return
				}
			} else {
				if r.res.Disposition == router.VerifDispForward {
					fail = fmt.Sprintf("packet forwarded (egress %d) although hop %d is %s: %s", r.res.Egress, target, map[string]string{"expired": "expired"}[fault]+map[bool]string{true: "", false: "not validly MACed"}[fault == "expired"], desc)
					return
				}
				if r.res.Disposition == router.VerifDispSlowPath {
					if r.sErr != nil {
						fail = fmt.Sprintf("slow path failed: %v: %s", r.sErr, desc)
						return
					}
					si, err := decodeSCMP(r.scmp)
					if err != nil {
						fail = fmt.Sprintf("%v: %s", err, desc)
						return
					}
					wantPtr := uint16(k.hopOffset(target))
					if fault == "interfaces" {
						// single value changed, but several checks (interface lookup, link types, MAC) depend on
						// it: only "parameter problem" is asserted
						if si.typ != slayers.SCMPTypeParameterProblem {
							fail = fmt.Sprintf("SCMP answer type %d for an altered interface: %s", si.typ, desc)
							return
						}
					} else if si.typ != slayers.SCMPTypeParameterProblem || si.code != wantCode || si.pointer != wantPtr {
						fail = fmt.Sprintf("SCMP answer is type %d code %d pointer %d; expected parameter problem code %d pointer %d (hop field %d): %s", si.typ, si.code, si.pointer, wantCode, wantPtr, target, desc)
						return
					}
					labels = append(labels, "answered_scmp")
				}
			}
			// classification
			lbl := "fault_" + fault
			if (fault == "mac" || fault == "expired") && k.xover && target == k.h+1 {
				lbl += "_after_xover"
			}
			labels = append(labels, lbl, "arrival_"+k.arrival)
			if k.xover {
				labels = append(labels, "xover")
			}
			if k.peering {
				labels = append(labels, "peering")
			}
			if k.outIf == 0 {
				labels = append(labels, "deliver")
			} else if labIfByID(k.outIf).owner == 2 {
				labels = append(labels, "egress_sibling")
			}
			nt = fault != "none" && (k.xover || k.peering || !k.consdir[tseg] || k.arrival != "ext")
			canon = fmt.Sprintf("%x|%s", raw[:min(len(raw), 150)], fault)
			rec.Sample(func() any {
				return map[string]any{"case": k.String(), "fault": fault, "target_hop": target, "disposition": r.res.Disposition, "scmp_code": int(r.res.SPCode)}
			})
		})
		if fail != "" {
			rt.Fatalf("%s", fail)
		}
		rec.Case(nt, canon, labels...)
	})
}
