package rtr

import (
	"context"
	"fmt"
	"testing"
	"testing/synctest"
	"time"

	"github.com/gopacket/gopacket"
	"github.com/gopacket/gopacket/layers"
	"pgregory.net/rapid"

	"github.com/scionproto/scion/pkg/addr"
	"github.com/scionproto/scion/pkg/slayers"
	"github.com/scionproto/scion/pkg/slayers/path"
	"github.com/scionproto/scion/pkg/slayers/path/empty"
	"github.com/scionproto/scion/pkg/slayers/path/onehop"
	"github.com/scionproto/scion/pkg/slayers/path/scion"
	"github.com/scionproto/scion/router"

	"verif/internal/evid"
	"verif/internal/ref"
)

// ---------------------------------------------------------------------------------------------
// C15 — traffic is not sent over links that BFD declares down.
// One real router with BFD on an external link (11), on the link to sibling router R2 (interfaces
// 13, 23, ...) and without BFD on external link 12 and on the link to sibling router R3 (14, 24, 34).
// Stateful history under a virtual clock: BFD control packets of drawn states delivered through the
// real packet path (processBFD), time advances, transit packets that would use a link. Model: RFC
// 5880 state machine + detection time per session (as in C16).
// ---------------------------------------------------------------------------------------------

type c15Op struct {
	kind  string // bfd, sleep, send
	in    uint16 // send: ingress interface
	xover bool   // send: the packet changes segment at this router (in == link: U-turn)
	alert bool   // send: the hop field carries the egress router alert (only towards the sibling-owned egress)
	link  uint16
	state layers.BFDState
	txMs  int
	mult  int
	ms    int
}

func (o c15Op) String() string {
	switch o.kind {
	case "bfd":
		return fmt.Sprintf("bfd(link %d, %v, tx=%dms, mult=%d)", o.link, o.state, o.txMs, o.mult)
	case "sleep":
		return fmt.Sprintf("sleep(%dms)", o.ms)
	}
	return fmt.Sprintf("send(ingress %d, egress %d, segment change %v, egress alert %v)", o.in, o.link, o.xover, o.alert)
}

func bfdRFC(local, recv layers.BFDState) layers.BFDState {
	switch local {
	case layers.BFDStateDown:
		if recv == layers.BFDStateDown {
			return layers.BFDStateInit
		}
		if recv == layers.BFDStateInit {
			return layers.BFDStateUp
		}
	case layers.BFDStateInit:
		if recv == layers.BFDStateInit || recv == layers.BFDStateUp {
			return layers.BFDStateUp
		}
	case layers.BFDStateUp:
		if recv == layers.BFDStateDown {
			return layers.BFDStateDown
		}
	}
	return local
}

func bfdPacket(external bool, b *layers.BFD) ([]byte, error) {
	s := &slayers.SCION{NextHdr: slayers.L4BFD, SrcIA: labNeighbor(11), DstIA: labLocal, TrafficClass: 0xb8}
	_ = s.SetSrcAddr(addr.MustParseHost("192.0.2.2"))
	_ = s.SetDstAddr(addr.MustParseHost("192.0.2.1"))
	if external {
		s.PathType = onehop.PathType
		s.Path = &onehop.Path{Info: path.InfoField{ConsDir: true, Timestamp: uint32(time.Now().Unix())}, FirstHop: path.HopField{ConsEgress: 1, ExpTime: 63}}
	} else {
		s.PathType, s.Path = empty.PathType, empty.Path{}
		s.SrcIA = labLocal
	}
	buf := gopacket.NewSerializeBuffer()
	if err := gopacket.SerializeLayers(buf, gopacket.SerializeOptions{FixLengths: true}, s, b); err != nil {
		return nil, err
	}
	return append([]byte{}, buf.Bytes()...), nil
}

// xoverPacket forges a packet that arrives through in at the end of a segment travelled against
// construction direction and continues on a second segment through out (in == out: U-turn).
func xoverPacket(key []byte, in, out uint16, now time.Time) ([]byte, error) {
	ts := uint32(now.Unix() - 10)
	h0 := path.HopField{ExpTime: 63, ConsIngress: 7, ConsEgress: 0}
	h1 := path.HopField{ExpTime: 63, ConsIngress: 0, ConsEgress: in}
	h2 := path.HopField{ExpTime: 63, ConsIngress: 0, ConsEgress: out}
	h3 := path.HopField{ExpTime: 63, ConsIngress: 8, ConsEgress: 0}
	const b1, b2 = 0x1357, 0x2468
	h1.Mac = ref.HopMAC(key, b1, ts, h1.ExpTime, 0, in)
	h2.Mac = ref.HopMAC(key, b2, ts, h2.ExpTime, 0, out)
	s1 := uint16(h1.Mac[0])<<8 | uint16(h1.Mac[1])
	infos := []path.InfoField{{ConsDir: false, SegID: b1 ^ s1, Timestamp: ts}, {ConsDir: true, SegID: b2, Timestamp: ts}}
	dec := &scion.Decoded{Base: scion.Base{PathMeta: scion.MetaHdr{CurrHF: 1, CurrINF: 0, SegLen: [3]uint8{2, 2}}, NumINF: 2, NumHops: 4},
		InfoFields: infos, HopFields: []path.HopField{h0, h1, h2, h3}}
	s := &slayers.SCION{NextHdr: slayers.L4UDP, PathType: scion.PathType, Path: dec, SrcIA: labNeighbor(900), DstIA: labNeighbor(901)}
	_ = s.SetSrcAddr(addr.MustParseHost("10.1.1.1"))
	_ = s.SetDstAddr(addr.MustParseHost("10.2.2.2"))
	u := &slayers.UDP{SrcPort: 40001, DstPort: 40002}
	u.SetNetworkLayerForChecksum(s)
	buf := gopacket.NewSerializeBuffer()
	if err := gopacket.SerializeLayers(buf, gopacket.SerializeOptions{FixLengths: true, ComputeChecksums: true}, s, u, gopacket.Payload([]byte("data"))); err != nil {
		return nil, err
	}
	return append([]byte{}, buf.Bytes()...), nil
}

// transitPacket forges a packet in the middle of a 3-hop segment entering through in and leaving
// through out.
func transitPacket(key []byte, in, out uint16, now time.Time) ([]byte, error) {
	return transitPacketAlert(key, in, out, now, false)
}

func transitPacketAlert(key []byte, in, out uint16, now time.Time, egressAlert bool) ([]byte, error) {
	info := path.InfoField{ConsDir: true, SegID: 0x4711, Timestamp: uint32(now.Unix() - 10)}
	h0 := path.HopField{ExpTime: 63, ConsEgress: 5}
	h1 := path.HopField{ExpTime: 63, ConsIngress: in, ConsEgress: out, EgressRouterAlert: egressAlert}
	h2 := path.HopField{ExpTime: 63, ConsIngress: 6}
	h1.Mac = ref.HopMAC(key, info.SegID, info.Timestamp, h1.ExpTime, in, out)
	dec := &scion.Decoded{Base: scion.Base{PathMeta: scion.MetaHdr{CurrHF: 1, SegLen: [3]uint8{3}}, NumINF: 1, NumHops: 3},
		InfoFields: []path.InfoField{info}, HopFields: []path.HopField{h0, h1, h2}}
	s := &slayers.SCION{NextHdr: slayers.L4UDP, PathType: scion.PathType, Path: dec, SrcIA: labNeighbor(900), DstIA: labNeighbor(901)}
	_ = s.SetSrcAddr(addr.MustParseHost("10.1.1.1"))
	_ = s.SetDstAddr(addr.MustParseHost("10.2.2.2"))
	u := &slayers.UDP{SrcPort: 40001, DstPort: 40002}
	u.SetNetworkLayerForChecksum(s)
	buf := gopacket.NewSerializeBuffer()
	if err := gopacket.SerializeLayers(buf, gopacket.SerializeOptions{FixLengths: true, ComputeChecksums: true}, s, u, gopacket.Payload([]byte("data"))); err != nil {
		return nil, err
	}
	return append([]byte{}, buf.Bytes()...), nil
}

func TestC15(t *testing.T) {
	rec := evid.New("C15", "rapid stateful (virtual clock): histories of 1-40 actions on one real router: BFD control packets (state Down/Init/Up, intervals 1-400 ms, detect mult 1-3) delivered through the real packet path to the session of the external link 11 "+
		"or of the link to sibling R2; time advances of 1-1500 ms; transit packets whose egress is 11 (external, BFD), 13 (sibling R2, BFD), 12 (external, no BFD) or 14 (sibling R3, no BFD). Model: RFC 5880 state + detection time per session. "+
		"Oracle after every transit packet: session up or no BFD => forwarded on that link; otherwise not forwarded and SCMP ExternalInterfaceDown (IA, interface) resp. InternalConnectivityDown (IA, ingress, egress). "+
		"Non-trivial: history in which a BFD link went up and down again with packets sent in each phase.")
	defer rec.Flush(t)
	rec.Assume("received AdminDown is not generated here (its handling is the listed C16 finding)", "detection times carry a sub-millisecond fraction so that no action lands on a deadline")
	rec.Require("ext_down_scmp", "ext_up_forwarded", "sib_down_scmp", "sib_up_forwarded", "nobfd_forwarded", "up_then_down_again", "segment_change", "u_turn", "egress_alert_to_sibling", "arrived_over_sibling_link")
	rapid.Check(t, func(rt *rapid.T) {
		n := rapid.IntRange(1, 40).Draw(rt, "n")
		var ops []c15Op
		for i := 0; i < n; i++ {
			switch k := rapid.IntRange(0, 9).Draw(rt, "kind"); {
			case k < 4:
				ops = append(ops, c15Op{kind: "bfd", link: rapid.SampledFrom([]uint16{11, 13, 31}).Draw(rt, "bfdLink"), state: layers.BFDState(rapid.IntRange(1, 3).Draw(rt, "state")),
					txMs: rapid.IntRange(1, 400).Draw(rt, "txms"), mult: rapid.IntRange(1, 3).Draw(rt, "mult")})
			case k < 6:
				ops = append(ops, c15Op{kind: "sleep", ms: rapid.IntRange(1, 1500).Draw(rt, "ms")})
			default:
				eg := rapid.SampledFrom([]uint16{11, 11, 13, 13, 12, 14, 31, 31}).Draw(rt, "egress")
				// ingress: within one segment, or at a segment change (also back out of the interface
				// the packet came in through)
				type via struct {
					in    uint16
					xover bool
				}
				// (ingress 14: the packet reaches this router over the link from sibling router R3)
				opts := map[uint16][]via{11: {{12, false}, {31, true}, {32, true}, {14, false}}, 12: {{11, false}}, 13: {{12, false}, {31, true}}, 14: {{12, false}},
					31: {{21, false}, {31, true}, {32, true}, {11, true}, {24, false}}}[eg]
				v := opts[rapid.IntRange(0, len(opts)-1).Draw(rt, "ingress")]
				alert := eg == 13 && !v.xover && rapid.Bool().Draw(rt, "egressAlert")
				ops = append(ops, c15Op{kind: "send", link: eg, in: v.in, xover: v.xover, alert: alert})
			}
		}
		var fail string
		labels := map[string]bool{}
		synctest.Test(t, func(t *testing.T) {
			time.Sleep(30 * 365 * 24 * time.Hour)
			l := newLab(func(f string, a ...any) { fail = fmt.Sprintf(f, a...) }, labCfg{master: []byte("0123456789abcdef"), bfd: map[uint16]bool{11: true, 13: true, 31: true}})
			if fail != "" {
				return
			}
			l.dp.InitPool(64)
			ctx, cancel := context.WithCancel(context.Background())
			type sess struct {
				s        *bfdSession
				model    layers.BFDState
				deadline time.Time
				wasUp    bool
				downAgain bool
			}
			sessions := map[uint16]*sess{}
			var done []chan struct{}
			for _, id := range []uint16{11, 13, 31} {
				bs := l.dp.Interface(id).BFDSession()
				if bs == nil {
					fail = fmt.Sprintf("link %d has no BFD session although BFD is enabled", id)
					cancel()
					return
				}
				ch := make(chan struct{})
				done = append(done, ch)
				go func() { _ = bs.Run(ctx); close(ch) }()
				sessions[id] = &sess{s: bs, model: layers.BFDStateDown}
			}
			defer func() {
				cancel()
				for _, s := range sessions {
					s.s.Close()
				}
				for _, ch := range done {
					<-ch
				}
			}()
			synctest.Wait()
			reqRx := 200 * time.Millisecond
			tick := func() {
				now := time.Now()
				for _, s := range sessions {
					if !s.deadline.IsZero() && now.After(s.deadline) {
						if s.model == layers.BFDStateUp {
							s.downAgain = true
						}
						if s.model != layers.BFDStateDown {
							s.model = layers.BFDStateDown
						}
						s.deadline = time.Time{}
					}
				}
			}
			for i, op := range ops {
				switch op.kind {
				case "bfd":
					s := sessions[op.link]
					b := &layers.BFD{Version: 1, State: op.state, DetectMultiplier: layers.BFDDetectMultiplier(op.mult), MyDiscriminator: 99,
						YourDiscriminator: s.s.LocalDiscriminator, DesiredMinTxInterval: layers.BFDTimeInterval(op.txMs*1000 + 250), RequiredMinRxInterval: 100000}
					raw, err := bfdPacket(op.link != 13, b)
					if err != nil {
						fail = "harness: " + err.Error()
						return
					}
					r := l.injectOn(l.dp.Interface(op.link), nil, raw)
					if r.res.Disposition != router.VerifDispDone {
						fail = fmt.Sprintf("step %d %v: BFD control packet not consumed by the link's session (disposition %d)", i, op, r.res.Disposition)
						return
					}
					synctest.Wait()
					tick()
					prev := s.model
					s.model = bfdRFC(s.model, op.state)
					if prev == layers.BFDStateUp && s.model != layers.BFDStateUp {
						s.downAgain = true
					}
					if s.model == layers.BFDStateUp {
						s.wasUp = true
					}
					s.deadline = time.Now().Add(time.Duration(op.mult) * max(reqRx, time.Duration(op.txMs*1000+250)*time.Microsecond))
				case "sleep":
					time.Sleep(time.Duration(op.ms)*time.Millisecond + 371300*time.Nanosecond) // never exactly on a detection deadline (whole ms, or + k*0.25 ms)
					synctest.Wait()
					tick()
				case "send":
					tick()
					in := op.in
					var raw []byte
					var err error
					if op.xover {
						raw, err = xoverPacket(l.key, in, op.link, time.Now())
						labels["segment_change"] = true
						if in == op.link {
							labels["u_turn"] = true
						}
					} else {
						raw, err = transitPacketAlert(l.key, in, op.link, time.Now(), op.alert)
						if op.alert {
							labels["egress_alert_to_sibling"] = true
						}
						if in == 14 || in == 24 {
							labels["arrived_over_sibling_link"] = true
						}
					}
					if err != nil {
						fail = "harness: " + err.Error()
						return
					}
					r := l.injectOn(l.dp.Interface(in), nil, raw)
					s := sessions[op.link]
					usable := s == nil || s.model == layers.BFDStateUp
					desc := fmt.Sprintf("step %d %v at +%v", i, op, time.Since(time.Unix(0, 0)).Truncate(time.Millisecond)%time.Hour)
					if usable {
						if r.res.Disposition != router.VerifDispForward || r.res.Egress != op.link {
							fail = fmt.Sprintf("%s: link is usable (BFD up or not configured) but the packet was not forwarded on it (disposition %d egress %d type %d)", desc, r.res.Disposition, r.res.Egress, r.res.SPType)
							return
						}
						switch {
						case s == nil:
							labels["nobfd_forwarded"] = true
						case op.link != 13:
							labels["ext_up_forwarded"] = true
						default:
							labels["sib_up_forwarded"] = true
						}
						if s != nil && s.downAgain {
							labels["up_again_after_down"] = true
						}
						continue
					}
					if r.res.Disposition == router.VerifDispForward {
						fail = fmt.Sprintf("%s: the link's BFD session is %v but the packet was forwarded over it", desc, s.model)
						return
					}
					if r.res.Disposition != router.VerifDispSlowPath || r.sErr != nil {
						fail = fmt.Sprintf("%s: packet for a BFD-down link neither forwarded nor answered (disposition %d, slow path error %v)", desc, r.res.Disposition, r.sErr)
						return
					}
					si, err := decodeSCMP(r.scmp)
					if err != nil {
						fail = fmt.Sprintf("%s: %v", desc, err)
						return
					}
					if op.link != 13 {
						var m slayers.SCMPExternalInterfaceDown
						if si.typ != slayers.SCMPTypeExternalInterfaceDown || m.DecodeFromBytes(si.body, gopacket.NilDecodeFeedback) != nil || m.IA != labLocal || m.IfID != uint64(op.link) {
							fail = fmt.Sprintf("%s: answered with SCMP type %d (IA %s, interface %d), expected external-interface-down for %s#%d", desc, si.typ, m.IA, m.IfID, labLocal, op.link)
							return
						}
						labels["ext_down_scmp"] = true
					} else {
						var m slayers.SCMPInternalConnectivityDown
						if si.typ != slayers.SCMPTypeInternalConnectivityDown || m.DecodeFromBytes(si.body, gopacket.NilDecodeFeedback) != nil || m.IA != labLocal || m.Ingress != uint64(in) || m.Egress != uint64(op.link) {
							fail = fmt.Sprintf("%s: answered with SCMP type %d (IA %s, ingress %d, egress %d), expected internal-connectivity-down for %s %d->%d", desc, si.typ, m.IA, m.Ingress, m.Egress, labLocal, in, op.link)
							return
						}
						labels["sib_down_scmp"] = true
					}
					if s.wasUp && s.downAgain {
						labels["up_then_down_again"] = true
					}
				}
			}
		})
		if fail != "" {
			rt.Fatalf("%s\nhistory: %v", fail, ops)
		}
		var ls []string
		for l := range labels {
			ls = append(ls, l)
		}
		rec.Case(labels["up_then_down_again"], fmt.Sprint(ops), ls...)
		rec.Eval(len(ops) - 1)
		rec.Sample(func() any { return map[string]any{"history": fmt.Sprint(ops)} })
	})
}
