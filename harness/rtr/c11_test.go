package rtr

import (
	"fmt"
	"net/netip"
	"testing"
	"time"

	"github.com/gopacket/gopacket"
	"pgregory.net/rapid"

	"github.com/scionproto/scion/pkg/addr"
	"github.com/scionproto/scion/pkg/private/ptr"
	"github.com/scionproto/scion/pkg/slayers"
	"github.com/scionproto/scion/pkg/slayers/path"
	"github.com/scionproto/scion/pkg/slayers/path/scion"
	"github.com/scionproto/scion/private/env"
	"github.com/scionproto/scion/private/topology"
	"github.com/scionproto/scion/router"
	"github.com/scionproto/scion/router/config"
	"github.com/scionproto/scion/router/control"

	"verif/internal/evid"
	"verif/internal/ref"
)

// ---------------------------------------------------------------------------------------------
// C11 — local delivery uses the documented underlay destination port.
// Oracle: table from doc/dev/design/router-port-dispatch.rst and the statement: derive the port
// from the packet (UDP/TCP destination port, echo/traceroute reply identifier, quoted UDP source
// port of an SCMP error); in the configured range => that port, else 30041; service addresses =>
// a registered instance. Configuration orders: range before / after the internal interface at the
// data-plane level, and the real start-up order through the Connector (with and without the
// router-configuration override).
// ---------------------------------------------------------------------------------------------

type c11Pkt struct {
	desc    string
	l4      []gopacket.SerializableLayer
	proto   slayers.L4ProtocolType
	derived int // -1: no port derivable (default end-host port); -2: not asserted
	setNet  func(*slayers.SCION)
	hbh     bool // hop-by-hop extension header in front of the upper layer
	e2e     bool // end-to-end extension header in front of the upper layer
}

var c11Ports = []uint16{1, 79, 80, 1023, 1024, 1025, 30040, 30041, 30042, 31000, 32767, 32768, 65534, 65535}

func genPort(rt *rapid.T, a, b uint16, label string) uint16 {
	cands := append([]uint16{}, c11Ports...)
	for _, x := range []int{int(a) - 1, int(a), int(a) + 1, int(b) - 1, int(b), int(b) + 1} {
		if x >= 1 && x <= 65535 {
			cands = append(cands, uint16(x))
		}
	}
	if rapid.IntRange(0, 3).Draw(rt, label+"rand") == 0 {
		return uint16(rapid.IntRange(1, 65535).Draw(rt, label+"any"))
	}
	return rapid.SampledFrom(cands).Draw(rt, label)
}

// quotedUDP builds the quote of an offending SCION/UDP packet sent from srcPort.
func quotedUDP(srcPort uint16, truncate int) []byte {
	s := &slayers.SCION{NextHdr: slayers.L4UDP, PathType: scion.PathType, SrcIA: labLocal, DstIA: labNeighbor(31),
		Path: &scion.Decoded{Base: scion.Base{PathMeta: scion.MetaHdr{SegLen: [3]uint8{2}}, NumINF: 1, NumHops: 2},
			InfoFields: []path.InfoField{{ConsDir: true}}, HopFields: []path.HopField{{ConsEgress: 1}, {ConsIngress: 2}}}}
	_ = s.SetSrcAddr(addr.MustParseHost("10.0.0.9"))
	_ = s.SetDstAddr(addr.MustParseHost("10.7.7.7"))
	u := &slayers.UDP{SrcPort: srcPort, DstPort: 5555}
	u.SetNetworkLayerForChecksum(s)
	buf := gopacket.NewSerializeBuffer()
	_ = gopacket.SerializeLayers(buf, gopacket.SerializeOptions{FixLengths: true, ComputeChecksums: true}, s, u, gopacket.Payload([]byte("offending")))
	b := buf.Bytes()
	if truncate > 0 && truncate < len(b) {
		b = b[:truncate]
	}
	return append([]byte{}, b...)
}

func genC11Pkt(rt *rapid.T, a, b uint16) c11Pkt {
	p := genPort(rt, a, b, "port")
	switch rapid.IntRange(0, 8).Draw(rt, "l4kind") {
	case 0, 1:
		return c11Pkt{desc: fmt.Sprintf("UDP dport %d", p), proto: slayers.L4UDP, derived: int(p),
			l4: []gopacket.SerializableLayer{&slayers.UDP{SrcPort: genPort(rt, a, b, "sport"), DstPort: p}, gopacket.Payload([]byte("x"))}}
	case 2:
		tcp := make([]byte, 20)
		tcp[0], tcp[1] = byte(7>>8), 7
		tcp[2], tcp[3] = byte(p>>8), byte(p)
		tcp[12] = 5 << 4
		return c11Pkt{desc: fmt.Sprintf("TCP dport %d", p), proto: slayers.L4TCP, derived: int(p), l4: []gopacket.SerializableLayer{gopacket.Payload(tcp)}}
	case 3:
		return c11Pkt{desc: fmt.Sprintf("SCMP echo reply id %d", p), proto: slayers.L4SCMP, derived: int(p),
			l4: []gopacket.SerializableLayer{&slayers.SCMP{TypeCode: slayers.CreateSCMPTypeCode(slayers.SCMPTypeEchoReply, 0)}, &slayers.SCMPEcho{Identifier: p, SeqNumber: 3}}}
	case 4:
		return c11Pkt{desc: fmt.Sprintf("SCMP traceroute reply id %d", p), proto: slayers.L4SCMP, derived: int(p),
			l4: []gopacket.SerializableLayer{&slayers.SCMP{TypeCode: slayers.CreateSCMPTypeCode(slayers.SCMPTypeTracerouteReply, 0)}, &slayers.SCMPTraceroute{Identifier: p, Sequence: 3}}}
	case 5:
		req := rapid.SampledFrom([]slayers.SCMPType{slayers.SCMPTypeEchoRequest, slayers.SCMPTypeTracerouteRequest}).Draw(rt, "req")
		var m gopacket.SerializableLayer = &slayers.SCMPEcho{Identifier: p}
		if req == slayers.SCMPTypeTracerouteRequest {
			m = &slayers.SCMPTraceroute{Identifier: p}
		}
		return c11Pkt{desc: fmt.Sprintf("SCMP request type %d id %d", req, p), proto: slayers.L4SCMP, derived: -1,
			l4: []gopacket.SerializableLayer{&slayers.SCMP{TypeCode: slayers.CreateSCMPTypeCode(req, 0)}, m}}
	case 6, 7:
		ty := rapid.SampledFrom([]slayers.SCMPType{slayers.SCMPTypeDestinationUnreachable, slayers.SCMPTypePacketTooBig, slayers.SCMPTypeParameterProblem,
			slayers.SCMPTypeExternalInterfaceDown, slayers.SCMPTypeInternalConnectivityDown}).Draw(rt, "errType")
		var m gopacket.SerializableLayer
		switch ty {
		case slayers.SCMPTypeDestinationUnreachable:
			m = &slayers.SCMPDestinationUnreachable{}
		case slayers.SCMPTypePacketTooBig:
			m = &slayers.SCMPPacketTooBig{MTU: 1400}
		case slayers.SCMPTypeParameterProblem:
			m = &slayers.SCMPParameterProblem{Pointer: 12}
		case slayers.SCMPTypeExternalInterfaceDown:
			m = &slayers.SCMPExternalInterfaceDown{IA: labNeighbor(31), IfID: 5}
		default:
			m = &slayers.SCMPInternalConnectivityDown{IA: labNeighbor(31), Ingress: 5, Egress: 6}
		}
		return c11Pkt{desc: fmt.Sprintf("SCMP error type %d quoting UDP sport %d", ty, p), proto: slayers.L4SCMP, derived: int(p),
			l4: []gopacket.SerializableLayer{&slayers.SCMP{TypeCode: slayers.CreateSCMPTypeCode(ty, 0)}, m, gopacket.Payload(quotedUDP(p, 0))}}
	default:
		return c11Pkt{desc: "unknown L4 protocol 253", proto: 253, derived: -1, l4: []gopacket.SerializableLayer{gopacket.Payload([]byte{1, 2, 3, 4, 5, 6, 7, 8})}}
	}
}

// lastHopPacket forges a packet on its last hop entering through child interface 31.
func lastHopPacket(key []byte, dst addr.Host, p c11Pkt, now time.Time) ([]byte, error) {
	info := path.InfoField{ConsDir: true, SegID: 0x1234, Timestamp: uint32(now.Unix() - 10)}
	h0 := path.HopField{ExpTime: 63, ConsIngress: 0, ConsEgress: 7}
	h1 := path.HopField{ExpTime: 63, ConsIngress: 31, ConsEgress: 0}
	h1.Mac = ref.HopMAC(key, 0x1234, info.Timestamp, h1.ExpTime, h1.ConsIngress, h1.ConsEgress)
	dec := &scion.Decoded{Base: scion.Base{PathMeta: scion.MetaHdr{CurrHF: 1, SegLen: [3]uint8{2}}, NumINF: 1, NumHops: 2},
		InfoFields: []path.InfoField{info}, HopFields: []path.HopField{h0, h1}}
	s := &slayers.SCION{NextHdr: p.proto, PathType: scion.PathType, Path: dec, SrcIA: labNeighbor(31), DstIA: labLocal}
	_ = s.SetSrcAddr(addr.MustParseHost("10.3.3.3"))
	if err := s.SetDstAddr(dst); err != nil {
		return nil, err
	}
	ls := []gopacket.SerializableLayer{s}
	next := &s.NextHdr
	if p.hbh {
		x := &slayers.HopByHopExtn{Options: []*slayers.HopByHopOption{{OptType: 77, OptData: []byte{1, 2, 3}}}}
		*next, next = slayers.HopByHopClass, &x.NextHdr
		ls = append(ls, x)
	}
	if p.e2e {
		x := &slayers.EndToEndExtn{Options: []*slayers.EndToEndOption{{OptType: 99, OptData: []byte{9, 8, 7, 6, 5}}}}
		*next, next = slayers.End2EndClass, &x.NextHdr
		ls = append(ls, x)
	}
	*next = p.proto
	for _, l := range p.l4 {
		switch x := l.(type) {
		case *slayers.UDP:
			x.SetNetworkLayerForChecksum(s)
		case *slayers.SCMP:
			x.SetNetworkLayerForChecksum(s)
		}
		ls = append(ls, l)
	}
	buf := gopacket.NewSerializeBuffer()
	if err := gopacket.SerializeLayers(buf, gopacket.SerializeOptions{FixLengths: true, ComputeChecksums: true}, ls...); err != nil {
		return nil, err
	}
	return append([]byte{}, buf.Bytes()...), nil
}

func TestC11(t *testing.T) {
	rec := evid.New("C11", "rapid: dispatched-port range {empty '-', 'all', [a,b] with boundary-heavy a,b} x optional router-configuration override x configuration order {range before the internal interface, after it, real start-up order through the Connector} x "+
		"last-hop packets to IPv4/IPv6/service hosts with L4 in {UDP, TCP, SCMP echo/traceroute reply and request, SCMP errors of every type quoting a UDP packet, unknown protocol}, optionally behind hop-by-hop and/or end-to-end extension headers, ports/identifiers boundary-heavy around the range and 30041. "+
		"Oracle: documented table; observed = underlay address set by the real internal link. Non-trivial: derived port outside the range, range configured after the internal interface, or service destination.")
	defer rec.Flush(t)
	rec.Assume("port 0 is not generated (undefined by the documents)", "the Connector path is exercised through the same calls, in the same order, as control.ConfigDataplane makes")
	rec.Require("order_before", "order_after", "order_connector", "connector_override", "range_empty", "range_all", "range_ab", "in_range", "out_of_range_redirected", "svc_destination", "ipv6_host",
		"l4_udp", "l4_tcp", "l4_echo_reply", "l4_traceroute_reply", "l4_request", "l4_scmp_error", "behind_extension_header")
	rapid.Check(t, func(rt *rapid.T) {
		// ---- range
		var a, b uint16
		rangeKind := rapid.SampledFrom([]string{"empty", "all", "ab", "ab", "ab"}).Draw(rt, "rangeKind")
		switch rangeKind {
		case "all":
			a, b = 1, 65535
		case "ab":
			a = rapid.SampledFrom([]uint16{1, 2, 1024, 30041, 30042, 31000, 32768, 65535}).Draw(rt, "a")
			if rapid.Bool().Draw(rt, "randA") {
				a = uint16(rapid.IntRange(1, 65535).Draw(rt, "aAny"))
			}
			b = uint16(rapid.IntRange(int(a), 65535).Draw(rt, "b"))
			if rapid.IntRange(0, 3).Draw(rt, "single") == 0 {
				b = a
			}
		}
		order := rapid.SampledFrom([]string{"before", "after", "connector"}).Draw(rt, "order")
		master := []byte("0123456789abcdef")
		key := ref.HopKey(master)
		labels := []string{"order_" + order, "range_" + rangeKind}
		now := time.Now()
		effA, effB := a, b

		var resolve func(raw []byte, dst addr.Host, derived uint16) (netip.AddrPort, error)
		nobfd := control.BFD{Disable: ptr.To(true)}
		ext := control.LinkInfo{Provider: "udpip", Local: control.LinkEnd{IA: labLocal, Addr: "192.0.2.1:40031"},
			Remote: control.LinkEnd{IA: labNeighbor(31), Addr: "192.0.2.2:40031"}, LinkTo: topology.Child, BFD: nobfd, MTU: 1400}
		if order == "connector" {
			rcfg := config.RouterConfig{NumProcessors: 1, NumSlowPathProcessors: 1, BatchSize: 8}
			if rapid.IntRange(0, 2).Draw(rt, "override") == 0 {
				oa := rapid.IntRange(1, 65535).Draw(rt, "overrideStart")
				ob := rapid.IntRange(oa, 65535).Draw(rt, "overrideEnd")
				rcfg.DispatchedPortStart, rcfg.DispatchedPortEnd = &oa, &ob
				effA, effB = uint16(oa), uint16(ob)
				labels = append(labels, "connector_override")
			}
			c := router.NewConnector(rcfg, env.Features{})
			w := router.VerifWrap(c)
			w.Underlay("udpip").SetConnOpener(recOpener{})
			chk := func(err error) {
				if err != nil {
					rt.Fatalf("connector set-up: %v", err)
				}
			}
			// the order of control.ConfigDataplane
			chk(c.CreateIACtx(labLocal))
			chk(c.SetKey(labLocal, 0, control.DeriveHFMacKey(master)))
			chk(c.AddInternalInterface(labLocal, addr.MustParseHost("10.0.0.1"), "udpip", "10.0.0.1:30042"))
			chk(c.AddExternalInterface(31, ext, addr.MustParseHost("192.0.2.1"), addr.MustParseHost("192.0.2.2"), true))
			chk(c.AddSvc(labLocal, addr.SvcCS, addr.MustParseHost("10.0.0.77"), 30252))
			c.SetPortRange(a, b)
			helper := router.NewVerifDataPlane(router.RunConfig{NumProcessors: 1, NumSlowPathProcessors: 1, BatchSize: 8}, false)
			resolve = func(raw []byte, dst addr.Host, derived uint16) (netip.AddrPort, error) {
				pkt := helper.NewPacket(raw, w.Interface(0), nil)
				if err := w.Interface(0).Resolve(pkt, dst, derived); err != nil {
					return netip.AddrPort{}, err
				}
				return netip.MustParseAddrPort(pkt.VerifRemote().String()), nil
			}
		} else {
			dp := router.NewVerifDataPlane(router.RunConfig{NumProcessors: 1, NumSlowPathProcessors: 1, BatchSize: 8}, false)
			dp.Underlay("udpip").SetConnOpener(recOpener{})
			chk := func(err error) {
				if err != nil {
					rt.Fatalf("router set-up: %v", err)
				}
			}
			chk(dp.SetIA(labLocal))
			chk(dp.SetKey(control.DeriveHFMacKey(master)))
			if order == "before" {
				dp.SetPortRange(a, b)
			}
			chk(dp.AddInternalInterface(addr.MustParseHost("10.0.0.1"), "udpip", "10.0.0.1:30042"))
			chk(dp.AddNeighborIA(31, labNeighbor(31)))
			chk(dp.AddExternalInterface(31, ext, addr.MustParseHost("192.0.2.1"), addr.MustParseHost("192.0.2.2")))
			chk(dp.AddSvc(addr.SvcCS, addr.MustParseHost("10.0.0.77"), 30252))
			if order == "after" {
				dp.SetPortRange(a, b)
			}
			fp := dp.NewFastPath()
			resolve = func(raw []byte, dst addr.Host, derived uint16) (netip.AddrPort, error) {
				pkt := dp.NewPacket(raw, dp.Interface(31), nil)
				res := fp.Process(pkt)
				if res.Disposition != router.VerifDispForward || res.Egress != 0 {
					return netip.AddrPort{}, fmt.Errorf("not delivered: disposition %d egress %d SCMP code %d", res.Disposition, res.Egress, res.SPCode)
				}
				return netip.MustParseAddrPort(pkt.VerifRemote().String()), nil
			}
		}
		for i := 0; i < 12; i++ {
			p := genC11Pkt(rt, effA, effB)
			if rapid.IntRange(0, 2).Draw(rt, "extensionHeaders") == 0 {
				p.hbh, p.e2e = rapid.Bool().Draw(rt, "hbh"), rapid.Bool().Draw(rt, "e2e")
				if p.hbh || p.e2e {
					p.desc += fmt.Sprintf(" behind extension headers (hbh=%v e2e=%v)", p.hbh, p.e2e)
					labels = append(labels, "behind_extension_header")
				}
			}
			dstKind := rapid.SampledFrom([]string{"ipv4", "ipv4", "ipv6", "svc"}).Draw(rt, "dstKind")
			dst := addr.MustParseHost("10.0.0.50")
			switch dstKind {
			case "ipv6":
				dst = addr.MustParseHost("2001:db8::50")
			case "svc":
				dst = addr.HostSVC(addr.SvcCS)
			}
			raw, err := lastHopPacket(key, dst, p, now)
			if err != nil {
				rt.Fatalf("harness: %v", err)
			}
			derived := uint16(0)
			if p.derived > 0 {
				derived = uint16(p.derived)
			} else if order == "connector" {
				derived = 30041 // what the data plane passes to Resolve when no port is derivable
			}
			got, err := resolve(raw, dst, derived)
			if err != nil {
				rt.Fatalf("%s to %s host (range %d-%d, order %s): %v", p.desc, dstKind, effA, effB, order, err)
			}
			var want netip.AddrPort
			lbl := ""
			switch {
			case dstKind == "svc":
				want = netip.MustParseAddrPort("10.0.0.77:30252")
				lbl = "svc_destination"
			case p.derived > 0 && uint16(p.derived) >= effA && uint16(p.derived) <= effB:
				want = netip.AddrPortFrom(dst.IP(), uint16(p.derived))
				lbl = "in_range"
			default:
				want = netip.AddrPortFrom(dst.IP(), 30041)
				lbl = "out_of_range_redirected"
			}
			if got != want {
				rt.Fatalf("%s for %s host, dispatched range %d-%d configured %s: sent to %v, documented destination %v", p.desc, dstKind, effA, effB, order, got, want)
			}
			ls := append([]string{lbl}, labels...)
			if dstKind == "ipv6" {
				ls = append(ls, "ipv6_host")
			}
			switch {
			case p.proto == slayers.L4UDP:
				ls = append(ls, "l4_udp")
			case p.proto == slayers.L4TCP:
				ls = append(ls, "l4_tcp")
			case p.proto == slayers.L4SCMP:
				switch {
				case len(p.desc) > 14 && p.desc[:14] == "SCMP echo repl":
					ls = append(ls, "l4_echo_reply")
				case len(p.desc) > 14 && p.desc[:14] == "SCMP tracerout":
					ls = append(ls, "l4_traceroute_reply")
				case p.derived == -1:
					ls = append(ls, "l4_request")
				default:
					ls = append(ls, "l4_scmp_error")
				}
			}
			rec.Case(lbl != "in_range" || order != "before", fmt.Sprint(effA, effB, order, p.desc, dstKind), ls...)
			rec.Sample(func() any {
				return map[string]any{"range": fmt.Sprintf("%d-%d", effA, effB), "order": order, "packet": p.desc, "dst": dstKind, "sent_to": got.String()}
			})
		}
	})
}
