package rtr

import (
	"fmt"
	"testing"
	"time"

	"pgregory.net/rapid"

	"github.com/scionproto/scion/pkg/slayers"
	"github.com/scionproto/scion/private/topology"
	"github.com/scionproto/scion/router"

	"verif/internal/evid"
)

// ---------------------------------------------------------------------------------------------
// C06 — forwarding respects the link-type rules of SCION paths.
// From a forged valid transit packet the ingress and egress interfaces are replaced by interfaces of
// every link-type pair (core, parent, child, peer, unset) on every scope (own external, sibling
// owned), hop fields re-MACed (so every packet carries valid MACs), with and without segment change
// and on peering hops. Allowed set transcribed from the statement.
// ---------------------------------------------------------------------------------------------

var allLT = []topology.LinkType{topology.Core, topology.Parent, topology.Child, topology.Peer, topology.Unset}

func allowedWithinSegment(in, out topology.LinkType) bool {
	switch [2]topology.LinkType{in, out} {
	case [2]topology.LinkType{topology.Core, topology.Core}, [2]topology.LinkType{topology.Child, topology.Parent}, [2]topology.LinkType{topology.Parent, topology.Child},
		[2]topology.LinkType{topology.Child, topology.Peer}, [2]topology.LinkType{topology.Peer, topology.Child}:
		return true
	}
	return false
}

func allowedSegmentChange(in, out topology.LinkType) bool {
	switch [2]topology.LinkType{in, out} {
	case [2]topology.LinkType{topology.Core, topology.Child}, [2]topology.LinkType{topology.Child, topology.Core}, [2]topology.LinkType{topology.Child, topology.Child}:
		return true
	}
	return false
}

func TestC06(t *testing.T) {
	rec := evid.New("C06", "rapid: forged validly MACed transit packets (C01 forge) whose ingress/egress interfaces are replaced by every pair of link types {core, parent, child, peer, unset} x egress scope {own external, sibling-owned}, "+
		"re-MACed with the reference MAC; rows without segment change, with segment change and on peering hops; packets from inside (host, sibling) with own-external and sibling-owned egress; unknown egress interface. "+
		"Allowed set from the statement; every other row must not be forwarded and, if answered, with an SCMP parameter problem (InvalidPath, InvalidSegmentChange or UnknownHopFieldIngress/Egress). Non-trivial: a rejected row.")
	defer rec.Flush(t)
	rec.Assume("for packets handed over by a sibling the pair was checked by the ingress router: only 'must leave through an external interface of this router' is asserted")
	rec.Require("within_allowed", "within_rejected", "xover_allowed", "xover_rejected", "peerhop_allowed", "peerhop_rejected", "inside_to_sibling_rejected", "inside_to_external_allowed", "unknown_egress_rejected", "egress_sibling_allowed", "inside_xover_rejected", "primed_with_segment_change")
	okCodes := map[slayers.SCMPCode]bool{slayers.SCMPCodeInvalidPath: true, slayers.SCMPCodeInvalidSegmentChange: true, slayers.SCMPCodeUnknownHopFieldIngress: true, slayers.SCMPCodeUnknownHopFieldEgress: true}
	rapid.Check(t, func(rt *rapid.T) {
		var fail string
		type row struct {
			canon  string
			nt     bool
			labels []string
		}
		var rows []row
		bubble(t, func() {
			time.Sleep(30 * 365 * 24 * time.Hour)
			l := newLab(func(f string, a ...any) { fail = fmt.Sprintf(f, a...) }, labCfg{master: rapid.SliceOfN(rapid.Byte(), 16, 16).Draw(rt, "masterKey")})
			if fail != "" {
				return
			}
			k := genForge(rt, l, time.Now())
			if k.outIf == 0 {
				return // local delivery: no interface pair
			}
			// a router's packet processor lives long: half of the cases first send an allowed segment
			// change (child to child) through the processor that then judges the rows
			if rapid.Bool().Draw(rt, "primeWithSegmentChange") {
				pr, err := xoverPacket(l.key, 31, 32, time.Now())
				if err != nil {
					fail = "harness: " + err.Error()
					return
				}
				if r0 := l.injectOn(l.dp.Interface(31), nil, pr); r0.res.Disposition != router.VerifDispForward || r0.res.Egress != 32 {
					fail = fmt.Sprintf("priming packet (segment change child 31 -> child 32) not forwarded: disposition %d egress %d code %d", r0.res.Disposition, r0.res.Egress, r0.res.SPCode)
					return
				}
				rows = append(rows, row{"primed", false, []string{"primed_with_segment_change"}})
			}
			beta, beta2 := rapid.Uint16().Draw(rt, "b1"), rapid.Uint16().Draw(rt, "b2")
			h := k.h
			s := k.segOf(h)
			peerHop := k.peering && (h == k.lens[0]-1 || h == k.lens[0])
			check := func(inIf, outIf uint16, allowed bool, class string) bool {
				k.inIf, k.outIf = inIf, outIf
				switch {
				case k.xover:
					setSides(&k.hops[h], k.consdir[s], inIf, 0)
					setSides(&k.hops[h+1], k.consdir[s+1], 0, outIf)
				case k.arrival == "sib" && h > 0 && k.segOf(h-1) != s && !k.peering:
					setSides(&k.hops[h-1], k.consdir[s-1], inIf, 0)
					setSides(&k.hops[h], k.consdir[s], 0, outIf)
				default:
					setSides(&k.hops[h], k.consdir[s], inIf, outIf)
				}
				k.remac(l.key, beta, beta2)
				raw, err := k.serialize()
				if err != nil {
					fail = "harness: " + err.Error()
					return false
				}
				r := l.inject(k, raw)
				desc := fmt.Sprintf("%v | in=%d(%v) out=%d(%v, router %d) class=%s", k, inIf, labIfByID(inIf).lt, outIf, labIfByID(outIf).lt, labIfByID(outIf).owner, class)
				if allowed {
					if r.res.Disposition != router.VerifDispForward || r.res.Egress != outIf {
						fail = fmt.Sprintf("allowed combination not forwarded (disposition %d egress %d SCMP code %d): %s", r.res.Disposition, r.res.Egress, r.res.SPCode, desc)
						return false
					}
				} else {
					if r.res.Disposition == router.VerifDispForward {
						fail = fmt.Sprintf("forbidden combination forwarded (egress %d): %s", r.res.Egress, desc)
						return false
					}
					if r.res.Disposition == router.VerifDispSlowPath {
						if r.sErr != nil {
							fail = fmt.Sprintf("slow path failed: %v: %s", r.sErr, desc)
							return false
						}
						si, err := decodeSCMP(r.scmp)
						if err != nil {
							fail = fmt.Sprintf("%v: %s", err, desc)
							return false
						}
						if si.typ != slayers.SCMPTypeParameterProblem || !okCodes[si.code] {
							fail = fmt.Sprintf("forbidden combination answered with SCMP type %d code %d: %s", si.typ, si.code, desc)
							return false
						}
					}
				}
				lbl := class + "_rejected"
				if allowed {
					lbl = class + "_allowed"
				}
				ls := []string{lbl}
				if allowed && labIfByID(outIf).owner == 2 {
					ls = append(ls, "egress_sibling_allowed")
				}
				rows = append(rows, row{fmt.Sprintf("%x", raw[:min(len(raw), 140)]), !allowed, ls})
				return true
			}
			switch k.arrival {
			case "ext":
				for _, inT := range allLT {
					for _, outT := range allLT {
						for _, outOwner := range []int{1, 2} {
							ins, outs := ifsOf(inT, 1), ifsOf(outT, outOwner)
							if len(ins) == 0 || len(outs) == 0 {
								continue
							}
							inIf, outIf := ins[0], outs[len(outs)-1]
							if inIf == outIf {
								outIf = outs[0]
								if inIf == outIf {
									continue
								}
							}
							var allowed bool
							class := "within"
							switch {
							case k.xover:
								allowed, class = allowedSegmentChange(inT, outT), "xover"
							case peerHop:
								allowed, class = allowedWithinSegment(inT, outT), "peerhop"
							default:
								allowed = allowedWithinSegment(inT, outT)
							}
							if !check(inIf, outIf, allowed, class) {
								return
							}
						}
					}
				}
				// egress interface that is not configured at all
				if !check(k.inIf, 999, false, "unknown_egress") {
					return
				}
			default: // from inside: host (first hop) or sibling
				origIn := k.inIf
				for _, outT := range allLT {
					if outs := ifsOf(outT, 1); len(outs) > 0 {
						if !check(origIn, outs[0], true, "inside_to_external") {
							return
						}
					}
					if outs := ifsOf(outT, 2); len(outs) > 0 && labIfByID(origIn).owner != 2 {
						if !check(origIn, outs[0], false, "inside_to_sibling") {
							return
						}
					}
					if outs := ifsOf(outT, 3); len(outs) > 0 && labIfByID(origIn).owner != 3 {
						if !check(origIn, outs[0], false, "inside_to_sibling") {
							return
						}
					}
				}
			}
			// A packet handed over by a sibling but still positioned on the last hop of a segment: this
			// router would perform the segment change without knowing the ingress link type, so none of
			// the three permitted pairs can be established: it must not be forwarded.
			if k.arrival == "sib" && k.h > 0 && k.segOf(k.h-1) != k.segOf(k.h) && !k.peering {
				k.h--
				k.xover = true
				h, s = k.h, k.segOf(k.h)
				in := ifsOf(topology.Child, 2)[0]
				for _, outT := range allLT {
					if outs := ifsOf(outT, 1); len(outs) > 0 {
						if !check(in, outs[0], false, "inside_xover") {
							return
						}
					}
				}
			}
			rec.Sample(func() any { return map[string]any{"base_case": k.String(), "rows": len(rows)} })
		})
		if fail != "" {
			rt.Fatalf("%s", fail)
		}
		for _, r := range rows {
			rec.Case(r.nt, r.canon, r.labels...)
		}
	})
}
