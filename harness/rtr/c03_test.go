package rtr

import (
	"fmt"
	"net"
	"net/netip"
	"testing"
	"time"

	"github.com/gopacket/gopacket"
	"pgregory.net/rapid"

	"github.com/scionproto/scion/pkg/addr"
	"github.com/scionproto/scion/pkg/slayers"
	"github.com/scionproto/scion/pkg/slayers/path"
	"github.com/scionproto/scion/pkg/slayers/path/epic"
	"github.com/scionproto/scion/pkg/slayers/path/onehop"
	scionpath "github.com/scionproto/scion/pkg/slayers/path/scion"
	"github.com/scionproto/scion/pkg/snet"
	snetpath "github.com/scionproto/scion/pkg/snet/path"

	"verif/internal/evid"
	"verif/internal/netsim"
	"verif/internal/ref"
)

// ---------------------------------------------------------------------------------------------
// C03 — reversed paths carry replies back to the source.
// The C02 path space as SCION packets and as EPIC packets (hop validation fields computed by the
// host library from REFERENCE authenticators: full hop MACs recomputed with the AS keys), plus
// one-hop paths completed by the neighbour router. After delivery the path of the delivered packet
// is reversed (host library reply pather or the path's own Reverse), addresses swapped, and the
// reply is walked through the real routers.
// ---------------------------------------------------------------------------------------------

func keyOf(n *netsim.Net, ia addr.IA) []byte { return ref.HopKey(n.Sim.ASes[ia].Spec.Master) }

// refEpicAuths computes the authenticators of the penultimate and last hop from the reference.
func refEpicAuths(n *netsim.Net, pc pathCase) (snet.EpicAuths, error) {
	hdr := make([]byte, 36+len(pc.raw.Raw))
	hdr[5] = byte(len(hdr) / 4)
	hdr[8] = 1
	copy(hdr[36:], pc.raw.Raw)
	betas, err := ref.HopBetas(hdr)
	if err != nil {
		return snet.EpicAuths{}, err
	}
	v, _ := ref.ParsePath(hdr)
	ases := pathASes(pc)
	owner := func(h int) addr.IA {
		for _, a := range ases {
			if h >= a.inHop && h <= a.outHop {
				return a.ia
			}
		}
		return 0
	}
	auth := func(h int) []byte {
		hop := v.Hop(hdr, h)
		info := v.Info(hdr, v.SegOf(h))
		m := ref.FullHopMAC(keyOf(n, owner(h)), betas[h], info.Timestamp, hop.ExpTime, hop.ConsIngress, hop.ConsEgress)
		return m[:]
	}
	last := v.NumHops - 1
	return snet.EpicAuths{AuthPHVF: auth(last - 1), AuthLHVF: auth(last)}, nil
}

func replyWalk(rt *rapid.T, n *netsim.Net, delivered []byte, fromIA addr.IA, method int) (netsim.WalkResult, *slayers.SCION, error) {
	var d slayers.SCION
	if err := d.DecodeFromBytes(append([]byte{}, delivered...), gopacket.NilDecodeFeedback); err != nil {
		return netsim.WalkResult{}, nil, fmt.Errorf("delivered packet does not decode: %v", err)
	}
	var u slayers.UDP
	if err := u.DecodeFromBytes(lastPayload(&d), gopacket.NilDecodeFeedback); err != nil {
		return netsim.WalkResult{}, nil, fmt.Errorf("delivered packet's UDP does not decode: %v", err)
	}
	var rp path.Path
	switch method {
	case 0: // host library
		pb := make([]byte, d.Path.Len())
		if err := d.Path.SerializeTo(pb); err != nil {
			return netsim.WalkResult{}, nil, err
		}
		dp, err := snet.DefaultReplyPather{}.ReplyPath(snet.RawPath{PathType: d.PathType, Raw: pb})
		if err != nil {
			return netsim.WalkResult{}, nil, fmt.Errorf("reply pather: %v", err)
		}
		rp = dp.(snet.RawReplyPath).Path
	default: // the path's own Reverse
		var err error
		toReverse := d.Path
		if ep, ok := d.Path.(*epic.Path); ok {
			// replies to EPIC packets use the embedded SCION path (a reversed EPIC header would need fresh
			// hop validation fields, which only the sender of the reply can compute)
			toReverse = ep.ScionPath
		}
		rp, err = toReverse.Reverse()
		if err != nil {
			return netsim.WalkResult{}, nil, fmt.Errorf("Reverse: %v", err)
		}
	}
	srcHost, _ := d.DstAddr()
	dstHost, _ := d.SrcAddr()
	s := &slayers.SCION{FlowID: d.FlowID, TrafficClass: d.TrafficClass, NextHdr: slayers.L4UDP, PathType: rp.Type(), Path: rp,
		SrcIA: d.DstIA, DstIA: d.SrcIA}
	_ = s.SetSrcAddr(srcHost)
	_ = s.SetDstAddr(dstHost)
	udp := &slayers.UDP{SrcPort: u.DstPort, DstPort: u.SrcPort}
	udp.SetNetworkLayerForChecksum(s)
	buf := gopacket.NewSerializeBuffer()
	if err := gopacket.SerializeLayers(buf, gopacket.SerializeOptions{FixLengths: true, ComputeChecksums: true}, s, udp, gopacket.Payload([]byte("reply"))); err != nil {
		return netsim.WalkResult{}, nil, fmt.Errorf("serializing the reply: %v", err)
	}
	// first interface of the reversed path
	var first uint16
	switch p := rp.(type) {
	case *scionpath.Raw:
		hf, _ := p.GetCurrentHopField()
		inf, _ := p.GetCurrentInfoField()
		first = hf.ConsEgress
		if !inf.ConsDir {
			first = hf.ConsIngress
		}
	case *scionpath.Decoded:
		hf, inf := p.HopFields[p.PathMeta.CurrHF], p.InfoFields[p.PathMeta.CurrINF]
		first = hf.ConsEgress
		if !inf.ConsDir {
			first = hf.ConsIngress
		}
	default:
		return netsim.WalkResult{}, nil, fmt.Errorf("reversed path has type %T", rp)
	}
	src := &net.UDPAddr{IP: srcHost.IP().AsSlice(), Port: int(u.DstPort)}
	return n.Sim.Walk(fromIA, first, src, buf.Bytes()), &d, nil
}

func lastPayload(d *slayers.SCION) []byte {
	pld := d.Payload
	next := d.NextHdr
	for i := 0; i < 2; i++ {
		if next == slayers.HopByHopClass || next == slayers.End2EndClass {
			n := (int(pld[1]) + 1) * 4
			next = slayers.L4ProtocolType(pld[0])
			pld = pld[n:]
		}
	}
	return pld
}

func TestC03(t *testing.T) {
	rec := evid.New("C03", "rapid: the C02 topologies; per path a SCION packet or an EPIC packet (HVFs by the host library from reference authenticators), plus one one-hop-path packet per inter-AS interface of the topology "+
		"(first hop built as beaconing does, completed by the neighbour router, SVC destination); after delivery the delivered packet's path is reversed with the host library's reply pather or the path's own Reverse, "+
		"addresses and ports swapped, and the reply walked back. Oracle: delivered to the original source host; inter-AS interfaces crossed are the exact reverse of the request's. "+
		"Non-trivial: >= 2 segments, shortcut, peering, sibling traversal, EPIC or one-hop path.")
	defer rec.Flush(t)
	rec.Assume("EPIC authenticators come from the reference hop MAC (the combinator's EpicAuths value is only compared and counted, it is outside the listed properties)",
		"EPIC freshness uses the wall clock: a walk takes well under the 2 s packet lifetime")
	rec.Require("kind_scion", "kind_epic", "kind_onehop", "reverse_replypather", "reverse_pathreverse", "peering", "segments_3", "sibling_traversal", "epic_auth_compared")
	rapid.Check(t, func(rt *rapid.T) {
		n := buildNet(rt, true)
		defer n.Close()
		eachPath(rt, n, 12, func(pc pathCase) {
			o := netsim.GenOpts(rt)
			o.WithHBH, o.WithE2E = false, false
			kind := "scion"
			if pc.raw.NumHops >= 2 && rapid.Bool().Draw(rt, "epic") {
				kind = "epic"
			}
			var b []byte
			var labels []string
			if kind == "epic" {
				auths, err := refEpicAuths(n, pc)
				if err != nil {
					rt.Fatalf("reference authenticators: %v", err)
				}
				if ca := pc.p.Metadata.EpicAuths; ca.SupportsEpic() {
					labels = append(labels, "epic_auth_compared")
					if string(ca.AuthLHVF) != string(auths.AuthLHVF) || string(ca.AuthPHVF) != string(auths.AuthPHVF) {
						labels = append(labels, "epic_auth_mismatch_combinator")
					}
				}
				ep, err := snetpath.NewEPICDataplanePath(snetpath.SCION{Raw: pc.raw.Raw}, auths)
				if err != nil {
					rt.Fatalf("EPIC path: %v", err)
				}
				pkt := &snet.Packet{PacketInfo: snet.PacketInfo{
					Source:      snet.SCIONAddress{IA: pc.src, Host: o.SrcHost},
					Destination: snet.SCIONAddress{IA: pc.dst, Host: o.DstHost},
					Path:        ep,
					Payload:     snet.UDPPayload{SrcPort: o.SrcPort, DstPort: o.DstPort, Payload: o.Payload},
				}}
				if err := pkt.Serialize(); err != nil {
					rt.Fatalf("serializing the EPIC packet: %v", err)
				}
				b = append([]byte{}, pkt.Bytes...)
			} else {
				var err error
				b, err = netsim.BuildPacket(pc.src, pc.dst, pc.raw, o)
				if err != nil {
					rt.Fatalf("build: %v", err)
				}
			}
			w := n.Sim.Walk(pc.src, uint16(pc.p.Metadata.Interfaces[0].ID), srcUDP(o), b)
			if !w.Delivered || w.DeliverIA != pc.dst {
				rt.Fatalf("%s request %s -> %s over %v not delivered: %s\n%s", kind, pc.src, pc.dst, metaSeq(pc.p), w.Stopped, dumpWalk(w))
			}
			method := rapid.IntRange(0, 1).Draw(rt, "reverseMethod")
			delivered := w.Steps[len(w.Steps)-1].Out
			rw, _, err := replyWalk(rt, n, delivered, pc.dst, method)
			if err != nil {
				rt.Fatalf("%s %s -> %s: %v", kind, pc.src, pc.dst, err)
			}
			if !rw.Delivered || rw.DeliverIA != pc.src {
				rt.Fatalf("reply to the %s packet %s -> %s over %v was not delivered: %s\nrequest:\n%sreply:\n%s", kind, pc.src, pc.dst, metaSeq(pc.p), rw.Stopped, dumpWalk(w), dumpWalk(rw))
			}
			if got, want := netip.MustParseAddrPort(rw.DeliverTo.String()), netip.AddrPortFrom(o.SrcHost.IP(), o.SrcPort); got != want {
				rt.Fatalf("reply handed to %v, original source host is %v", got, want)
			}
			if got, want := n.Sim.InterfaceSeq(rw, false), reverse(n.Sim.InterfaceSeq(w, false)); fmt.Sprint(got) != fmt.Sprint(want) {
				rt.Fatalf("reply crossed %v, request crossed %v", got, reverse(want))
			}
			labels = append(labels, pathClass(n, pc, w)...)
			labels = append(labels, "kind_"+kind, []string{"reverse_replypather", "reverse_pathreverse"}[method])
			rec.Case(nontrivialPath(labels) || kind == "epic", fmt.Sprint(kind, metaSeq(pc.p), method), labels...)
			rec.Sample(func() any {
				return map[string]any{"kind": kind, "src": pc.src.String(), "dst": pc.dst.String(), "interfaces": metaSeq(pc.p), "reverse": []string{"reply pather", "path.Reverse"}[method]}
			})
		})
		// one-hop paths over every inter-AS interface
		for _, ia := range n.Sim.Order {
			a := n.Sim.ASes[ia]
			for _, ifc := range a.Spec.Ifs {
				key := keyOf(n, ia)
				info := path.InfoField{ConsDir: true, Timestamp: uint32(time.Now().Unix() - int64(rapid.IntRange(0, 100).Draw(rt, "ohpAge"))), SegID: rapid.Uint16().Draw(rt, "ohpSegID")}
				first := path.HopField{ConsEgress: ifc.ID, ExpTime: uint8(rapid.IntRange(10, 255).Draw(rt, "ohpExp"))}
				first.Mac = ref.HopMAC(key, info.SegID, info.Timestamp, first.ExpTime, 0, ifc.ID)
				sport := uint16(rapid.IntRange(1024, 65535).Draw(rt, "ohpPort"))
				pkt := &snet.Packet{PacketInfo: snet.PacketInfo{
					Source:      snet.SCIONAddress{IA: ia, Host: addr.MustParseHost("10.9.9.7")},
					Destination: snet.SCIONAddress{IA: ifc.Remote, Host: addr.HostSVC(addr.SvcCS)},
					Path:        snetpath.OneHop{Info: info, FirstHop: first},
					Payload:     snet.UDPPayload{SrcPort: sport, DstPort: 0, Payload: []byte("beacon")},
				}}
				if err := pkt.Serialize(); err != nil {
					rt.Fatalf("serializing the one-hop packet: %v", err)
				}
				for _, r := range n.Sim.ASes[ifc.Remote].Routers {
					_ = r.DP.AddSvc(addr.SvcCS, addr.MustParseHost("10.77.0.1"), 30252)
				}
				w := n.Sim.Walk(ia, ifc.ID, &net.UDPAddr{IP: net.IPv4(10, 9, 9, 7), Port: int(sport)}, pkt.Bytes)
				if !w.Delivered || w.DeliverIA != ifc.Remote {
					rt.Fatalf("one-hop packet %s#%d -> %s not delivered: %s\n%s", ia, ifc.ID, ifc.Remote, w.Stopped, dumpWalk(w))
				}
				if got := netip.MustParseAddrPort(w.DeliverTo.String()); got != netip.MustParseAddrPort("10.77.0.1:30252") {
					rt.Fatalf("one-hop packet for the control service handed to %v, registered instance is 10.77.0.1:30252", got)
				}
				// reverse the completed one-hop path
				delivered := w.Steps[len(w.Steps)-1].Out
				var d slayers.SCION
				if err := d.DecodeFromBytes(append([]byte{}, delivered...), gopacket.NilDecodeFeedback); err != nil {
					rt.Fatalf("delivered one-hop packet does not decode: %v", err)
				}
				ohp, ok := d.Path.(*onehop.Path)
				if !ok {
					rt.Fatalf("delivered one-hop packet has path type %T", d.Path)
				}
				if ohp.SecondHop.ConsIngress != ifc.RemoteID {
					rt.Fatalf("second hop field names ingress %d, packet entered through %d", ohp.SecondHop.ConsIngress, ifc.RemoteID)
				}
				rp, err := ohp.Reverse()
				if err != nil {
					rt.Fatalf("reversing the one-hop path: %v", err)
				}
				s := &slayers.SCION{NextHdr: slayers.L4UDP, PathType: rp.Type(), Path: rp, SrcIA: ifc.Remote, DstIA: ia}
				_ = s.SetSrcAddr(addr.MustParseHost("10.77.0.1"))
				_ = s.SetDstAddr(addr.MustParseHost("10.9.9.7"))
				udp := &slayers.UDP{SrcPort: 30252, DstPort: sport}
				udp.SetNetworkLayerForChecksum(s)
				buf := gopacket.NewSerializeBuffer()
				if err := gopacket.SerializeLayers(buf, gopacket.SerializeOptions{FixLengths: true, ComputeChecksums: true}, s, udp, gopacket.Payload([]byte("ack"))); err != nil {
					rt.Fatalf("serializing the one-hop reply: %v", err)
				}
				rw := n.Sim.Walk(ifc.Remote, ifc.RemoteID, &net.UDPAddr{IP: net.IPv4(10, 77, 0, 1), Port: 30252}, buf.Bytes())
				if !rw.Delivered || rw.DeliverIA != ia {
					rt.Fatalf("reply over the reversed one-hop path %s#%d -> %s not delivered: %s\n%s", ifc.Remote, ifc.RemoteID, ia, rw.Stopped, dumpWalk(rw))
				}
				if got, want := netip.MustParseAddrPort(rw.DeliverTo.String()), netip.AddrPortFrom(netip.MustParseAddr("10.9.9.7"), sport); got != want {
					rt.Fatalf("one-hop reply handed to %v, source host is %v", got, want)
				}
				if got, want := n.Sim.InterfaceSeq(rw, false), reverse(n.Sim.InterfaceSeq(w, false)); fmt.Sprint(got) != fmt.Sprint(want) {
					rt.Fatalf("one-hop reply crossed %v, request crossed %v", got, reverse(want))
				}
				rec.Case(true, fmt.Sprint("ohp", ia, ifc.ID, info.SegID, first.ExpTime), "kind_onehop")
			}
		}
	})
}
