package rtr

import (
	"fmt"
	"net/netip"
	"testing"
	"time"

	"github.com/gopacket/gopacket"
	"pgregory.net/rapid"

	"github.com/scionproto/scion/pkg/addr"
	"github.com/scionproto/scion/pkg/slayers"
	"github.com/scionproto/scion/router"

	"verif/internal/evid"
	"verif/internal/netsim"
	"verif/internal/ref"
)

// ---------------------------------------------------------------------------------------------
// C10 — SCMP replies and traceroute answers travel back to the sender.
// On C02 paths either a later hop's MAC is corrupted (the detecting router answers with an SCMP
// error) or a router-alert flag is set on the ingress or egress side of a drawn AS and the packet
// carries a traceroute request. Oracle (D, V): the answer is walked through the real routers back
// to the source AS and handed to the source host; a traceroute request is answered exactly by the
// router owning the flagged interface, reporting the local ISD-AS and that interface.
// ---------------------------------------------------------------------------------------------

type asHop struct {
	ia              addr.IA
	ingress, egress uint16 // interfaces used by the path in this AS (0 at the ends)
	inHop, outHop   int    // hop field on which the packet arrives / leaves
}

// pathASes lists the ASes of a path with the interfaces and hop fields they use.
func pathASes(pc pathCase) []asHop {
	raw := pc.raw
	peering := hasPeer(raw)
	pos := asPositions(raw.PathMeta.SegLen, peering)
	n := pos[len(pos)-1] + 1
	out := make([]asHop, n)
	for i := range out {
		out[i].inHop, out[i].outHop = -1, -1
	}
	for h, p := range pos {
		if out[p].inHop < 0 {
			out[p].inHop = h
		}
		out[p].outHop = h
	}
	ifs := pc.p.Metadata.Interfaces
	out[0].ia = pc.src
	for p := 0; p < n; p++ {
		if p > 0 {
			out[p].ia = ifs[2*p-1].IA
			out[p].ingress = uint16(ifs[2*p-1].ID)
		}
		if p < n-1 {
			out[p].egress = uint16(ifs[2*p].ID)
		}
	}
	return out
}

func reverse(xs []string) []string {
	out := make([]string, len(xs))
	for i, x := range xs {
		out[len(xs)-1-i] = x
	}
	return out
}

func TestC10(t *testing.T) {
	rec := evid.New("C10", "rapid: the C02 topologies and paths; per path either (a) one MAC bit of a drawn hop is flipped, or (b) a router-alert flag is set on the ingress or egress side of a drawn AS and the payload is an SCMP traceroute request. "+
		"Additionally, per case, one forged valid traceroute request (C01 forge, all path shapes) with one router-alert flag on a single real router whose links have BFD sessions that are down: the flagged interface is reported although the egress link is down. "+
		"The router's answer is walked back through the real routers: it must be accepted everywhere, cross the request's interfaces in reverse and be handed to the source host (port = quoted UDP source port resp. traceroute identifier); "+
		"traceroute: answered by the router owning the flagged interface with IA/interface/identifier/sequence as expected. Non-trivial: answer raised after a cross-over, on a peering path, by a router reached over a sibling link, or on a 3-segment path.")
	defer rec.Flush(t)
	rec.Assume("interface-down errors themselves are covered by C15 (the network of this check runs without BFD; the single-router part below has BFD sessions that are down); expiry by C01", "hosts are IPv4/IPv6 with ports/identifiers inside the dispatched range 1024-65535")
	rec.Require("scmp_error_back", "traceroute_ingress", "traceroute_egress", "raised_after_xover", "raised_via_sibling", "peering", "segments_3", "raised_at_source_as", "traceroute_flagged_interface_down")
	rapid.Check(t, func(rt *rapid.T) {
		if l, nt, msg := c10FlaggedOnDownInterface(rt); msg != "" {
			rt.Fatalf("%s", msg)
		} else if l != "" {
			rec.Case(nt, "", l)
		}
		n := buildNet(rt, false)
		defer n.Close()
		eachPath(rt, n, 10, func(pc pathCase) {
			raw := pc.raw
			ases := pathASes(pc)
			o := netsim.GenOpts(rt)
			var labels []string
			var desc string
			var wantIA addr.IA
			var wantIf uint16
			traceroute := rapid.Bool().Draw(rt, "traceroute")
			var ident, seq uint16
			if traceroute {
				// choose an AS and a side that the path uses
				var cands [][2]int
				for p, a := range ases {
					if a.ingress != 0 {
						cands = append(cands, [2]int{p, 0})
					}
					if a.egress != 0 {
						cands = append(cands, [2]int{p, 1})
					}
				}
				c := cands[rapid.IntRange(0, len(cands)-1).Draw(rt, "flagAt")]
				a := ases[c[0]]
				h := a.inHop
				if c[1] == 1 {
					h = a.outHop
				}
				hf, _ := raw.GetHopField(h)
				seg := 0
				for hh := h; hh >= int(raw.PathMeta.SegLen[seg]); seg++ {
					hh -= int(raw.PathMeta.SegLen[seg])
				}
				s, hh := 0, h
				for hh >= int(raw.PathMeta.SegLen[s]) {
					hh -= int(raw.PathMeta.SegLen[s])
					s++
				}
				inf, _ := raw.GetInfoField(s)
				if (c[1] == 0) == inf.ConsDir {
					hf.IngressRouterAlert = true
				} else {
					hf.EgressRouterAlert = true
				}
				_ = raw.SetHopField(hf, h)
				wantIA = a.ia
				if c[1] == 0 {
					wantIf = a.ingress
					labels = append(labels, "traceroute_ingress")
				} else {
					wantIf = a.egress
					labels = append(labels, "traceroute_egress")
				}
				desc = fmt.Sprintf("router alert at %s#%d (hop %d)", wantIA, wantIf, h)
				ident = uint16(rapid.IntRange(1024, 65535).Draw(rt, "ident"))
				o.SrcPort = ident // an end host sends SCMP requests from the socket whose port is the identifier
				seq = rapid.Uint16().Draw(rt, "seq")
				o.SCMPHdr = &slayers.SCMP{TypeCode: slayers.CreateSCMPTypeCode(slayers.SCMPTypeTracerouteRequest, 0)}
				o.SCMP = &slayers.SCMPTraceroute{Identifier: ident, Sequence: seq}
				o.Payload = nil
			} else {
				k := rapid.IntRange(0, raw.NumHops-1).Draw(rt, "badHop")
				hf, _ := raw.GetHopField(k)
				b := rapid.IntRange(0, 47).Draw(rt, "macBit")
				hf.Mac[b/8] ^= 1 << (b % 8)
				_ = raw.SetHopField(hf, k)
				desc = fmt.Sprintf("MAC bit %d of hop %d flipped", b, k)
				labels = append(labels, "scmp_error_back")
			}
			b, err := netsim.BuildPacket(pc.src, pc.dst, raw, o)
			if err != nil {
				rt.Fatalf("build: %v", err)
			}
			w := n.Sim.Walk(pc.src, uint16(pc.p.Metadata.Interfaces[0].ID), srcUDP(o), b)
			if w.SlowPath == nil || w.SlowAt == nil {
				rt.Fatalf("%s -> %s over %v, %s: no router answered (stopped: %s, delivered=%v)\n%s", pc.src, pc.dst, metaSeq(pc.p), desc, w.Stopped, w.Delivered, dumpWalk(w))
			}
			if !w.ReplyDelivered {
				rt.Fatalf("%s -> %s over %v, %s: the answer of %s router %d did not get back: %s\n%s", pc.src, pc.dst, metaSeq(pc.p), desc, w.SlowAt.IA, w.SlowAt.Router, w.ReplyStopped, dumpWalk(w))
			}
			if w.ReplyIA != pc.src {
				rt.Fatalf("answer delivered in %s, source AS is %s", w.ReplyIA, pc.src)
			}
			wantPort := o.SrcPort
			if traceroute {
				wantPort = ident
			}
			if got, want := netip.MustParseAddrPort(w.ReplyTo.String()), netip.AddrPortFrom(o.SrcHost.IP(), wantPort); got != want {
				rt.Fatalf("%s: answer handed to %v, source host is %v", desc, got, want)
			}
			// the answer crosses the request's interfaces in reverse order
			fwdSeq := n.Sim.InterfaceSeq(w, false)
			wantBack := reverse(fwdSeq)
			if w.SlowAt.Via == "ext" && len(wantBack) > 0 {
				// the answer leaves through the link the offending packet came in on; that emission is not
				// a forwarding step of the walk
				wantBack = wantBack[1:]
			}
			if got := n.Sim.InterfaceSeq(w, true); fmt.Sprint(got) != fmt.Sprint(wantBack) {
				rt.Fatalf("%s: answer crossed %v, request had crossed %v\n%s", desc, got, fwdSeq, dumpWalk(w))
			}
			// decode the answer
			var d slayers.SCION
			if err := d.DecodeFromBytes(w.SlowPath, gopacket.NilDecodeFeedback); err != nil {
				rt.Fatalf("answer does not decode: %v", err)
			}
			if d.DstIA != pc.src || d.SrcIA != w.SlowAt.IA {
				rt.Fatalf("answer addressed %s -> %s, expected %s -> %s", d.SrcIA, d.DstIA, w.SlowAt.IA, pc.src)
			}
			if ref.PseudoSum(uint64(d.SrcIA), uint64(d.DstIA), d.RawSrcAddr, d.RawDstAddr, uint8(slayers.L4SCMP), d.Payload) != 0xffff && d.NextHdr == slayers.L4SCMP {
				rt.Fatalf("answer's SCMP checksum does not verify")
			}
			var sc slayers.SCMP
			if d.NextHdr != slayers.L4SCMP || sc.DecodeFromBytes(d.Payload, gopacket.NilDecodeFeedback) != nil {
				rt.Fatalf("answer is not SCMP (next header %v)", d.NextHdr)
			}
			if traceroute {
				if sc.TypeCode.Type() != slayers.SCMPTypeTracerouteReply {
					rt.Fatalf("%s: answered with %v instead of a traceroute reply\n%s", desc, sc.TypeCode, dumpWalk(w))
				}
				var tr slayers.SCMPTraceroute
				if err := tr.DecodeFromBytes(sc.Payload, gopacket.NilDecodeFeedback); err != nil {
					rt.Fatalf("traceroute reply does not decode: %v", err)
				}
				if tr.IA != wantIA || tr.Interface != uint64(wantIf) || tr.Identifier != ident || tr.Sequence != seq {
					rt.Fatalf("%s: traceroute reply reports %s#%d id=%d seq=%d, expected %s#%d id=%d seq=%d", desc, tr.IA, tr.Interface, tr.Identifier, tr.Sequence, wantIA, wantIf, ident, seq)
				}
				if w.SlowAt.IA != wantIA || !n.Sim.ASes[wantIA].Routers[w.SlowAt.Router].Owned[wantIf] {
					rt.Fatalf("%s: answered by %s router %d, which does not own interface %d", desc, w.SlowAt.IA, w.SlowAt.Router, wantIf)
				}
			} else if sc.TypeCode.Type() != slayers.SCMPTypeParameterProblem || sc.TypeCode.Code() != slayers.SCMPCodeInvalidHopFieldMAC {
				rt.Fatalf("%s: answered with %v", desc, sc.TypeCode)
			}
			// classification
			if hasPeer(raw) {
				labels = append(labels, "peering")
			}
			if raw.NumINF == 3 {
				labels = append(labels, "segments_3")
			}
			if w.SlowAt.Via == "sib" {
				labels = append(labels, "raised_via_sibling")
			}
			if w.SlowAt.IA == pc.src {
				labels = append(labels, "raised_at_source_as")
			}
			if v, err := ref.ParsePath(w.SlowAt.In); err == nil && v.CurrINF > 0 {
				labels = append(labels, "raised_after_xover")
			}
			nt := false
			for _, l := range labels {
				switch l {
				case "peering", "segments_3", "raised_via_sibling", "raised_after_xover":
					nt = true
				}
			}
			rec.Case(nt, fmt.Sprint(metaSeq(pc.p), desc), labels...)
			rec.Sample(func() any {
				return map[string]any{"src": pc.src.String(), "dst": pc.dst.String(), "interfaces": metaSeq(pc.p), "cause": desc, "answered_by": fmt.Sprintf("%s r%d", w.SlowAt.IA, w.SlowAt.Router), "reply_to": w.ReplyTo.String()}
			})
		})
	})
}

// c10FlaggedOnDownInterface: a traceroute request whose router-alert flag designates an interface of
// this router is answered with that interface, whatever the state of the egress link (the flag is
// what lets traceroute pinpoint a failed link). One real router (the lab of C01), BFD enabled on a
// drawn set of links and never brought up, i.e. those links are down.
func c10FlaggedOnDownInterface(rt *rapid.T) (label string, nontrivial bool, fail string) {
	bfdOn := map[uint16]bool{}
	for _, x := range labIfs {
		if x.owner != 3 && rapid.Bool().Draw(rt, fmt.Sprintf("bfdDown%d", x.id)) {
			bfdOn[x.id] = true
		}
	}
	l := newLab(func(f string, a ...any) { fail = fmt.Sprintf(f, a...) }, labCfg{master: rapid.SliceOfN(rapid.Byte(), 16, 16).Draw(rt, "labKey"), bfd: bfdOn})
	if fail != "" {
		return "", false, "harness: " + fail
	}
	k := genForge(rt, l, time.Now())
	var sides []string
	if k.arrival == "ext" {
		sides = append(sides, "ingress")
	}
	if k.outIf != 0 && labIfByID(k.outIf).owner == 1 {
		sides = append(sides, "egress")
	}
	if len(sides) == 0 {
		return "", false, ""
	}
	side := rapid.SampledFrom(sides).Draw(rt, "flaggedSide")
	wantIf := k.inIf
	if side == "ingress" {
		if k.consdir[k.segOf(k.h)] {
			k.hops[k.h].IngressRouterAlert = true
		} else {
			k.hops[k.h].EgressRouterAlert = true
		}
	} else {
		wantIf = k.outIf
		if k.consdir[k.segOf(k.vHop)] {
			k.hops[k.vHop].EgressRouterAlert = true
		} else {
			k.hops[k.vHop].IngressRouterAlert = true
		}
	}
	sc, err := k.scionLayer()
	if err != nil {
		return "", false, "harness: " + err.Error()
	}
	sc.NextHdr = slayers.L4SCMP
	ident, seq := uint16(rapid.IntRange(1024, 65535).Draw(rt, "labIdent")), rapid.Uint16().Draw(rt, "labSeq")
	hdr := &slayers.SCMP{TypeCode: slayers.CreateSCMPTypeCode(slayers.SCMPTypeTracerouteRequest, 0)}
	hdr.SetNetworkLayerForChecksum(sc)
	buf := gopacket.NewSerializeBuffer()
	if err := gopacket.SerializeLayers(buf, gopacket.SerializeOptions{FixLengths: true, ComputeChecksums: true}, sc, hdr, &slayers.SCMPTraceroute{Identifier: ident, Sequence: seq}); err != nil {
		return "", false, "harness: " + err.Error()
	}
	raw := append([]byte{}, buf.Bytes()...)
	r := l.inject(k, raw)
	down := k.outIf != 0 && bfdOn[k.outIf]
	desc := fmt.Sprintf("traceroute request flagged for the %s side (interface %d), egress %d down=%v: %v", side, wantIf, k.outIf, down, k)
	if r.res.Disposition != router.VerifDispSlowPath || r.sErr != nil || r.scmp == nil {
		return "", false, fmt.Sprintf("%s: not answered (disposition %d egress %d, slow path error %v)", desc, r.res.Disposition, r.res.Egress, r.sErr)
	}
	si, err := decodeSCMP(r.scmp)
	if err != nil {
		return "", false, fmt.Sprintf("%s: %v", desc, err)
	}
	if si.typ != slayers.SCMPTypeTracerouteReply {
		return "", false, fmt.Sprintf("%s: answered with SCMP type %d code %d instead of a traceroute reply", desc, si.typ, si.code)
	}
	var tr slayers.SCMPTraceroute
	if err := tr.DecodeFromBytes(si.body, gopacket.NilDecodeFeedback); err != nil {
		return "", false, fmt.Sprintf("%s: traceroute reply does not decode: %v", desc, err)
	}
	if tr.IA != labLocal || tr.Interface != uint64(wantIf) || tr.Identifier != ident || tr.Sequence != seq {
		return "", false, fmt.Sprintf("%s: traceroute reply reports %s#%d id=%d seq=%d, expected %s#%d id=%d seq=%d", desc, tr.IA, tr.Interface, tr.Identifier, tr.Sequence, labLocal, wantIf, ident, seq)
	}
	if si.scion.DstIA != k.srcIA {
		return "", false, fmt.Sprintf("%s: reply addressed to %s", desc, si.scion.DstIA)
	}
	if down {
		return "traceroute_flagged_interface_down", true, ""
	}
	return "traceroute_flagged_interface_up", false, ""
}
