package rtr

import (
	"fmt"
	"testing"
	"time"

	"pgregory.net/rapid"

	"github.com/scionproto/scion/pkg/addr"
	"github.com/scionproto/scion/pkg/slayers"
	"github.com/scionproto/scion/router"

	"verif/internal/evid"
)

// ---------------------------------------------------------------------------------------------
// C05 — routers reject impossible source or destination ISD-AS and transit spoofing.
// From a forged valid packet (valid MACs) every combination of SrcIA in {local, neighbour, other},
// DstIA in {local, other} and, for packets from inside, ingress link in {host/internal link, link to
// the sibling owning the hop's ingress interface, link to a different sibling} is injected. The
// decision table is transcribed from the statement.
// ---------------------------------------------------------------------------------------------

func TestC05(t *testing.T) {
	rec := evid.New("C05", "rapid: forged validly MACed packets (C01 forge: all shapes, positions first/middle/last, external / sibling / host ingress) x enumerated SrcIA {local, neighbour, stranger} x DstIA {local, other} x "+
		"ingress link for packets from inside {internal link, owning sibling link, other sibling link}; decision table from the statement; rejected packets that are answered must carry SCMP InvalidSourceAddress / InvalidDestinationAddress. "+
		"Non-trivial: row that the table rejects, or an accepted row reached over a sibling link.")
	defer rec.Flush(t)
	rec.Assume("a first-hop packet arriving over a sibling link is not covered by the statement and not asserted", "MAC validity is independent of the address header (addresses are not MAC inputs)")
	rec.Require("first_hop_over_sibling_link_rejected", "inside_transit_without_ingress_interface_rejected", "outside_src_local_rejected", "outside_deliver", "outside_last_hop_dst_other_rejected", "outside_transit_dst_local_rejected", "inside_first_hop_src_other_rejected",
		"inside_dst_local_rejected", "inside_transit_wrong_sibling_rejected", "inside_transit_internal_link_rejected", "inside_transit_owning_sibling_accepted", "inside_first_hop_accepted")
	rapid.Check(t, func(rt *rapid.T) {
		var fail string
		type row struct {
			canon  string
			nt     bool
			labels []string
		}
		var rows []row
		bubble(t, func() {
			time.Sleep(30 * 365 * 24 * time.Hour)
			l := newLab(func(f string, a ...any) { fail = fmt.Sprintf(f, a...) }, labCfg{master: rapid.SliceOfN(rapid.Byte(), 16, 16).Draw(rt, "masterKey")})
			if fail != "" {
				return
			}
			k := genForge(rt, l, time.Now())
			total := k.total()
			// position as the router sees it on arrival
			first, last := k.h == 0, k.h == total-1
			srcs := []addr.IA{labLocal, labNeighbor(k.inIf), labNeighbor(900)}
			dsts := []addr.IA{labLocal, labNeighbor(901)}
			type ing struct {
				name string
				link router.Link
			}
			var ings []ing
			switch k.arrival {
			case "ext":
				ings = []ing{{"ext", l.dp.Interface(k.inIf)}}
			case "host":
				// a first-hop packet normally comes from a host; handed over by a sibling router it is still "from
				// inside the AS, on its first hop" (only the rejections are asserted for that row)
				ings = []ing{{"internal", l.dp.Interface(0)}, {"sibling_first_hop", l.dp.Interface(13)}}
			case "sib":
				other := uint16(14) // owned by the third router
				if labIfByID(k.inIf).owner == 3 {
					other = 13
				}
				ings = []ing{{"owning_sibling", l.dp.Interface(k.inIf)}, {"other_sibling", l.dp.Interface(other)}, {"internal", l.dp.Interface(0)}}
			}
			for _, src := range srcs {
				for _, dst := range dsts {
					for _, in := range ings {
						k.srcIA, k.dstIA = src, dst
						raw, err := k.serialize()
						if err != nil {
							fail = "harness: " + err.Error()
							return
						}
						// ---- decision table (statement)
						var accept bool
						var why string
						var wantCodes []slayers.SCMPCode
						srcLocal, dstLocal := src == labLocal, dst == labLocal
						if k.arrival == "ext" {
							switch {
							case srcLocal:
								accept, why, wantCodes = false, "outside_src_local_rejected", []slayers.SCMPCode{slayers.SCMPCodeInvalidSourceAddress}
							case last && dstLocal:
								accept, why = true, "outside_deliver"
							case last:
								accept, why, wantCodes = false, "outside_last_hop_dst_other_rejected", []slayers.SCMPCode{slayers.SCMPCodeInvalidDestinationAddress}
							case dstLocal:
								accept, why, wantCodes = false, "outside_transit_dst_local_rejected", []slayers.SCMPCode{slayers.SCMPCodeInvalidDestinationAddress}
							default:
								accept, why = true, "outside_transit"
							}
						} else {
							switch {
							case !first && in.name == "other_sibling":
								accept, why = false, "inside_transit_wrong_sibling_rejected"
							case !first && in.name == "internal":
								accept, why = false, "inside_transit_internal_link_rejected"
							case first && !srcLocal:
								accept, why, wantCodes = false, "inside_first_hop_src_other_rejected", []slayers.SCMPCode{slayers.SCMPCodeInvalidSourceAddress}
							case dstLocal:
								accept, why, wantCodes = false, "inside_dst_local_rejected", []slayers.SCMPCode{slayers.SCMPCodeInvalidDestinationAddress}
							case first:
								accept, why = true, "inside_first_hop_accepted"
							default:
								accept, why = true, "inside_transit_owning_sibling_accepted"
							}
						}
						// several reasons may apply at once (e.g. wrong sibling and dst local): then only
						// "not forwarded" is asserted
						multi := 0
						if k.arrival == "ext" {
							if srcLocal {
								multi++
							}
							if last != dstLocal {
								multi++
							}
						} else {
							if !first && in.name != "owning_sibling" {
								multi++
							}
							if first && !srcLocal {
								multi++
							}
							if dstLocal {
								multi++
							}
						}
						var remote = l.hostAddr(k)
						if in.name != "internal" {
							remote = nil
						}
						r := l.injectOn(in.link, remote, raw)
						desc := fmt.Sprintf("%v | src=%s dst=%s ingress=%s", k, src, dst, in.name)
						if accept && in.name == "sibling_first_hop" {
							continue
						}
						if accept {
							if r.res.Disposition != router.VerifDispForward {
								fail = fmt.Sprintf("packet the statement accepts (%s) was not forwarded (disposition %d, SCMP code %d): %s", why, r.res.Disposition, r.res.SPCode, desc)
								return
							}
							if dstLocal != (r.res.Egress == 0) {
								fail = fmt.Sprintf("local delivery=%v but destination local=%v: %s", r.res.Egress == 0, dstLocal, desc)
								return
							}
						} else {
							if r.res.Disposition == router.VerifDispForward {
								fail = fmt.Sprintf("packet the statement rejects (%s) was forwarded/delivered (egress %d): %s", why, r.res.Egress, desc)
								return
							}
							if r.res.Disposition == router.VerifDispSlowPath && multi == 1 && len(wantCodes) > 0 {
								if r.sErr != nil {
									fail = fmt.Sprintf("slow path failed: %v: %s", r.sErr, desc)
									return
								}
								si, err := decodeSCMP(r.scmp)
								if err != nil {
									fail = fmt.Sprintf("%v: %s", err, desc)
									return
								}
								if si.typ != slayers.SCMPTypeParameterProblem || si.code != wantCodes[0] {
									fail = fmt.Sprintf("rejected (%s) with SCMP type %d code %d, expected parameter problem code %d: %s", why, si.typ, si.code, wantCodes[0], desc)
									return
								}
							}
						}
						rows = append(rows, row{canon: fmt.Sprintf("%x|%s", raw[:60], in.name), nt: !accept || in.name == "owning_sibling", labels: append([]string{why, "arrival_" + k.arrival}, map[bool][]string{true: {"first_hop_over_sibling_link_rejected"}}[in.name == "sibling_first_hop"]...)})
					}
				}
			}
			// A packet from the internal network, not on its first hop, whose path names no ingress interface
			// at all for this AS (interface 0): no sibling router owns that, the packet claims to be in
			// transit without having entered anywhere. Whatever its source, it is not forwarded.
			if k.arrival == "sib" && !first {
				h, sg := k.h, k.segOf(k.h)
				if h > 0 && k.segOf(h-1) != sg && !k.peering {
					// first hop after a segment change: the ingress interface is that of the previous hop field
					setSides(&k.hops[h-1], k.consdir[sg-1], 0, 0)
				} else {
					setSides(&k.hops[h], k.consdir[sg], 0, k.outIf)
				}
				k.remac(l.key, rapid.Uint16().Draw(rt, "zb1"), rapid.Uint16().Draw(rt, "zb2"))
				for _, src := range srcs {
					k.srcIA, k.dstIA = src, labNeighbor(901)
					raw, err := k.serialize()
					if err != nil {
						fail = "harness: " + err.Error()
						return
					}
					r := l.injectOn(l.dp.Interface(0), l.hostAddr(k), raw)
					if r.res.Disposition == router.VerifDispForward {
						fail = fmt.Sprintf("packet from the internal network, not on its first hop (hop %d), whose path gives ingress interface 0 for this AS, source %s: forwarded through interface %d: %v", k.h, src, r.res.Egress, k)
						return
					}
					rows = append(rows, row{canon: fmt.Sprintf("%x|zero", raw[:60]), nt: true, labels: []string{"inside_transit_without_ingress_interface_rejected", "arrival_" + k.arrival}})
				}
			}
			rec.Sample(func() any {
				return map[string]any{"base_case": k.String(), "rows": len(rows)}
			})
		})
		if fail != "" {
			rt.Fatalf("%s", fail)
		}
		for _, r := range rows {
			rec.Case(r.nt, r.canon, r.labels...)
		}
	})
}
