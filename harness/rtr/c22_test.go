package rtr

import (
	"fmt"
	"testing"

	"pgregory.net/rapid"

	"github.com/scionproto/scion/pkg/addr"
	seg "github.com/scionproto/scion/pkg/segment"
	"github.com/scionproto/scion/pkg/slayers"
	"github.com/scionproto/scion/private/topology"

	"verif/internal/evid"
	"verif/internal/netsim"
	"verif/internal/ref"
)

// ---------------------------------------------------------------------------------------------
// C22 — segment-ID accumulator updates give every hop its construction-time value.
// Two chains of ASes below one core AS (lengths up to 31 + 31 = 62 ASes + core, i.e. segments of up
// to 32 hops), with peering links between drawn positions of the two chains; beaconed by the real
// extender (MACs are pseudo-random: keys and timestamps differ per case). Every path the real
// combinator builds (full segments, shortcuts on the common chain, peering shortcuts at every
// position) is checked twice: (1) the accumulator value with which each hop field is validated
// under the reference traversal rules (ref.HopBetas: initial SegID of the combinator + XOR at egress
// in construction direction / at ingress against it / none on peering hops) equals the value the
// beaconing AS used (beta_0 = segment id, beta_{i+1} = beta_i XOR MAC_i[0:2]; a peer entry of AS
// entry i uses beta_{i+1}); (2) the real routers accept every hop.
// ---------------------------------------------------------------------------------------------

func genChains(rt *rapid.T) netsim.Topo {
	a := rapid.IntRange(1, 6).Draw(rt, "chainA")
	b := rapid.IntRange(1, 6).Draw(rt, "chainB")
	if rapid.IntRange(0, 9).Draw(rt, "long") == 0 {
		a = rapid.IntRange(7, 31).Draw(rt, "chainALong")
		b = rapid.IntRange(1, 62-a-1).Draw(rt, "chainBLong")
		if b > 31 {
			b = 31
		}
	}
	var t netsim.Topo
	t.MaxHops = 40
	nextIf := map[int]uint16{}
	add := func(core bool) int {
		idx := len(t.ASes)
		t.ASes = append(t.ASes, netsim.ASSpec{IA: addr.MustIAFrom(1, addr.AS(0xff0000000100+uint64(idx))), Core: core,
			Master: rapid.SliceOfN(rapid.Byte(), 16, 16).Draw(rt, "key"), MTU: 1400, NumRouters: rapid.IntRange(1, 2).Draw(rt, "routers")})
		nextIf[idx] = uint16(rapid.IntRange(1, 20).Draw(rt, "ifBase"))
		return idx
	}
	link := func(x, y int, xTo, yTo topology.LinkType) {
		ix, iy := nextIf[x], nextIf[y]
		nextIf[x]++
		nextIf[y]++
		X, Y := &t.ASes[x], &t.ASes[y]
		X.Ifs = append(X.Ifs, netsim.IfSpec{ID: ix, Remote: Y.IA, RemoteID: iy, LinkTo: xTo, MTU: 1400, Router: rapid.IntRange(0, X.NumRouters-1).Draw(rt, "rtr")})
		Y.Ifs = append(Y.Ifs, netsim.IfSpec{ID: iy, Remote: X.IA, RemoteID: ix, LinkTo: yTo, MTU: 1400, Router: rapid.IntRange(0, Y.NumRouters-1).Draw(rt, "rtr")})
	}
	core := add(true)
	chain := func(n int) []int {
		var ids []int
		parent := core
		for i := 0; i < n; i++ {
			c := add(false)
			link(parent, c, topology.Child, topology.Parent)
			ids = append(ids, c)
			parent = c
		}
		return ids
	}
	A, B := chain(a), chain(b)
	nPeer := rapid.IntRange(0, min(4, min(a, b))).Draw(rt, "peerLinks")
	for i := 0; i < nPeer; i++ {
		link(A[rapid.IntRange(0, a-1).Draw(rt, "peerA")], B[rapid.IntRange(0, b-1).Draw(rt, "peerB")], topology.Peer, topology.Peer)
	}
	return t
}

type hopKey struct {
	in, out uint16
	exp     uint8
	mac     [6]byte
}

func TestC22(t *testing.T) {
	rec := evid.New("C22", "rapid: two chains of 1-31 ASes below a core AS with 0-4 peering links between drawn chain positions, 1-2 routers per AS, random keys; beaconed with the real extender; every path of the real combinator between all AS pairs "+
		"(<= 12 per pair). Oracle: per hop field, reference-traversal accumulator (ref.HopBetas on the combinator's initial SegIDs) == construction-time accumulator from the registered segments (independent XOR chain); "+
		"plus acceptance by every real router, also of the answer a router raises right after a segment change (traceroute request flagged there) on its way back. Non-trivial: shortcut or peering path, or a segment of >= 8 hops.")
	defer rec.Flush(t)
	rec.Assume("MAC values are sampled (random keys/timestamps), not symbolic: a defect that shows only for particular first-two-MAC-byte values has probability ~2^-16 per hop of being hit",
		"segment length bounded by 32 hop fields per segment (64 per path)")
	rec.Require("shortcut", "peering", "against_consdir_segment", "consdir_segment", "long_segment", "full_updown", "answer_after_segment_change")
	rapid.Check(t, func(rt *rapid.T) {
		topo := genChains(rt)
		n, err := netsim.Build(topo, false, nil)
		if err != nil {
			rt.Fatalf("building the chain network: %v", err)
		}
		defer n.Close()
		// construction-time accumulators of every registered hop field
		want := map[hopKey]uint16{}
		addSeg := func(ps *seg.PathSegment) {
			beta := ps.Info.SegmentID
			for _, e := range ps.ASEntries {
				hf := e.HopEntry.HopField
				sigma := uint16(hf.MAC[0])<<8 | uint16(hf.MAC[1])
				want[hopKey{hf.ConsIngress, hf.ConsEgress, hf.ExpTime, hf.MAC}] = beta
				for _, pe := range e.PeerEntries {
					want[hopKey{pe.HopField.ConsIngress, pe.HopField.ConsEgress, pe.HopField.ExpTime, pe.HopField.MAC}] = beta ^ sigma
				}
				beta ^= sigma
			}
		}
		for _, ia := range n.Sim.Order {
			for _, ty := range []seg.Type{seg.TypeUp, seg.TypeDown, seg.TypeCore} {
				for _, ps := range n.Sim.ASes[ia].Registered[ty] {
					addSeg(ps)
				}
			}
		}
		eachPath(rt, n, 12, func(pc pathCase) {
			o := netsim.DefaultOpts()
			b, err := netsim.BuildPacket(pc.src, pc.dst, pc.raw, o)
			if err != nil {
				rt.Fatalf("build: %v", err)
			}
			betas, err := ref.HopBetas(b)
			if err != nil {
				rt.Fatalf("reference traversal: %v", err)
			}
			v, _ := ref.ParsePath(b)
			labels := pathClass(n, pc, netsim.WalkResult{})
			for h := 0; h < v.NumHops; h++ {
				hop := v.Hop(b, h)
				k := hopKey{hop.ConsIngress, hop.ConsEgress, hop.ExpTime, hop.MAC}
				w, ok := want[k]
				if !ok {
					rt.Fatalf("%s -> %s over %v: hop field %d of the combined path is not a hop or peer entry of any registered segment", pc.src, pc.dst, metaSeq(pc.p), h)
				}
				if betas[h] != w {
					rt.Fatalf("%s -> %s over %v (SegLen %v): hop field %d would be validated with accumulator %#04x, its AS created it with %#04x (segment %d, ConsDir=%v, peering=%v)",
						pc.src, pc.dst, metaSeq(pc.p), v.SegLen, h, betas[h], w, v.SegOf(h), v.Info(b, v.SegOf(h)).ConsDir, v.Info(b, 0).Peer)
				}
			}
			wk := n.Sim.Walk(pc.src, uint16(pc.p.Metadata.Interfaces[0].ID), srcUDP(o), b)
			if !wk.Delivered || wk.DeliverIA != pc.dst {
				rt.Fatalf("%s -> %s over %v: accumulators match the reference but a router rejected the packet: %s\n%s", pc.src, pc.dst, metaSeq(pc.p), wk.Stopped, dumpWalk(wk))
			}
			// An answer raised by a router after it switched segments travels the reverse way with the same
			// accumulators: a traceroute request flagged for the egress side of the first hop of a later
			// segment must be answered and the answer must pass every router back to the source.
			if v.NumINF > 1 {
				s := rapid.IntRange(1, v.NumINF-1).Draw(rt, "answerAfterSegmentChange")
				h := 0
				for i := 0; i < s; i++ {
					h += int(v.SegLen[i])
				}
				hf, _ := pc.raw.GetHopField(h)
				out := hf.ConsIngress
				if v.Info(b, s).ConsDir {
					hf.EgressRouterAlert = true
					out = hf.ConsEgress
				} else {
					hf.IngressRouterAlert = true
				}
				_ = pc.raw.SetHopField(hf, h)
				o2 := netsim.DefaultOpts()
				o2.SCMPHdr = &slayers.SCMP{TypeCode: slayers.CreateSCMPTypeCode(slayers.SCMPTypeTracerouteRequest, 0)}
				o2.SCMP = &slayers.SCMPTraceroute{Identifier: o2.SrcPort, Sequence: 1}
				o2.Payload = nil
				b2, err := netsim.BuildPacket(pc.src, pc.dst, pc.raw, o2)
				if err != nil {
					rt.Fatalf("build: %v", err)
				}
				w2 := n.Sim.Walk(pc.src, uint16(pc.p.Metadata.Interfaces[0].ID), srcUDP(o2), b2)
				if out == 0 {
					// the later segment consists of the destination's (peering) hop field only: nothing to answer
					if !w2.Delivered {
						rt.Fatalf("%s -> %s over %v: flag on a hop field without egress interface: not delivered: %s", pc.src, pc.dst, metaSeq(pc.p), w2.Stopped)
					}
				} else if w2.SlowPath == nil || !w2.ReplyDelivered || w2.ReplyIA != pc.src {
					rt.Fatalf("%s -> %s over %v: traceroute request flagged at hop field %d (first of segment %d): answered=%v, answer back at the source=%v (%s)\n%s",
						pc.src, pc.dst, metaSeq(pc.p), h, s, w2.SlowPath != nil, w2.ReplyDelivered && w2.ReplyIA == pc.src, w2.ReplyStopped, dumpWalk(w2))
				}
				if out != 0 {
					labels = append(labels, "answer_after_segment_change")
				}
			}
			for i := 0; i < v.NumINF; i++ {
				if v.Info(b, i).ConsDir {
					labels = append(labels, "consdir_segment")
				} else {
					labels = append(labels, "against_consdir_segment")
				}
				if v.SegLen[i] >= 8 {
					labels = append(labels, "long_segment")
				}
			}
			if v.NumINF == 2 && !v.Info(b, 0).Peer && !contains(labels, "shortcut") {
				labels = append(labels, "full_updown")
			}
			nt := contains(labels, "shortcut") || contains(labels, "peering") || contains(labels, "long_segment")
			rec.Case(nt, fmt.Sprint(metaSeq(pc.p), v.SegLen), labels...)
			rec.Eval(v.NumHops - 1)
			rec.Sample(func() any {
				return map[string]any{"src": pc.src.String(), "dst": pc.dst.String(), "seg_len": v.SegLen, "interfaces": len(pc.p.Metadata.Interfaces), "betas": fmt.Sprintf("%04x", betas)}
			})
		})
	})
}

func contains(xs []string, x string) bool {
	for _, y := range xs {
		if y == x {
			return true
		}
	}
	return false
}
