package rtr

import (
	"fmt"
	"net"
	"net/netip"
	"reflect"
	"syscall"
	"testing"
	"unsafe"

	"pgregory.net/rapid"

	"github.com/scionproto/scion/pkg/addr"
	"github.com/scionproto/scion/pkg/private/ptr"
	"github.com/scionproto/scion/pkg/segment/iface"
	"github.com/scionproto/scion/private/env"
	"github.com/scionproto/scion/private/topology"
	"github.com/scionproto/scion/private/underlay/conn"
	"github.com/scionproto/scion/private/underlay/sockctrl"
	"github.com/scionproto/scion/router"
	"github.com/scionproto/scion/router/config"
	"github.com/scionproto/scion/router/control"

	"verif/internal/evid"
)

// ---------------------------------------------------------------------------------------------
// C17 — configured socket buffer sizes reach the matching socket option.
// Stage 1: the router is built the way cmd/router builds it (NewConnector, then the calls of
// control.ConfigDataplane) with a recording connection opener; every conn.Config the router asks
// for must carry ReceiveBufferSize == configured receive size and SendBufferSize == configured send
// size, one socket per expected link. Stage 2: the real conn.New on loopback with sizes below
// rmem_max/wmem_max; getsockopt must report 2 x size for the matching option.
// ---------------------------------------------------------------------------------------------

func udpConnOf(c conn.Conn) *net.UDPConn {
	v := reflect.ValueOf(c)
	for v.Kind() == reflect.Ptr || v.Kind() == reflect.Interface {
		v = v.Elem()
	}
	base := v.FieldByName("connUDPBase")
	if !base.IsValid() {
		return nil
	}
	f := base.FieldByName("conn")
	if !f.IsValid() {
		return nil
	}
	return *(**net.UDPConn)(unsafe.Pointer(f.UnsafeAddr()))
}

func TestC17(t *testing.T) {
	rec := evid.New("C17", "rapid: (receive, send) buffer sizes (distinct in > 90 % of cases) x router topology (internal interface, 1-4 owned external links of any type, 0-3 sibling-owned interfaces on 1-2 sibling routers) built through "+
		"router.NewConnector and the call sequence of control.ConfigDataplane with a recording connection opener: every requested conn.Config must have the configured sizes in the matching fields. Stage 2: real sockets on loopback via conn.New, "+
		"SO_RCVBUF/SO_SNDBUF read back. Non-trivial: receive size != send size.")
	defer rec.Flush(t)
	rec.Assume("stage 2 uses sizes below net.core.rmem_max/wmem_max (the kernel doubles the requested value)", "stage 2 is skipped (and counted as skipped) if loopback sockets cannot be opened")
	rec.Require("sizes_differ", "socket_internal", "socket_external", "sibling_links", "realsocket_checked", "only_send_configured", "only_receive_configured", "connected_socket")
	rapid.Check(t, func(rt *rapid.T) {
		recv := rapid.SampledFrom([]int{0, 1, 4096, 65536, 212992, 1 << 20, 1 << 24}).Draw(rt, "recv")
		send := rapid.SampledFrom([]int{0, 2, 8192, 131072, 212992, 1 << 21, 1 << 25}).Draw(rt, "send")
		if rapid.Bool().Draw(rt, "randomSizes") {
			recv, send = rapid.IntRange(1, 1<<26).Draw(rt, "recvAny"), rapid.IntRange(1, 1<<26).Draw(rt, "sendAny")
		}
		if rapid.IntRange(0, 9).Draw(rt, "equal") == 0 {
			send = recv
		}
		var opened []openRec
		c := router.NewConnector(config.RouterConfig{NumProcessors: 1, NumSlowPathProcessors: 1, BatchSize: 8, ReceiveBufferSize: recv, SendBufferSize: send}, env.Features{})
		w := router.VerifWrap(c)
		w.Underlay("udpip").SetConnOpener(recOpener{&opened})
		chk := func(err error) {
			if err != nil {
				rt.Fatalf("connector set-up: %v", err)
			}
		}
		chk(c.CreateIACtx(labLocal))
		chk(c.SetKey(labLocal, 0, control.DeriveHFMacKey([]byte("0123456789abcdef"))))
		chk(c.AddInternalInterface(labLocal, addr.MustParseHost("10.0.0.1"), "udpip", "10.0.0.1:30042"))
		nobfd := control.BFD{Disable: ptr.To(true)}
		nExt := rapid.IntRange(1, 4).Draw(rt, "nExternal")
		nSib := rapid.IntRange(0, 3).Draw(rt, "nSibling")
		lts := []topology.LinkType{topology.Core, topology.Parent, topology.Child, topology.Peer}
		id := uint16(1)
		for i := 0; i < nExt; i++ {
			li := control.LinkInfo{Provider: "udpip", Local: control.LinkEnd{IA: labLocal, Addr: fmt.Sprintf("192.0.2.1:%d", 40000+int(id))},
				Remote: control.LinkEnd{IA: labNeighbor(id), Addr: fmt.Sprintf("192.0.2.2:%d", 40000+int(id))}, LinkTo: rapid.SampledFrom(lts).Draw(rt, "lt"), BFD: nobfd, MTU: 1400}
			chk(c.AddExternalInterface(ifaceID(id), li, addr.MustParseHost("192.0.2.1"), addr.MustParseHost("192.0.2.2"), true))
			id++
		}
		sibRouters := map[int]bool{}
		for i := 0; i < nSib; i++ {
			r := rapid.IntRange(2, 3).Draw(rt, "sibRouter")
			sibRouters[r] = true
			li := control.LinkInfo{Provider: "udpip", Local: control.LinkEnd{IA: labLocal, Addr: "10.0.0.1:30042"},
				Remote: control.LinkEnd{IA: labNeighbor(id), Addr: fmt.Sprintf("10.0.0.%d:30042", r)}, LinkTo: rapid.SampledFrom(lts).Draw(rt, "slt"), BFD: nobfd, MTU: 1400}
			chk(c.AddExternalInterface(ifaceID(id), li, addr.MustParseHost("10.0.0.1"), addr.MustParseHost(fmt.Sprintf("10.0.0.%d", r)), false))
			id++
		}
		c.SetPortRange(1024, 65535)
		labels := []string{}
		if recv != send {
			labels = append(labels, "sizes_differ")
		}
		if nSib > 0 {
			labels = append(labels, "sibling_links")
		}
		sawInternal, nExternalSockets := false, 0
		for _, o := range opened {
			if o.cfg.ReceiveBufferSize != recv || o.cfg.SendBufferSize != send {
				rt.Fatalf("socket %v -> %v requested with ReceiveBufferSize=%d SendBufferSize=%d; configured receive=%d send=%d", o.local, o.remote, o.cfg.ReceiveBufferSize, o.cfg.SendBufferSize, recv, send)
			}
			if o.local == netip.MustParseAddrPort("10.0.0.1:30042") {
				sawInternal = true
			} else {
				nExternalSockets++
			}
		}
		if !sawInternal {
			rt.Fatalf("no socket opened for the internal interface (opened: %v)", opened)
		}
		if nExternalSockets != nExt {
			rt.Fatalf("%d sockets opened for %d external links (opened: %v)", nExternalSockets, nExt, opened)
		}
		labels = append(labels, "socket_internal", "socket_external")

		// ---- stage 2: real sockets
		// (a size of 0 means "not configured": the other one must still be applied; connected sockets
		// are what external and sibling links use, unconnected ones the internal link)
		r2, s2 := rapid.IntRange(2304, 100000).Draw(rt, "realRecv"), rapid.IntRange(4608, 100000).Draw(rt, "realSend")
		switch rapid.IntRange(0, 5).Draw(rt, "onlyOneConfigured") {
		case 0:
			r2 = 0
			labels = append(labels, "only_send_configured")
		case 1:
			s2 = 0
			labels = append(labels, "only_receive_configured")
		}
		var remote netip.AddrPort
		if rapid.Bool().Draw(rt, "connectedSocket") {
			remote = netip.MustParseAddrPort("127.0.0.1:30041")
			labels = append(labels, "connected_socket")
		}
		cc, err := conn.New(netip.MustParseAddrPort("127.0.0.1:0"), remote, &conn.Config{ReceiveBufferSize: r2, SendBufferSize: s2})
		if err != nil {
			labels = append(labels, "realsocket_skipped")
		} else {
			u := udpConnOf(cc)
			if u == nil {
				labels = append(labels, "realsocket_skipped")
			} else {
				gr, err1 := sockctrl.GetsockoptInt(u, syscall.SOL_SOCKET, syscall.SO_RCVBUF)
				gs, err2 := sockctrl.GetsockoptInt(u, syscall.SOL_SOCKET, syscall.SO_SNDBUF)
				if err1 != nil || err2 != nil {
					labels = append(labels, "realsocket_skipped")
				} else {
					if (r2 != 0 && gr != 2*r2) || (s2 != 0 && gs != 2*s2) {
						cc.Close()
						rt.Fatalf("socket opened with ReceiveBufferSize=%d SendBufferSize=%d reports SO_RCVBUF=%d SO_SNDBUF=%d (kernel doubles: expected %d / %d)", r2, s2, gr, gs, 2*r2, 2*s2)
					}
					labels = append(labels, "realsocket_checked")
				}
			}
			cc.Close()
		}
		rec.Case(recv != send, fmt.Sprint(recv, send, nExt, nSib, r2, s2), labels...)
		rec.Sample(func() any {
			return map[string]any{"receive": recv, "send": send, "external_links": nExt, "sibling_interfaces": nSib, "sockets_opened": len(opened), "real_socket": fmt.Sprintf("%d/%d", r2, s2)}
		})
	})
}

func ifaceID(x uint16) iface.ID { return iface.ID(x) }
