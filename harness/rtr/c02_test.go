package rtr

import (
	"fmt"
	"net/netip"
	"testing"

	"pgregory.net/rapid"

	"verif/internal/evid"
	"verif/internal/netsim"
)

// ---------------------------------------------------------------------------------------------
// C02 — paths built from beacons are accepted hop by hop and reach the destination.
// C07 — forwarded packets change only in the path's mutable state (checked on the same walks).
//
// Differential oracle between control plane and data plane: per generated topology the REAL
// originator, propagator, handler, beacon store, registration writer and combinator produce the
// paths; per path a packet is walked through the REAL fast path of every border router (sibling
// traversals included). C07: every forwarding step is byte-compared with the input under a mask and
// with an independent reference forwarding step.
// ---------------------------------------------------------------------------------------------

func runC02C07(t *testing.T, rec02, rec07 *evid.Rec) {
	rapid.Check(t, func(rt *rapid.T) {
		n := buildNet(rt, false)
		defer n.Close()
		nPaths := 0
		eachPath(rt, n, 40, func(pc pathCase) {
			o := netsim.GenOpts(rt)
			b, err := netsim.BuildPacket(pc.src, pc.dst, pc.raw, o)
			if err != nil {
				rt.Fatalf("building packet: %v", err)
			}
			w := n.Sim.Walk(pc.src, uint16(pc.p.Metadata.Interfaces[0].ID), srcUDP(o), b)
			nPaths++
			if rec02 != nil {
				if !w.Delivered || w.DeliverIA != pc.dst {
					rt.Fatalf("%s -> %s over %v (meta header %v): not delivered: %s\n%s", pc.src, pc.dst, metaSeq(pc.p), pc.raw.PathMeta, w.Stopped, dumpWalk(w))
				}
				if got, want := n.Sim.InterfaceSeq(w, false), metaSeq(pc.p); fmt.Sprint(got) != fmt.Sprint(want) {
					rt.Fatalf("%s -> %s: packet crossed interfaces %v, path metadata lists %v", pc.src, pc.dst, got, want)
				}
				if got := netip.MustParseAddrPort(w.DeliverTo.String()); got != wantDeliverAddr(o) {
					rt.Fatalf("%s -> %s: handed to underlay address %v, destination host is %v", pc.src, pc.dst, got, wantDeliverAddr(o))
				}
				ls := pathClass(n, pc, w)
				rec02.Case(nontrivialPath(ls), fmt.Sprint(metaSeq(pc.p), pc.raw.PathMeta), ls...)
				rec02.Sample(func() any {
					return map[string]any{"src": pc.src.String(), "dst": pc.dst.String(), "interfaces": metaSeq(pc.p), "seg_len": pc.raw.PathMeta.SegLen, "router_steps": len(w.Steps)}
				})
			}
			if rec07 != nil {
				for i, st := range w.Steps {
					if err := checkStepBytes(n, st, pc.dst); err != nil {
						rt.Fatalf("%s -> %s over %v, step %d at %s router %d: %v", pc.src, pc.dst, metaSeq(pc.p), i, st.IA, st.Router, err)
					}
					v := st.Via
					xover := false
					if len(st.In) > 0 && len(st.Out) > 0 {
						xover = st.In[pcOff(st.In)]>>6 != st.Out[pcOff(st.Out)]>>6
					}
					ls := []string{"step_via_" + v}
					if xover {
						ls = append(ls, "step_segment_change")
					}
					if o.WithHBH || o.WithE2E {
						ls = append(ls, "step_with_extension_header")
					}
					rec07.Case(xover || o.WithHBH || o.WithE2E, fmt.Sprintf("%x", st.In[:min(len(st.In), 120)]), ls...)
				}
				rec07.Sample(func() any {
					return map[string]any{"src": pc.src.String(), "dst": pc.dst.String(), "interfaces": metaSeq(pc.p), "hbh": o.WithHBH, "e2e": o.WithE2E, "payload_len": len(o.Payload), "steps": len(w.Steps)}
				})
			}
		})
		if rec02 != nil {
			rec02.Label("topologies")
			rec02.Label(fmt.Sprintf("ases_%d", len(n.Sim.Order)))
		}
	})
}

func pcOff(raw []byte) int {
	dl := (int(raw[9]>>4&3) + 1) * 4
	sl := (int(raw[9]&3) + 1) * 4
	return 12 + 16 + dl + sl
}

func TestC02(t *testing.T) {
	rec := evid.New("C02", "rapid: topology (1-2 ISDs, 1-2 cores each, <= 5 non-core ASes of depth <= 3 with optional second/parallel parent links, <= 3 peering links, 1-3 border routers per AS with random interface ownership, "+
		"random keys/MTUs/AS numbers) x beacon delivery order; real origination/propagation/registration; every (src, dst) pair and every path the real combinator returns (<= 40 per pair); one generated packet per path "+
		"(hosts, ports, traffic class, flow id, payload, optional HBH/E2E headers) walked through the real routers. Non-trivial: path with >= 2 segments, a shortcut, a peering link or a sibling traversal.")
	defer rec.Flush(t)
	rec.Assume("signature verification is replaced by an accept-all verifier here (C23-C25 cover it)", "links are loss-free; routers' BFD disabled", "beacon policies are the defaults (max 10 entries)")
	rec.Require("segments_1", "segments_2", "segments_3", "peering", "sibling_traversal", "shortcut")
	runC02C07(t, rec, nil)
}

func TestC07(t *testing.T) {
	rec := evid.New("C07", "rapid: the C02 walks; every forwarding step (external, sibling or host ingress) is byte-compared: (i) differing positions must lie in {pointer byte of the path meta header, SegID bytes of the segment current on entry and on exit}; "+
		"length unchanged; (ii) the output must equal an independent reference forwarding step written from the header specification. Non-trivial: step with a segment change or a packet carrying extension headers. "+
		"Router-alert consumption and one-hop completion are covered by the C10 and C12 checks.")
	defer rec.Flush(t)
	rec.Assume("reference forwarder (ref.Forward, 70 lines) from doc/protocols/scion-header.rst; one deviation shared by combinator and router: against construction direction the SegID is updated when the packet enters the AS from outside")
	rec.Require("step_via_ext", "step_via_sib", "step_via_host", "step_segment_change", "step_with_extension_header")
	runC02C07(t, nil, rec)
}
