package rtr

import (
	"bytes"
	"fmt"
	"net"
	"net/netip"
	"testing"
	"time"

	"github.com/gopacket/gopacket"
	"github.com/scionproto/scion/pkg/addr"
	"github.com/scionproto/scion/pkg/slayers/path"
	"github.com/scionproto/scion/pkg/slayers/path/onehop"
	"github.com/scionproto/scion/pkg/snet"
	snetpath "github.com/scionproto/scion/pkg/snet/path"
	"verif/internal/ref"

	"pgregory.net/rapid"

	"github.com/scionproto/scion/pkg/slayers"
	"github.com/scionproto/scion/router"

	"verif/internal/evid"
	"verif/internal/netsim"
)

// ---------------------------------------------------------------------------------------------
// C02 — paths built from beacons are accepted hop by hop and reach the destination.
// C07 — forwarded packets change only in the path's mutable state (checked on the same walks).
//
// Differential oracle between control plane and data plane: per generated topology the REAL
// originator, propagator, handler, beacon store, registration writer and combinator produce the
// paths; per path a packet is walked through the REAL fast path of every border router (sibling
// traversals included). C07: every forwarding step is byte-compared with the input under a mask and
// with an independent reference forwarding step.
// ---------------------------------------------------------------------------------------------

func runC02C07(t *testing.T, rec02, rec07 *evid.Rec) {
	rapid.Check(t, func(rt *rapid.T) {
		n := buildNet(rt, false)
		defer n.Close()
		nPaths := 0
		eachPath(rt, n, 40, func(pc pathCase) {
			o := netsim.GenOpts(rt)
			alert := ""
			if rec07 != nil && rapid.IntRange(0, 3).Draw(rt, "routerAlert") == 0 {
				// a traceroute request with a router-alert flag on a drawn hop: routers that do not consume
				// the alert must forward the packet with the flag untouched
				h := rapid.IntRange(0, pc.raw.NumHops-1).Draw(rt, "alertHop")
				hf, _ := pc.raw.GetHopField(h)
				if rapid.Bool().Draw(rt, "alertSide") {
					hf.IngressRouterAlert = true
				} else {
					hf.EgressRouterAlert = true
				}
				_ = pc.raw.SetHopField(hf, h)
				o.SrcPort = uint16(rapid.IntRange(1024, 65535).Draw(rt, "ident"))
				o.SCMPHdr = &slayers.SCMP{TypeCode: slayers.CreateSCMPTypeCode(slayers.SCMPTypeTracerouteRequest, 0)}
				o.SCMP = &slayers.SCMPTraceroute{Identifier: o.SrcPort, Sequence: 1}
				o.Payload = nil
				alert = fmt.Sprintf("alert on hop %d", h)
			}
			b, err := netsim.BuildPacket(pc.src, pc.dst, pc.raw, o)
			if err != nil {
				rt.Fatalf("building packet: %v", err)
			}
			isEpic := false
			if rec07 != nil && alert == "" && pc.raw.NumHops >= 2 && rapid.IntRange(0, 3).Draw(rt, "epic") == 0 {
				// the same path as an EPIC packet: its 16 bytes in front of the path are never touched either
				auths, err := refEpicAuths(n, pc)
				if err != nil {
					rt.Fatalf("reference authenticators: %v", err)
				}
				ep, err := snetpath.NewEPICDataplanePath(snetpath.SCION{Raw: pc.raw.Raw}, auths)
				if err != nil {
					rt.Fatalf("EPIC path: %v", err)
				}
				pkt := &snet.Packet{PacketInfo: snet.PacketInfo{Source: snet.SCIONAddress{IA: pc.src, Host: o.SrcHost}, Destination: snet.SCIONAddress{IA: pc.dst, Host: o.DstHost},
					Path: ep, Payload: snet.UDPPayload{SrcPort: o.SrcPort, DstPort: o.DstPort, Payload: o.Payload}}}
				if err := pkt.Serialize(); err != nil {
					rt.Fatalf("serializing the EPIC packet: %v", err)
				}
				b, isEpic = append([]byte{}, pkt.Bytes...), true
				o.WithHBH, o.WithE2E = false, false
			}
			w := n.Sim.Walk(pc.src, uint16(pc.p.Metadata.Interfaces[0].ID), srcUDP(o), b)
			if isEpic && (!w.Delivered || w.DeliverIA != pc.dst) {
				rt.Fatalf("EPIC packet %s -> %s over %v not delivered: %s\n%s", pc.src, pc.dst, metaSeq(pc.p), w.Stopped, dumpWalk(w))
			}
			nPaths++
			if rec02 != nil {
				if !w.Delivered || w.DeliverIA != pc.dst {
					rt.Fatalf("%s -> %s over %v (meta header %v): not delivered: %s\n%s", pc.src, pc.dst, metaSeq(pc.p), pc.raw.PathMeta, w.Stopped, dumpWalk(w))
				}
				if got, want := n.Sim.InterfaceSeq(w, false), metaSeq(pc.p); fmt.Sprint(got) != fmt.Sprint(want) {
					rt.Fatalf("%s -> %s: packet crossed interfaces %v, path metadata lists %v", pc.src, pc.dst, got, want)
				}
				if got := netip.MustParseAddrPort(w.DeliverTo.String()); got != wantDeliverAddr(o) {
					rt.Fatalf("%s -> %s: handed to underlay address %v, destination host is %v", pc.src, pc.dst, got, wantDeliverAddr(o))
				}
				ls := pathClass(n, pc, w)
				rec02.Case(nontrivialPath(ls), fmt.Sprint(metaSeq(pc.p), pc.raw.PathMeta), ls...)
				rec02.Sample(func() any {
					return map[string]any{"src": pc.src.String(), "dst": pc.dst.String(), "interfaces": metaSeq(pc.p), "seg_len": pc.raw.PathMeta.SegLen, "router_steps": len(w.Steps)}
				})
			}
			if rec07 != nil {
				for i, st := range w.Steps {
					stepDst := pc.dst
					if st.Reply {
						stepDst = pc.src // the router's answer travels back to the source
					}
					if isEpic {
						// compare as the SCION-path packet it contains; the EPIC fields must be untouched
						po := pcOff(st.In)
						if len(st.Out) != len(st.In) || !bytes.Equal(st.In[po:po+16], st.Out[po:po+16]) {
							rt.Fatalf("%s -> %s over %v, step %d at %s router %d: EPIC packet: length %d -> %d, packet id and hop validation fields %x -> %x", pc.src, pc.dst, metaSeq(pc.p), i, st.IA, st.Router,
								len(st.In), len(st.Out), st.In[po:po+16], st.Out[po:min(po+16, len(st.Out))])
						}
						st.In, st.Out = epicAsScion(st.In), epicAsScion(st.Out)
					}
					if err := checkStepBytes(n, st, stepDst); err != nil {
						rt.Fatalf("%s -> %s over %v, step %d at %s router %d: %v", pc.src, pc.dst, metaSeq(pc.p), i, st.IA, st.Router, err)
					}
					v := st.Via
					xover := false
					if len(st.In) > 0 && len(st.Out) > 0 {
						xover = st.In[pcOff(st.In)]>>6 != st.Out[pcOff(st.Out)]>>6
					}
					ls := []string{"step_via_" + v}
					if alert != "" && st.Res.Disposition == router.VerifDispForward && !st.Reply {
						ls = append(ls, "step_forward_with_unconsumed_alert")
					}
					if xover {
						ls = append(ls, "step_segment_change")
					}
					if o.WithHBH || o.WithE2E {
						ls = append(ls, "step_with_extension_header")
					}
					if isEpic {
						ls = append(ls, "step_epic_packet")
					}
					rec07.Case(xover || o.WithHBH || o.WithE2E, fmt.Sprintf("%x", st.In[:min(len(st.In), 120)]), ls...)
				}
				rec07.Sample(func() any {
					return map[string]any{"src": pc.src.String(), "dst": pc.dst.String(), "interfaces": metaSeq(pc.p), "hbh": o.WithHBH, "e2e": o.WithE2E, "payload_len": len(o.Payload), "steps": len(w.Steps)}
				})
			}
		})
		if rec07 != nil {
			c07OneHop(rt, n, rec07)
		}
		if rec02 != nil {
			rec02.Label("topologies")
			rec02.Label(fmt.Sprintf("ases_%d", len(n.Sim.Order)))
		}
	})
}

// epicAsScion removes the 16 bytes of EPIC fields in front of the path and relabels the path type.
func epicAsScion(b []byte) []byte {
	po := pcOff(b)
	out := append(append([]byte{}, b[:po]...), b[po+16:]...)
	out[5] -= 4 // header length in 4-byte units
	out[8] = 1  // path type SCION
	return out
}

func pcOff(raw []byte) int {
	dl := (int(raw[9]>>4&3) + 1) * 4
	sl := (int(raw[9]&3) + 1) * 4
	return 12 + 16 + dl + sl
}

func TestC02(t *testing.T) {
	rec := evid.New("C02", "rapid: topology (1-2 ISDs, 1-2 cores each, <= 5 non-core ASes of depth <= 3 with optional second/parallel parent links, <= 3 peering links, 1-3 border routers per AS with random interface ownership, "+
		"random keys/MTUs/AS numbers) x beacon delivery order; real origination/propagation/registration; every (src, dst) pair and every path the real combinator returns (<= 40 per pair); one generated packet per path "+
		"(hosts, ports, traffic class, flow id, payload, optional HBH/E2E headers) walked through the real routers. Non-trivial: path with >= 2 segments, a shortcut, a peering link or a sibling traversal.")
	defer rec.Flush(t)
	rec.Assume("signature verification is replaced by an accept-all verifier here (C23-C25 cover it)", "links are loss-free; routers' BFD disabled", "beacon policies are the defaults (max 10 entries)")
	rec.Require("segments_1", "segments_2", "segments_3", "peering", "sibling_traversal", "shortcut")
	runC02C07(t, rec, nil)
}

func TestC07(t *testing.T) {
	rec := evid.New("C07", "rapid: the C02 walks; every forwarding step (external, sibling or host ingress) is byte-compared: (i) differing positions must lie in {pointer byte of the path meta header, SegID bytes of the segment current on entry and on exit}; "+
		"length unchanged; (ii) the output must equal an independent reference forwarding step written from the header specification. Non-trivial: step with a segment change or a packet carrying extension headers. A quarter of the paths are sent as EPIC packets (packet id and hop validation fields must stay untouched, the rest is compared as the contained SCION-path packet). "+
		"Also: traceroute requests with a router-alert flag on a drawn hop (routers that do not consume it must leave it untouched) and one-hop-path packets with and without extension headers over every inter-AS link "+
		"(first router: only the SegID changes; second router: only the second hop field is filled in, with the reference MAC).")
	defer rec.Flush(t)
	rec.Assume("reference forwarder (ref.Forward, 70 lines) from doc/protocols/scion-header.rst; one deviation shared by combinator and router: against construction direction the SegID is updated when the packet enters the AS from outside")
	rec.Require("step_via_ext", "step_via_sib", "step_via_host", "step_segment_change", "step_with_extension_header", "step_forward_with_unconsumed_alert", "onehop_first_router", "onehop_second_router", "onehop_with_extension_header", "step_epic_packet")
	runC02C07(t, nil, rec)
}

// c07OneHop sends one-hop-path packets (with and without extension headers) over every inter-AS
// interface and byte-compares both routers' outputs with the reference.
func c07OneHop(rt *rapid.T, n *netsim.Net, rec *evid.Rec) {
	for _, ia := range n.Sim.Order {
		a := n.Sim.ASes[ia]
		for _, ifc := range a.Spec.Ifs {
			key := keyOf(n, ia)
			info := path.InfoField{ConsDir: true, Timestamp: uint32(time.Now().Unix() - 20), SegID: rapid.Uint16().Draw(rt, "ohpSegID")}
			first := path.HopField{ConsEgress: ifc.ID, ExpTime: uint8(rapid.IntRange(10, 255).Draw(rt, "ohpExp"))}
			first.Mac = ref.HopMAC(key, info.SegID, info.Timestamp, first.ExpTime, 0, ifc.ID)
			s := &slayers.SCION{NextHdr: slayers.L4UDP, PathType: onehop.PathType, Path: &onehop.Path{Info: info, FirstHop: first}, SrcIA: ia, DstIA: ifc.Remote,
				FlowID: rapid.Uint32Range(0, 0xfffff).Draw(rt, "ohpFlow"), TrafficClass: rapid.Uint8().Draw(rt, "ohpTC")}
			_ = s.SetSrcAddr(addr.MustParseHost("10.9.9.7"))
			_ = s.SetDstAddr(addr.HostSVC(addr.SvcCS))
			ls := []gopacket.SerializableLayer{s}
			next := &s.NextHdr
			ext := false
			if rapid.Bool().Draw(rt, "ohpHBH") {
				h := &slayers.HopByHopExtn{Options: []*slayers.HopByHopOption{{OptType: 55, OptData: rapid.SliceOfN(rapid.Byte(), 0, 20).Draw(rt, "hbhData")}}}
				*next = slayers.HopByHopClass
				next = &h.NextHdr
				ls = append(ls, h)
				ext = true
			}
			if rapid.Bool().Draw(rt, "ohpE2E") {
				e := &slayers.EndToEndExtn{Options: []*slayers.EndToEndOption{{OptType: 66, OptData: rapid.SliceOfN(rapid.Byte(), 0, 20).Draw(rt, "e2eData")}}}
				*next = slayers.End2EndClass
				next = &e.NextHdr
				ls = append(ls, e)
				ext = true
			}
			*next = slayers.L4UDP
			u := &slayers.UDP{SrcPort: 40001, DstPort: 0}
			u.SetNetworkLayerForChecksum(s)
			ls = append(ls, u, gopacket.Payload(rapid.SliceOfN(rapid.Byte(), 0, 50).Draw(rt, "ohpPayload")))
			buf := gopacket.NewSerializeBuffer()
			if err := gopacket.SerializeLayers(buf, gopacket.SerializeOptions{FixLengths: true, ComputeChecksums: true}, ls...); err != nil {
				rt.Fatalf("serializing the one-hop packet: %v", err)
			}
			raw := append([]byte{}, buf.Bytes()...)
			for _, r := range n.Sim.ASes[ifc.Remote].Routers {
				_ = r.DP.AddSvc(addr.SvcCS, addr.MustParseHost("10.77.0.1"), 30252)
			}
			w := n.Sim.Walk(ia, ifc.ID, &net.UDPAddr{IP: net.IPv4(10, 9, 9, 7), Port: 40001}, raw)
			if !w.Delivered || len(w.Steps) != 2 {
				rt.Fatalf("one-hop packet %s#%d -> %s (extension headers: %v) not delivered in two router steps: %s\n%s", ia, ifc.ID, ifc.Remote, ext, w.Stopped, dumpWalk(w))
			}
			off := 12 + 16 + 4 + 4 // SVC/IPv4 host addresses
			want1 := append([]byte{}, raw...)
			want1[off+2] ^= first.Mac[0]
			want1[off+3] ^= first.Mac[1]
			if !bytes.Equal(w.Steps[0].Out, want1) {
				rt.Fatalf("first router changed more than the segment identifier of a one-hop packet (extension headers: %v)\n in  %x\n out %x\n ref %x", ext, raw, w.Steps[0].Out, want1)
			}
			want2 := append([]byte{}, want1...)
			so := off + 8 + 12
			copy(want2[so:], make([]byte, 12))
			want2[so+1] = first.ExpTime
			want2[so+2], want2[so+3] = byte(ifc.RemoteID>>8), byte(ifc.RemoteID)
			segIn := info.SegID ^ (uint16(first.Mac[0])<<8 | uint16(first.Mac[1]))
			m2 := ref.HopMAC(keyOf(n, ifc.Remote), segIn, info.Timestamp, first.ExpTime, ifc.RemoteID, 0)
			copy(want2[so+6:], m2[:])
			if !bytes.Equal(w.Steps[1].Out, want2) {
				rt.Fatalf("second router's completion of a one-hop path differs from the reference (extension headers: %v)\n in  %x\n out %x\n ref %x", ext, want1, w.Steps[1].Out, want2)
			}
			labels := []string{"onehop_first_router", "onehop_second_router"}
			if ext {
				labels = append(labels, "onehop_with_extension_header")
			}
			rec.Case(ext, fmt.Sprintf("ohp%x", raw), labels...)
		}
	}
}
