package rtr

import (
	"bytes"
	"encoding/binary"
	"fmt"
	"testing"
	"time"

	"github.com/gopacket/gopacket"
	"pgregory.net/rapid"

	"github.com/scionproto/scion/pkg/addr"
	"github.com/scionproto/scion/pkg/slayers"
	"github.com/scionproto/scion/pkg/slayers/path/epic"
	"github.com/scionproto/scion/pkg/slayers/path/scion"
	"github.com/scionproto/scion/router"

	"verif/internal/evid"
	"verif/internal/ref"
)

// ---------------------------------------------------------------------------------------------
// C13 — EPIC packets need fresh timestamps and valid hop validation fields.
// The C01 forge's packets are wrapped in an EPIC header whose hop validation fields come from the
// REFERENCE EPIC MAC (AES-CBC-MAC keyed with the reference full hop MAC). The virtual clock is placed
// around the freshness bounds; single changes are applied to every MAC input. At the penultimate and
// last hop: accept only if fresh and the relevant field matches; elsewhere: identical to the embedded
// SCION path processed as SCION (differential run of the same packet re-typed).
// ---------------------------------------------------------------------------------------------

const epicRes = 21 * time.Microsecond

type epicPkt struct {
	raw     []byte
	pathOff int
}

// buildEPIC serializes k as an EPIC packet sent at sendTime (packet timestamp relative to the first
// info field), with reference hop validation fields.
func buildEPIC(k *forgeCase, l *lab, pktTS, counter uint32) (*epicPkt, error) {
	sc, err := k.scionLayer()
	if err != nil {
		return nil, err
	}
	dec := sc.Path.(*scion.Decoded)
	rawPath, err := dec.ToRaw()
	if err != nil {
		return nil, err
	}
	ep := &epic.Path{PktID: epic.PktID{Timestamp: pktTS, Counter: counter}, PHVF: make([]byte, 4), LHVF: make([]byte, 4), ScionPath: rawPath}
	sc.Path, sc.PathType = ep, epic.PathType
	udp := &slayers.UDP{SrcPort: k.opts.sport, DstPort: k.opts.dport}
	udp.SetNetworkLayerForChecksum(sc)
	buf := gopacket.NewSerializeBuffer()
	if err := gopacket.SerializeLayers(buf, gopacket.SerializeOptions{FixLengths: true, ComputeChecksums: true}, sc, udp, gopacket.Payload(k.opts.payload)); err != nil {
		return nil, err
	}
	raw := append([]byte{}, buf.Bytes()...)
	e := &epicPkt{raw: raw, pathOff: 12 + 16 + k.addrLen()}
	e.fixHVFs(k, l)
	return e, nil
}

// fixHVFs recomputes the hop validation field this router checks (and a plausible other one) from
// the bytes currently in the packet.
func (e *epicPkt) fixHVFs(k *forgeCase, l *lab) {
	raw := e.raw
	total := k.total()
	ts0 := k.infos[0].Timestamp
	dl := (int(raw[9]>>4&3) + 1) * 4
	sl := (int(raw[9]&3) + 1) * 4
	srcIA := binary.BigEndian.Uint64(raw[20:28])
	srcAddr := raw[28+dl : 28+dl+sl]
	plen := binary.BigEndian.Uint16(raw[6:8])
	pktTS, ctr := binary.BigEndian.Uint32(raw[e.pathOff:]), binary.BigEndian.Uint32(raw[e.pathOff+4:])
	hvf := func(h int, beta uint16) [4]byte {
		hf := k.hops[h]
		full := ref.FullHopMAC(l.key, beta, k.infos[k.segOf(h)].Timestamp, hf.ExpTime, hf.ConsIngress, hf.ConsEgress)
		return ref.EpicHVF(full, raw[9]&3, ts0, pktTS, ctr, srcIA, srcAddr, plen)
	}
	// the validated hop of this AS is the one whose accumulator value the forge knows
	switch {
	case k.h == total-2:
		b := k.beta
		v := hvf(k.h, b)
		copy(raw[e.pathOff+8:], v[:])
	case k.h == total-1:
		v := hvf(k.h, k.beta)
		copy(raw[e.pathOff+12:], v[:])
	}
}

func TestC13(t *testing.T) {
	rec := evid.New("C13", "rapid: EPIC packets from the C01 forge at every position (reference hop validation fields), packet timestamp and virtual clock around the freshness bounds "+
		"(age 0, 2.9 s, 3 s -/+ 1 ms, 4 s; sender clock ahead by 0.9 s, 1.1 s, 2 s; extreme packet-timestamp values), single changes of PHVF/LHVF, packet-id timestamp/counter, SrcIA, source host (value and length class), payload length. "+
		"Oracle: reference EPIC MAC and freshness window; at other positions the result must equal the embedded SCION path processed as SCION. Non-trivial: penultimate/last hop with a boundary clock or a changed MAC input.")
	defer rec.Flush(t)
	rec.Assume("reference EPIC MAC = AES-CBC-MAC over the documented input keyed with the reference full hop MAC (internal/ref)", "freshness: sender time = path timestamp + (packet timestamp + 1) * 21 us; accepted while sender time - 1 s <= now <= sender time + 3 s; bounds themselves not asserted",
		"4-byte HVF collisions (2^-32) ignored")
	rec.Require("pos_penultimate", "pos_last", "pos_other", "fresh_accepted", "stale_rejected", "future_rejected", "hvf_changed_rejected", "pktid_changed_rejected", "src_changed_rejected", "payloadlen_changed_rejected", "extreme_timestamp_rejected", "multi_segment_last_hop")
	rapid.Check(t, func(rt *rapid.T) {
		var fail string
		var labels []string
		var canon string
		nt := false
		bubble(t, func() {
			time.Sleep(30 * 365 * 24 * time.Hour)
			l := newLab(func(f string, a ...any) { fail = fmt.Sprintf(f, a...) }, labCfg{master: rapid.SliceOfN(rapid.Byte(), 16, 16).Draw(rt, "masterKey")})
			if fail != "" {
				return
			}
			k := genForge(rt, l, time.Now())
			k.opts.hbh, k.opts.e2e = false, false
			if rapid.Bool().Draw(rt, "v6src") {
				k.opts.srcHost = addr.MustParseHost("2001:db8::1:1")
			}
			total := k.total()
			pos := "other"
			if k.h == total-2 {
				pos = "penultimate"
			} else if k.h == total-1 {
				pos = "last"
			}
			labels = append(labels, "pos_"+pos)
			now := time.Now()
			ts0 := time.Unix(int64(k.infos[0].Timestamp), 0)
			// sender clock: possibly ahead of this router's clock
			ahead := rapid.SampledFrom([]time.Duration{0, 0, 0, 900 * time.Millisecond, 1100 * time.Millisecond, 2 * time.Second}).Draw(rt, "senderAhead")
			sendTime := now.Add(ahead)
			pktTS := uint32(sendTime.Sub(ts0)/epicRes) - 1
			extreme := false
			if rapid.IntRange(0, 9).Draw(rt, "extremeTS") == 0 {
				pktTS = rapid.SampledFrom([]uint32{0xffffffff, 0xfffffffe, 0x80000000}).Draw(rt, "extreme")
				extreme = true
			}
			counter := rapid.Uint32().Draw(rt, "counter")
			e, err := buildEPIC(k, l, pktTS, counter)
			if err != nil {
				fail = "harness: " + err.Error()
				return
			}
			senderTime := ts0.Add(time.Duration(int64(pktTS)+1) * epicRes)
			// age of the packet when it reaches this router
			delay := rapid.SampledFrom([]time.Duration{0, 0, 2900 * time.Millisecond, 2999 * time.Millisecond, 3001 * time.Millisecond, 4 * time.Second}).Draw(rt, "delay")
			// single change
			change := rapid.SampledFrom([]string{"none", "none", "none", "hvf", "pktid_ts", "pktid_counter", "srcia", "srchost", "srchost_len", "payloadlen"}).Draw(rt, "change")
			raw := e.raw
			switch change {
			case "hvf":
				off := e.pathOff + 8
				if pos == "last" {
					off += 4
				}
				raw[off+rapid.IntRange(0, 3).Draw(rt, "hvfByte")] ^= 1 << rapid.IntRange(0, 7).Draw(rt, "hvfBit")
			case "pktid_ts":
				// keep freshness: change by one tick only
				binary.BigEndian.PutUint32(raw[e.pathOff:], pktTS^1)
			case "pktid_counter":
				binary.BigEndian.PutUint32(raw[e.pathOff+4:], counter^(1<<rapid.IntRange(0, 31).Draw(rt, "ctrBit")))
			case "srcia":
				if k.arrival == "host" {
					change = "none" // the source must stay local for a first-hop packet
				} else {
					binary.BigEndian.PutUint64(raw[20:], uint64(labNeighbor(uint16(902+rapid.IntRange(0, 5).Draw(rt, "otherSrc")))))
				}
			case "srchost":
				dl := (int(raw[9]>>4&3) + 1) * 4
				raw[28+dl+rapid.IntRange(0, 3).Draw(rt, "hostByte")] ^= 1 << rapid.IntRange(0, 6).Draw(rt, "hostBit")
			case "srchost_len":
				// same leading bytes, other length class: rebuild the packet with the other address family and
				// keep the hop validation field computed for the original source
				orig := append([]byte{}, raw[e.pathOff+8:e.pathOff+16]...)
				if k.opts.srcHost.IP().Is4() {
					k.opts.srcHost = addr.MustParseHost("a01:101::")
				} else {
					k.opts.srcHost = addr.MustParseHost("32.1.13.184")
				}
				e2, err := buildEPIC(k, l, pktTS, counter)
				if err != nil {
					fail = "harness: " + err.Error()
					return
				}
				copy(e2.raw[e2.pathOff+8:], orig)
				e, raw = e2, e2.raw
			case "payloadlen":
				raw = append(raw, 0x55)
				binary.BigEndian.PutUint16(raw[6:], binary.BigEndian.Uint16(raw[6:])+1)
				// keep the UDP length consistent
				hl := int(raw[5]) * 4
				binary.BigEndian.PutUint16(raw[hl+4:], binary.BigEndian.Uint16(raw[hl+4:])+1)
			}
			time.Sleep(delay)
			nowR := time.Now()
			fresh := !nowR.After(senderTime.Add(3*time.Second)) && !senderTime.After(nowR.Add(time.Second))
			r := l.inject(k, raw)
			forwarded := r.res.Disposition == router.VerifDispForward
			desc := fmt.Sprintf("%v | pos=%s pktTS=%#x senderAhead=%v delay=%v change=%s", k, pos, pktTS, ahead, delay, change)
			canon = fmt.Sprintf("%x|%v|%v|%s", raw[:min(len(raw), 140)], ahead, delay, change)
			if pos == "other" {
				// differential: the embedded SCION path processed as SCION
				sraw, err := k.serialize()
				if err != nil {
					fail = "harness: " + err.Error()
					return
				}
				_ = sraw
				k2 := *k
				rs := l.inject(&k2, retypeAsSCION(raw, e.pathOff))
				if (rs.res.Disposition == router.VerifDispForward) != forwarded || rs.res.Egress != r.res.Egress {
					fail = fmt.Sprintf("EPIC packet away from the last two hops handled differently from its embedded SCION path: EPIC disposition %d egress %d, SCION disposition %d egress %d: %s",
						r.res.Disposition, r.res.Egress, rs.res.Disposition, rs.res.Egress, desc)
					return
				}
				if forwarded {
					ep := r.out[e.pathOff+16 : int(r.out[5])*4]
					sp := rs.out[e.pathOff : int(rs.out[5])*4]
					if !bytes.Equal(ep, sp) {
						fail = fmt.Sprintf("EPIC packet's embedded path after forwarding differs from the SCION processing: %s\n epic  %x\n scion %x", desc, ep, sp)
						return
					}
				}
				if !forwarded && change == "none" && !extreme {
					fail = fmt.Sprintf("valid EPIC packet away from the last two hops not forwarded (disposition %d SCMP code %d): %s", r.res.Disposition, r.res.SPCode, desc)
					return
				}
				return
			}
			if k.segOf(k.h) > 0 && pos == "last" {
				labels = append(labels, "multi_segment_last_hop")
			}
			mustReject := !fresh || (change != "none")
			if mustReject && forwarded {
				why := "its packet timestamp is outside the freshness window"
				if change != "none" {
					why = "a MAC input (" + change + ") was changed after the hop validation field was computed"
				}
				fail = fmt.Sprintf("EPIC packet accepted at its %s hop although %s (sender time %v, router time %v): %s", pos, why, senderTime.Sub(now), nowR.Sub(now), desc)
				return
			}
			if !mustReject && !forwarded {
				fail = fmt.Sprintf("fresh EPIC packet with valid hop validation fields rejected at its %s hop (disposition %d, SCMP code %d; sender time %v, router time %v): %s", pos, r.res.Disposition, r.res.SPCode, senderTime.Sub(now), nowR.Sub(now), desc)
				return
			}
			switch {
			case !mustReject:
				labels = append(labels, "fresh_accepted")
			case extreme:
				labels = append(labels, "extreme_timestamp_rejected")
			case !fresh && nowR.After(senderTime):
				labels = append(labels, "stale_rejected")
			case !fresh:
				labels = append(labels, "future_rejected")
			}
			switch change {
			case "hvf":
				labels = append(labels, "hvf_changed_rejected")
			case "pktid_ts", "pktid_counter":
				labels = append(labels, "pktid_changed_rejected")
			case "srcia", "srchost", "srchost_len":
				labels = append(labels, "src_changed_rejected")
			case "payloadlen":
				labels = append(labels, "payloadlen_changed_rejected")
			}
			nt = delay > 0 || ahead > 0 || change != "none" || extreme
			rec.Sample(func() any {
				return map[string]any{"case": k.String(), "position": pos, "pkt_timestamp": pktTS, "sender_ahead": ahead.String(), "delay": delay.String(), "change": change, "forwarded": forwarded}
			})
		})
		if fail != "" {
			rt.Fatalf("%s", fail)
		}
		rec.Case(nt, canon, labels...)
	})
}

// retypeAsSCION removes the 16-byte EPIC header in front of the embedded SCION path.
func retypeAsSCION(raw []byte, pathOff int) []byte {
	out := append([]byte{}, raw[:pathOff]...)
	out = append(out, raw[pathOff+16:]...)
	out[8] = 1
	out[5] -= 4
	return out
}
