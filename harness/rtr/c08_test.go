package rtr

import (
	"encoding/binary"
	"fmt"
	"hash/crc32"
	"net"
	"os"
	"path/filepath"
	"sync"
	"testing"
	"time"

	"github.com/gopacket/gopacket"
	"pgregory.net/rapid"

	"github.com/scionproto/scion/pkg/addr"
	"github.com/scionproto/scion/pkg/slayers"
	"github.com/scionproto/scion/pkg/slayers/path"
	"github.com/scionproto/scion/router"
	"github.com/scionproto/scion/router/underlayproviders/udpip"

	"verif/internal/evid"
	"verif/internal/ref"
)

// ---------------------------------------------------------------------------------------------
// C08 — router packet processing never crashes and never forwards malformed packets.
// Any byte string is handed to the real fast path on an external, sibling or internal link (on the
// internal link first to the link's own STUN processing), with and without SCMP authentication; a
// slow-path request is executed by the real slow path. Oracle inside the target: no panic; whatever is
// forwarded, delivered or emitted decodes as a SCION packet with HdrLen*4 <= length, PayloadLen ==
// length - HdrLen*4, and, for SCION/EPIC paths, CurrHF < number of hops and CurrINF = segment of
// CurrHF. Inputs: structured mutants of valid forged packets (rapid, both tiers) and native
// coverage-guided fuzzing (thorough tier).
// ---------------------------------------------------------------------------------------------

var (
	c08Once sync.Once
	c08Labs [2]*lab
)

func c08Lab(auth bool) *lab {
	c08Once.Do(func() {
		for i, a := range []bool{false, true} {
			c08Labs[i] = newLab(func(f string, x ...any) { panic(fmt.Sprintf(f, x...)) }, labCfg{master: []byte("0123456789abcdef"), authSCMP: a, svc: true})
		}
	})
	if auth {
		return c08Labs[1]
	}
	return c08Labs[0]
}

var c08Links = []uint16{0, 11, 21, 31, 41, 51, 13, 14}

// routeBytes is the fuzz oracle. stats (optional) receives classification labels.
func routeBytes(data []byte, linkSel uint8, auth bool, stats func(string)) (msg string) {
	if stats == nil {
		stats = func(string) {}
	}
	defer func() {
		if r := recover(); r != nil {
			msg = fmt.Sprintf("panic while processing %d bytes on link %d (auth=%v): %v", len(data), c08Links[int(linkSel)%len(c08Links)], auth, r)
		}
	}()
	l := c08Lab(auth)
	ifID := c08Links[int(linkSel)%len(c08Links)]
	link := l.dp.Interface(ifID)
	var remote *net.UDPAddr
	if ifID == 0 {
		remote = &net.UDPAddr{IP: net.IPv4(10, 0, 0, 77), Port: 5555}
		pkt := l.dp.NewPacket(data, link, remote)
		if err := udpip.VerifInternalProcessPacket(link, pkt); err == nil {
			stats("stun_path_ok")
		}
		_, _ = udpip.VerifComputeProcID(data, 4, 0x1234)
	}
	pkt := l.dp.NewPacket(data, link, remote)
	res := l.dp.NewFastPath().Process(pkt)
	check := func(what string, out []byte) string {
		var d slayers.SCION
		if err := d.DecodeFromBytes(out, gopacket.NilDecodeFeedback); err != nil {
			return fmt.Sprintf("%s packet does not decode as SCION: %v", what, err)
		}
		if int(d.HdrLen)*4 > len(out) {
			return fmt.Sprintf("%s packet: header length %d exceeds %d bytes", what, int(d.HdrLen)*4, len(out))
		}
		if int(d.PayloadLen) != len(out)-int(d.HdrLen)*4 {
			return fmt.Sprintf("%s packet: PayloadLen %d, actual payload %d", what, d.PayloadLen, len(out)-int(d.HdrLen)*4)
		}
		if out[8] == 1 || out[8] == 3 {
			v, err := ref.ParsePath(out)
			if err != nil {
				return fmt.Sprintf("%s packet: path inconsistent with header: %v", what, err)
			}
			if v.PathOff+4+8*v.NumINF+12*v.NumHops != v.HdrLen {
				return fmt.Sprintf("%s packet: path of %d info and %d hop fields does not fill the header (HdrLen %d)", what, v.NumINF, v.NumHops, v.HdrLen)
			}
			if v.CurrHF >= v.NumHops || v.CurrINF != v.SegOf(v.CurrHF) {
				return fmt.Sprintf("%s packet: pointers CurrINF=%d CurrHF=%d inconsistent with SegLen %v", what, v.CurrINF, v.CurrHF, v.SegLen)
			}
		}
		return ""
	}
	switch res.Disposition {
	case router.VerifDispSlowPath:
		stats("slow_path")
		if err := l.dp.NewSlowPath().Process(pkt); err != nil {
			stats("slow_path_no_answer")
			return ""
		}
		stats("scmp_emitted")
		return check("emitted", pkt.RawPacket)
	case router.VerifDispForward:
		if res.Egress == 0 {
			stats("delivered")
			if pkt.VerifRemote() == nil {
				return "packet delivered locally without an underlay destination"
			}
		} else {
			stats("forwarded")
			if l.dp.Interface(res.Egress) == nil {
				return fmt.Sprintf("packet forwarded to unknown interface %d", res.Egress)
			}
		}
		return check("forwarded", pkt.RawPacket)
	case router.VerifDispDone:
		stats("consumed")
	default:
		stats("discarded")
	}
	return ""
}

func c08Mutate(rt *rapid.T, raw []byte) ([]byte, string) {
	b := append([]byte{}, raw...)
	kind := rapid.SampledFrom([]string{"none", "bitflips", "hdrlen", "payloadlen", "meta", "addrtype", "nexthdr", "truncate", "extend", "pathtype", "field", "nested_scmp", "stun", "svc_dst"}).Draw(rt, "mutation")
	interesting := []byte{0, 1, 2, 3, 4, 7, 8, 9, 15, 16, 17, 31, 32, 63, 64, 65, 127, 128, 200, 201, 202, 203, 254, 255}
	hdr := min(int(b[5])*4, len(b))
	switch kind {
	case "bitflips":
		for i := rapid.IntRange(1, 4).Draw(rt, "nflips"); i > 0; i-- {
			j := rapid.IntRange(0, min(len(b), hdr+32)-1).Draw(rt, "idx")
			b[j] ^= 1 << rapid.IntRange(0, 7).Draw(rt, "bit")
		}
	case "hdrlen":
		b[5] = rapid.SampledFrom(interesting).Draw(rt, "hl")
		if rapid.Bool().Draw(rt, "near") {
			b[5] = byte(int(raw[5]) + rapid.IntRange(-3, 3).Draw(rt, "d"))
		}
	case "payloadlen":
		binary.BigEndian.PutUint16(b[6:], uint16(rapid.SampledFrom([]int{0, 1, len(b), len(b) - hdr, len(b) - hdr + 1, len(b) - hdr - 1, 65535}).Draw(rt, "pl")&0xffff))
	case "meta":
		off := pcOff(b)
		if b[8] == 3 {
			off += 16
		}
		if off+4 <= len(b) {
			sl := []int{0, 1, 2, 3, 31, 32, 62, 63}
			line := uint32(rapid.IntRange(0, 3).Draw(rt, "ci"))<<30 | uint32(rapid.IntRange(0, 63).Draw(rt, "ch"))<<24 |
				uint32(rapid.SampledFrom(sl).Draw(rt, "s0"))<<12 | uint32(rapid.SampledFrom(sl).Draw(rt, "s1"))<<6 | uint32(rapid.SampledFrom(sl).Draw(rt, "s2"))
			if rapid.Bool().Draw(rt, "keepLens") {
				old := binary.BigEndian.Uint32(b[off:])
				line = line&0xff000000 | old&0x00ffffff
			}
			binary.BigEndian.PutUint32(b[off:], line)
		}
	case "addrtype":
		b[9] = rapid.Byte().Draw(rt, "dtst")
	case "svc_dst":
		// destination becomes a service address: registered (CS), registered and removed again (DS),
		// their multicast forms, unknown ones; the destination ISD-AS is the local one half of the time
		if len(b) >= 36 && b[9]>>4&3 == 0 {
			b[9] = b[9]&0x0f | 0x40
			svc := rapid.SampledFrom([]uint16{1, 2, 0x8001, 0x8002, 3, 0xffff}).Draw(rt, "svc")
			b[28], b[29], b[30], b[31] = byte(svc>>8), byte(svc), 0, 0
			if rapid.Bool().Draw(rt, "svcLocalAS") {
				binary.BigEndian.PutUint64(b[12:], uint64(labLocal))
			}
		}
	case "nexthdr":
		b[4] = rapid.SampledFrom(interesting).Draw(rt, "nh")
	case "truncate":
		b = b[:rapid.IntRange(0, len(b)).Draw(rt, "cut")]
	case "extend":
		b = append(b, rapid.SliceOfN(rapid.Byte(), 1, 64).Draw(rt, "tail")...)
	case "pathtype":
		b[8] = rapid.SampledFrom([]byte{0, 1, 2, 3, 4, 255}).Draw(rt, "pt")
	case "field":
		j := rapid.IntRange(0, min(len(b), hdr+24)-1).Draw(rt, "idx")
		b[j] = rapid.SampledFrom(interesting).Draw(rt, "val")
	case "nested_scmp":
		// make the payload an SCMP error quoting (a prefix of) the packet itself
		if hdr <= len(b) {
			q := b[:rapid.IntRange(0, len(b)).Draw(rt, "quoteLen")]
			scmp := []byte{byte(rapid.SampledFrom([]int{1, 2, 4, 5, 6, 128, 129, 130, 131, 77}).Draw(rt, "scmpType")), byte(rapid.IntRange(0, 70).Draw(rt, "scmpCode")), 0, 0}
			scmp = append(scmp, make([]byte, rapid.SampledFrom([]int{0, 4, 16, 24}).Draw(rt, "scmpBody"))...)
			nb := append(append([]byte{}, b[:hdr]...), scmp...)
			nb = append(nb, q...)
			nb[4] = 202
			binary.BigEndian.PutUint16(nb[6:], uint16(len(nb)-hdr))
			b = nb
		}
	case "stun":
		// structured STUN message: 20-byte header, 0-4 attributes with small lengths, padding
		// present, partial or missing, message length consistent or not, optional valid fingerprint
		typ := rapid.SampledFrom([][]byte{{0, 1}, {0, 1}, {1, 1}, {0x3f, 0xff}}).Draw(rt, "stunType")
		msg := append([]byte{typ[0], typ[1], 0, 0, 0x21, 0x12, 0xa4, 0x42}, rapid.SliceOfN(rapid.Byte(), 12, 12).Draw(rt, "txid")...)
		kind = "stun"
		for i := rapid.IntRange(0, 4).Draw(rt, "stunAttrs"); i > 0; i-- {
			at := rapid.SampledFrom([]uint16{0x8028, 0x0001, 0x0020, 0x8020, 0x8022, 0x0006}).Draw(rt, "attrType")
			al := rapid.IntRange(0, 13).Draw(rt, "attrLen")
			msg = append(msg, byte(at>>8), byte(at), 0, byte(al))
			msg = append(msg, rapid.SliceOfN(rapid.Byte(), al, al).Draw(rt, "attrVal")...)
			pad := (4 - al%4) % 4
			switch rapid.IntRange(0, 3).Draw(rt, "padding") {
			case 0:
				pad = 0
			case 1:
				pad = rapid.IntRange(0, pad).Draw(rt, "partialPad")
			}
			if pad != (4-al%4)%4 {
				kind = "stun_unpadded"
			}
			msg = append(msg, make([]byte, pad)...)
		}
		if rapid.Bool().Draw(rt, "fingerprint") {
			binary.BigEndian.PutUint16(msg[2:], uint16(len(msg)-20+8))
			fp := crc32.ChecksumIEEE(msg) ^ 0x5354554e
			msg = append(msg, 0x80, 0x28, 0, 4, byte(fp>>24), byte(fp>>16), byte(fp>>8), byte(fp))
		} else if rapid.Bool().Draw(rt, "consistentLen") {
			binary.BigEndian.PutUint16(msg[2:], uint16(len(msg)-20))
		} else {
			binary.BigEndian.PutUint16(msg[2:], uint16(rapid.IntRange(0, 80).Draw(rt, "stunLen")))
		}
		b = msg
	}
	return b, kind
}

// TestC08RegressEgressZero: a packet for another AS whose current (authentic) hop field names the
// internal interface as egress used to be handed to the internal link without an underlay destination
// when it came from a sibling link (send loop dereferences a nil address). Fixed in the router.
func TestC08RegressEgressZero(t *testing.T) {
	l := c08Lab(false)
	now := uint32(time.Now().Unix())
	for _, consdir := range []bool{true, false} {
		// the sibling that owns interface 13 has crossed over from segment 0 (entered through 13);
		// the first hop field of segment 1, validated here, names interface 0 as egress
		k := &forgeCase{lens: []int{2, 3}, consdir: []bool{false, consdir}, infos: []path.InfoField{{SegID: 9, Timestamp: now - 5}, {ConsDir: consdir, SegID: 7, Timestamp: now - 5}},
			srcIA: labNeighbor(900), dstIA: labNeighbor(901), arrival: "sib", h: 2, vHop: 2}
		for i := 0; i < 5; i++ {
			k.hops = append(k.hops, path.HopField{ExpTime: 63, ConsIngress: 100, ConsEgress: 100})
		}
		setSides(&k.hops[1], false, 13, 0)
		setSides(&k.hops[2], consdir, 31, 0)
		k.remac(l.key, 0x1234, 0)
		k.opts = forgeOpts{srcHost: addr.MustParseHost("10.1.1.1"), dstHost: addr.MustParseHost("10.2.2.2"), sport: 40001, dport: 40002, l4: "udp"}
		raw, err := k.serialize()
		if err != nil {
			t.Fatal(err)
		}
		for link := range c08Links {
			var st []string
			if msg := routeBytes(raw, uint8(link), false, func(s string) { st = append(st, s) }); msg != "" {
				f := filepath.Join(os.Getenv("VERIF_REPLAY_DIR"), fmt.Sprintf("C08-egress-zero-%v-%d.txt", consdir, c08Links[link]))
				_ = os.WriteFile(f, []byte(fmt.Sprintf("link %d consdir %v input %x\n%s\n", c08Links[link], consdir, raw, msg)), 0o644)
				fmt.Printf("VERIF-REPLAY-FILE: %s\n", f)
				t.Fatalf("link %d: %s (%v)", c08Links[link], msg, st)
			}
			t.Logf("link %d consdir %v: %v", c08Links[link], consdir, st)
		}
	}
}

func TestC08(t *testing.T) {
	rec := evid.New("C08", "rapid: structured mutants (bit flips, HdrLen, PayloadLen, meta header incl. SegLen sums > 64, address types, next-header chain, truncation, extension, path type, field constants, nested/truncated SCMP quotes, STUN binding requests) "+
		"of valid forged SCION / EPIC / one-hop packets, injected on an external link of every type, a sibling link or the internal link (there first through the link's STUN handling), SCMP authentication on/off; "+
		"thorough tier adds native coverage-guided fuzzing of the same target. Oracle in the target: no panic; every forwarded/delivered/emitted packet decodes with consistent HdrLen, PayloadLen and path pointers. "+
		"Non-trivial: input that passes header decoding (reaches a forward, deliver or slow-path decision).")
	defer rec.Flush(t)
	rec.Assume("processor objects are created per input (no state leaks between inputs)", "inputs up to the 9000-byte router buffer")
	rec.Require("forwarded", "delivered", "scmp_emitted", "discarded", "slow_path_no_answer", "mut_meta", "mut_hdrlen", "mut_nested_scmp", "mut_stun", "link_internal", "link_sibling", "kind_epic", "kind_onehop", "auth_on", "valid_mac_odd_interface", "path_30_plus_hops", "mut_stun_unpadded", "mut_svc_dst")
	rapid.Check(t, func(rt *rapid.T) {
		auth := rapid.Bool().Draw(rt, "auth")
		l := c08Lab(auth)
		k := genForge(rt, l, time.Now())
		var raw []byte
		var err error
		kind := rapid.SampledFrom([]string{"scion", "scion", "epic", "onehop"}).Draw(rt, "pathKind")
		// authentic hop field with a nonsensical interface: the validated hop names interface 0 (or an
		// unknown one) on one side and still carries a valid MAC - what a host can build from the last
		// hop field of any segment that ends in this AS.
		// long paths: header lengths up to the maximum (64 hop fields) move the SCMP reply
		// construction (quote truncation, headroom for the reversed path and the authenticator)
		// through all its branches
		longPath := ""
		if rapid.IntRange(0, 3).Draw(rt, "longPath") == 0 {
			last := len(k.lens) - 1
			room := min(63-k.lens[last], 64-k.total())
			if room > 0 {
				extra := rapid.IntRange(1, room).Draw(rt, "extraHops")
				for i := 0; i < extra; i++ {
					k.hops = append(k.hops, path.HopField{ExpTime: 63, ConsIngress: uint16(600 + i), ConsEgress: uint16(700 + i)})
				}
				k.lens[last] += extra
				longPath = "long_path"
				if k.total() >= 30 {
					longPath = "path_30_plus_hops"
				}
			}
		}
		oddIf := ""
		if rapid.IntRange(0, 5).Draw(rt, "oddInterface") == 0 {
			hf := &k.hops[k.vHop]
			v := rapid.SampledFrom([]uint16{0, 0, 999}).Draw(rt, "oddValue")
			if rapid.Bool().Draw(rt, "oddSide") {
				hf.ConsEgress = v
			} else {
				hf.ConsIngress = v
			}
			k.remac(l.key, k.beta, k.beta2)
			oddIf = "valid_mac_odd_interface"
		}
		switch kind {
		case "epic":
			k.opts.hbh, k.opts.e2e = false, false
			var e *epicPkt
			e, err = buildEPIC(k, l, uint32(time.Since(time.Unix(int64(k.infos[0].Timestamp), 0))/epicRes), 7)
			if err == nil {
				raw = e.raw
			}
		case "onehop":
			raw, err = ohpPacket(labLocal, labNeighbor(11), k.opts.dstHost, ohpFor(l, 11), 40001)
		default:
			raw, err = k.serialize()
		}
		if err != nil {
			rt.Fatalf("harness: %v", err)
		}
		mut, mk := c08Mutate(rt, raw)
		linkSel := uint8(rapid.IntRange(0, len(c08Links)-1).Draw(rt, "link"))
		if mk == "none" || rapid.Bool().Draw(rt, "naturalLink") {
			// the link the packet was forged for
			want := k.inIf
			if kind == "onehop" {
				want = 0
			}
			for i, id := range c08Links {
				if id == want {
					linkSel = uint8(i)
				}
			}
		}
		if (mk == "stun" || mk == "stun_unpadded") && rapid.IntRange(0, 3).Draw(rt, "stunElsewhere") != 0 {
			linkSel = 0 // STUN is served on the internal link
		}
		labels := []string{"mut_" + mk, "kind_" + kind}
		if oddIf != "" {
			labels = append(labels, oddIf)
		}
		if longPath != "" {
			labels = append(labels, longPath)
		}
		if auth {
			labels = append(labels, "auth_on")
		}
		switch c08Links[linkSel] {
		case 0:
			labels = append(labels, "link_internal")
		case 13, 14:
			labels = append(labels, "link_sibling")
		}
		decided := false
		msg := routeBytes(mut, linkSel, auth, func(s string) {
			labels = append(labels, s)
			if s == "forwarded" || s == "delivered" || s == "slow_path" {
				decided = true
			}
		})
		if msg != "" {
			rt.Fatalf("%s\nmutation %s of a %s packet; input %x", msg, mk, kind, mut)
		}
		rec.Case(decided, fmt.Sprintf("%x|%d|%v", mut[:min(len(mut), 200)], linkSel, auth), labels...)
		rec.Sample(func() any {
			return map[string]any{"path_kind": kind, "mutation": mk, "link": c08Links[linkSel], "auth": auth, "input_len": len(mut), "outcome": labels[len(labels)-1]}
		})
	})
}

func FuzzC08(f *testing.F) {
	l := c08Lab(false)
	for i := 0; i < 60; i++ {
		g := rapid.Custom(func(rt *rapid.T) []byte {
			k := genForge(rt, l, time.Now())
			raw, err := k.serialize()
			if err != nil {
				return nil
			}
			m, _ := c08Mutate(rt, raw)
			return m
		})
		if b := g.Example(i); b != nil {
			f.Add(b, uint8(i), i%2 == 0)
		}
	}
	f.Add([]byte{0x00, 0x01, 0x00, 0x00, 0x21, 0x12, 0xa4, 0x42, 1, 2, 3, 4, 5, 6, 7, 8, 9, 10, 11, 12}, uint8(0), false)
	f.Add([]byte{0, 0, 0, 1, 17, 0xff, 0xff, 0xff, 1, 0xff, 0, 0}, uint8(1), true)
	f.Fuzz(func(t *testing.T, data []byte, linkSel uint8, auth bool) {
		if len(data) > 8900 {
			return
		}
		if msg := routeBytes(data, linkSel, auth, nil); msg != "" {
			t.Fatalf("%s\ninput %x", msg, data)
		}
	})
}
