package rtr

import (
	"encoding/binary"
	"fmt"
	"net"
	"net/netip"
	"testing"
	"testing/synctest"
	"time"

	"github.com/gopacket/gopacket"
	"pgregory.net/rapid"

	"github.com/scionproto/scion/pkg/addr"
	"github.com/scionproto/scion/pkg/private/ptr"
	"github.com/scionproto/scion/pkg/slayers"
	"github.com/scionproto/scion/pkg/slayers/path"
	"github.com/scionproto/scion/pkg/slayers/path/scion"
	"github.com/scionproto/scion/private/topology"
	"github.com/scionproto/scion/private/underlay/conn"
	"github.com/scionproto/scion/router"
	"github.com/scionproto/scion/router/bfd"
	"github.com/scionproto/scion/router/control"
	_ "github.com/scionproto/scion/router/underlayproviders/udpip"

	"verif/internal/ref"
)

// ---------------------------------------------------------------------------------------------
// Single-AS router lab: one real border router under test (R1) in an AS that also has a sibling
// router R2. R1 owns two external interfaces of every link type (and one of unset type); R2 owns one
// of every type, reachable from R1 over sibling links. Packets are forged with MACs from the
// REFERENCE hop MAC (internal/ref), so that a router whose MAC computation deviated from the
// specification would reject the forge's valid packets.
// ---------------------------------------------------------------------------------------------

type nullConn struct{}

func (nullConn) ReadBatch(conn.Messages) (int, error)           { select {} }
func (nullConn) WriteBatch(m conn.Messages, f int) (int, error) { return len(m), nil }
func (nullConn) Close() error                                   { return nil }

type recOpener struct{ opened *[]openRec }

type openRec struct {
	local, remote netip.AddrPort
	cfg           conn.Config
}

func (o recOpener) Open(l, r netip.AddrPort, c *conn.Config) (router.BatchConn, error) {
	if o.opened != nil {
		*o.opened = append(*o.opened, openRec{l, r, *c})
	}
	return nullConn{}, nil
}
func (recOpener) UDPCanReuseLocal() bool { return true }

type labIf struct {
	id    uint16
	lt    topology.LinkType
	owner int // 1 = router under test, 2 = sibling
}

var labIfs = []labIf{
	{11, topology.Core, 1}, {12, topology.Core, 1}, {13, topology.Core, 2},
	{21, topology.Parent, 1}, {22, topology.Parent, 1}, {23, topology.Parent, 2},
	{31, topology.Child, 1}, {32, topology.Child, 1}, {33, topology.Child, 2},
	{41, topology.Peer, 1}, {42, topology.Peer, 1}, {43, topology.Peer, 2},
	{51, topology.Unset, 1}, {53, topology.Unset, 2},
	// a third router, so that a second, different sibling link exists
	{14, topology.Core, 3}, {24, topology.Parent, 3}, {34, topology.Child, 3},
}

func labIfByID(id uint16) labIf {
	for _, x := range labIfs {
		if x.id == id {
			return x
		}
	}
	return labIf{}
}

func ifsOf(lt topology.LinkType, owner int) []uint16 {
	var out []uint16
	for _, x := range labIfs {
		if x.lt == lt && (owner == 0 || x.owner == owner) {
			out = append(out, x.id)
		}
	}
	return out
}

var labLocal = addr.MustParseIA("1-ff00:0:110")

func labNeighbor(id uint16) addr.IA { return addr.MustIAFrom(1, addr.AS(0xff0000000200+uint64(id))) }

type lab struct {
	fp     *router.VerifFastPath // one processor reused for all packets, as in the running router
	dp     *router.VerifDataPlane
	master []byte
	key    []byte
	opened []openRec
}

type labCfg struct {
	master    []byte
	authSCMP  bool
	portStart uint16
	portEnd   uint16
	bfd       map[uint16]bool // interfaces with BFD enabled
	svc       bool
	rc        router.RunConfig
}

func newLab(fatal func(string, ...any), c labCfg) *lab {
	l := &lab{master: c.master, key: ref.HopKey(c.master)}
	rc := c.rc
	if rc.BatchSize == 0 {
		rc = router.RunConfig{NumProcessors: 1, NumSlowPathProcessors: 1, BatchSize: 8}
	}
	dp := router.NewVerifDataPlane(rc, c.authSCMP)
	dp.Underlay("udpip").SetConnOpener(recOpener{&l.opened})
	chk := func(err error) {
		if err != nil {
			fatal("router set-up: %v", err)
		}
	}
	chk(dp.SetIA(labLocal))
	chk(dp.SetKey(control.DeriveHFMacKey(c.master)))
	ih := addr.MustParseHost("10.0.0.1")
	chk(dp.AddInternalInterface(ih, "udpip", "10.0.0.1:30042"))
	for _, x := range labIfs {
		chk(dp.AddNeighborIA(x.id, labNeighbor(x.id)))
		bfdCfg := control.BFD{Disable: ptr.To(!c.bfd[x.id]), DetectMult: 3, DesiredMinTxInterval: 200 * time.Millisecond, RequiredMinRxInterval: 200 * time.Millisecond}
		if x.owner == 1 {
			li := control.LinkInfo{Provider: "udpip",
				Local:  control.LinkEnd{IA: labLocal, Addr: fmt.Sprintf("192.0.2.1:%d", 40000+int(x.id))},
				Remote: control.LinkEnd{IA: labNeighbor(x.id), Addr: fmt.Sprintf("192.0.2.2:%d", 40000+int(x.id))},
				LinkTo: x.lt, BFD: bfdCfg, MTU: 1400}
			chk(dp.AddExternalInterface(x.id, li, addr.MustParseHost("192.0.2.1"), addr.MustParseHost("192.0.2.2")))
		} else {
			li := control.LinkInfo{Provider: "udpip",
				Local:  control.LinkEnd{IA: labLocal, Addr: "10.0.0.1:30042"},
				Remote: control.LinkEnd{IA: labNeighbor(x.id), Addr: fmt.Sprintf("10.0.0.%d:30042", x.owner)},
				LinkTo: x.lt, BFD: bfdCfg, MTU: 1400}
			chk(dp.AddNextHop(x.id, li, ih, addr.MustParseHost(fmt.Sprintf("10.0.0.%d", x.owner))))
		}
	}
	if c.svc {
		chk(dp.AddSvc(addr.SvcCS, addr.MustParseHost("10.0.0.77"), 30252))
		// a service whose only instance was registered and removed again (e.g. after a reload)
		chk(dp.AddSvc(addr.SvcDS, addr.MustParseHost("10.0.0.78"), 30253))
		chk(dp.DelSvc(addr.SvcDS, addr.MustParseHost("10.0.0.78"), 30253))
	}
	if c.portStart != 0 || c.portEnd != 0 {
		dp.SetPortRange(c.portStart, c.portEnd)
	} else {
		dp.SetPortRange(1024, 65535)
	}
	l.dp = dp
	return l
}

// ---- forge

type forgeCase struct {
	lens    []int
	consdir []bool
	peering bool
	h       int    // hop on which the packet arrives at the router under test
	arrival string // host, ext, sib
	inIf    uint16 // AS ingress interface (0 = from a local host)
	outIf   uint16 // AS egress interface (0 = local delivery)
	xover   bool   // regular cross-over in this AS
	srcIA   addr.IA
	dstIA   addr.IA
	infos   []path.InfoField
	hops    []path.HopField
	vHop    int // the hop field that is validated last in this AS (h, or h+1 after a cross-over)
	beta    uint16 // accumulator value the MAC of hop h was computed with
	beta2   uint16 // same for the first hop of the next segment at a cross-over
	opts    forgeOpts
}

type forgeOpts struct {
	srcHost, dstHost addr.Host
	sport, dport     uint16
	payload          []byte
	hbh, e2e         bool
	tc               uint8
	flow             uint32
	l4               string // udp, scmp-echo, ...
	// rawSrc, when set, replaces the source host field as it is on the wire (type bits + bytes)
	rawSrcType slayers.AddrType
	rawSrc     []byte
}

func (k *forgeCase) segOf(h int) int {
	s := 0
	for h >= k.lens[s] {
		h -= k.lens[s]
		s++
	}
	return s
}

func (k *forgeCase) segStart(s int) int {
	x := 0
	for i := 0; i < s; i++ {
		x += k.lens[i]
	}
	return x
}

func (k *forgeCase) total() int {
	t := 0
	for _, l := range k.lens {
		t += l
	}
	return t
}

func (k *forgeCase) String() string {
	return fmt.Sprintf("lens=%v consdir=%v peering=%v hop=%d arrival=%s in=%d out=%d xover=%v src=%s dst=%s", k.lens, k.consdir, k.peering, k.h, k.arrival, k.inIf, k.outIf, k.xover, k.srcIA, k.dstIA)
}

var withinSegPairs = [][2]topology.LinkType{{topology.Core, topology.Core}, {topology.Child, topology.Parent}, {topology.Parent, topology.Child}}
var xoverPairs = [][2]topology.LinkType{{topology.Core, topology.Child}, {topology.Child, topology.Core}, {topology.Child, topology.Child}}

func pick(rt *rapid.T, ids []uint16, label string) uint16 {
	return ids[rapid.IntRange(0, len(ids)-1).Draw(rt, label)]
}

// setSides writes the AS ingress/egress interfaces into a hop field for the given direction.
func setSides(hf *path.HopField, consDir bool, in, out uint16) {
	if consDir {
		hf.ConsIngress, hf.ConsEgress = in, out
	} else {
		hf.ConsIngress, hf.ConsEgress = out, in
	}
}

// genForge draws a packet that is valid for the router under test, at timestamp base ts.
func genForge(rt *rapid.T, l *lab, now time.Time) *forgeCase {
	k := &forgeCase{}
	k.peering = rapid.IntRange(0, 4).Draw(rt, "peering") == 0
	nseg := rapid.IntRange(1, 3).Draw(rt, "nseg")
	if k.peering {
		nseg = 2
	}
	for i := 0; i < nseg; i++ {
		lo := 2
		if k.peering {
			lo = 1
		}
		k.lens = append(k.lens, rapid.IntRange(lo, 5).Draw(rt, "len"))
		k.consdir = append(k.consdir, rapid.Bool().Draw(rt, "consdir"))
	}
	if k.peering {
		k.consdir[0], k.consdir[1] = false, true
	}
	total := k.total()
	for i := 0; i < nseg; i++ {
		k.infos = append(k.infos, path.InfoField{ConsDir: k.consdir[i], Peer: k.peering, SegID: rapid.Uint16().Draw(rt, "segid"),
			Timestamp: uint32(now.Unix() - int64(rapid.IntRange(0, 300).Draw(rt, "age")))})
	}
	for i := 0; i < total; i++ {
		hf := path.HopField{ExpTime: uint8(rapid.IntRange(10, 255).Draw(rt, "exp")),
			ConsIngress: uint16(rapid.IntRange(100, 500).Draw(rt, "ci")), ConsEgress: uint16(rapid.IntRange(100, 500).Draw(rt, "ce"))}
		copy(hf.Mac[:], rapid.SliceOfN(rapid.Byte(), 6, 6).Draw(rt, "rndmac"))
		k.hops = append(k.hops, hf)
	}
	h := rapid.IntRange(0, total-1).Draw(rt, "pos")
	s := k.segOf(h)
	lastOfSeg := h == k.segStart(s)+k.lens[s]-1
	firstOfSeg := h == k.segStart(s)
	isFirst, isLast := h == 0, h == total-1
	peerHop := k.peering && (h == k.lens[0]-1 || h == k.lens[0])
	k.srcIA, k.dstIA = labNeighbor(900), labNeighbor(901)

	// arrival kind
	switch {
	case isFirst:
		k.arrival = "host"
		k.srcIA = labLocal
	case rapid.IntRange(0, 3).Draw(rt, "viaSibling") == 0 && !isLast:
		k.arrival = "sib"
	default:
		k.arrival = "ext"
	}
	inOwner, outOwnerForExt := 1, 0
	if k.arrival == "sib" {
		inOwner = 2
	}
	_ = outOwnerForExt
	egressOwner := func() int {
		// from a host or a sibling the packet must leave through an interface of this router; from
		// outside it may also leave through the sibling
		if k.arrival != "ext" {
			return 1
		}
		if rapid.IntRange(0, 2).Draw(rt, "egressViaSibling") == 0 {
			return 2
		}
		return 1
	}
	regularXoverHere := lastOfSeg && !isLast && !k.peering
	afterXover := firstOfSeg && !isFirst && !k.peering
	switch {
	case regularXoverHere && k.arrival == "ext":
		// cross-over performed by this router
		k.xover = true
		pair := xoverPairs[rapid.IntRange(0, len(xoverPairs)-1).Draw(rt, "xpair")]
		k.inIf, k.outIf = pick(rt, ifsOf(pair[0], 1), "in"), pick(rt, ifsOf(pair[1], egressOwner()), "out")
		setSides(&k.hops[h], k.consdir[s], k.inIf, 0)
		setSides(&k.hops[h+1], k.consdir[s+1], 0, k.outIf)
		k.vHop = h + 1
	case regularXoverHere:
		// arriving from the sibling on the last hop of a segment cannot happen on a valid path (the
		// sibling already moved to the next segment): take the next hop instead
		h++
		s = k.segOf(h)
		fallthrough
	case afterXover && k.arrival == "sib" || (regularXoverHere && k.arrival == "sib"):
		// first hop after a cross-over done by the sibling
		if k.arrival != "sib" {
			k.arrival = "sib"
		}
		inOwner = 2
		pair := xoverPairs[rapid.IntRange(0, len(xoverPairs)-1).Draw(rt, "xpair")]
		k.inIf, k.outIf = pick(rt, ifsOf(pair[0], 2), "in"), pick(rt, ifsOf(pair[1], 1), "out")
		setSides(&k.hops[h-1], k.consdir[s-1], k.inIf, 0)
		setSides(&k.hops[h], k.consdir[s], 0, k.outIf)
		k.vHop = h
	case afterXover:
		// arrival from outside directly on the first hop of a later segment is not a valid position:
		// move back to the cross-over hop
		h--
		s = k.segOf(h)
		k.xover = true
		k.arrival = "ext"
		pair := xoverPairs[rapid.IntRange(0, len(xoverPairs)-1).Draw(rt, "xpair")]
		k.inIf, k.outIf = pick(rt, ifsOf(pair[0], 1), "in"), pick(rt, ifsOf(pair[1], egressOwner()), "out")
		setSides(&k.hops[h], k.consdir[s], k.inIf, 0)
		setSides(&k.hops[h+1], k.consdir[s+1], 0, k.outIf)
		k.vHop = h + 1
	default:
		switch {
		case isFirst:
			lt := topology.Peer
			if !peerHop {
				lt = []topology.LinkType{topology.Core, topology.Parent, topology.Child}[rapid.IntRange(0, 2).Draw(rt, "egT")]
			}
			k.inIf, k.outIf = 0, pick(rt, ifsOf(lt, 1), "out")
		case isLast:
			lt := topology.Peer
			if !peerHop {
				lt = []topology.LinkType{topology.Core, topology.Parent, topology.Child}[rapid.IntRange(0, 2).Draw(rt, "inT")]
			}
			k.arrival = "ext"
			k.inIf, k.outIf = pick(rt, ifsOf(lt, 1), "in"), 0
			k.dstIA = labLocal
		case peerHop && h == k.lens[0]-1:
			k.inIf, k.outIf = pick(rt, ifsOf(topology.Child, inOwner), "in"), 0
			if k.arrival == "ext" {
				k.outIf = pick(rt, ifsOf(topology.Peer, egressOwner()), "out")
			} else {
				k.outIf = pick(rt, ifsOf(topology.Peer, 1), "out")
			}
		case peerHop:
			k.inIf = pick(rt, ifsOf(topology.Peer, inOwner), "in")
			if k.arrival == "ext" {
				k.outIf = pick(rt, ifsOf(topology.Child, egressOwner()), "out")
			} else {
				k.outIf = pick(rt, ifsOf(topology.Child, 1), "out")
			}
		default:
			pair := withinSegPairs[rapid.IntRange(0, len(withinSegPairs)-1).Draw(rt, "pair")]
			k.inIf = pick(rt, ifsOf(pair[0], inOwner), "in")
			if k.arrival == "ext" {
				k.outIf = pick(rt, ifsOf(pair[1], egressOwner()), "out")
			} else {
				k.outIf = pick(rt, ifsOf(pair[1], 1), "out")
			}
		}
		setSides(&k.hops[h], k.consdir[s], k.inIf, k.outIf)
		k.vHop = h
	}
	k.h = h
	k.remac(l.key, rapid.Uint16().Draw(rt, "beta"), rapid.Uint16().Draw(rt, "beta2"))
	k.opts = forgeOpts{srcHost: addr.MustParseHost("10.1.1.1"), dstHost: addr.MustParseHost("10.2.2.2"), sport: 40001, dport: 40002,
		payload: rapid.SliceOfN(rapid.Byte(), 0, 64).Draw(rt, "payload"), hbh: rapid.IntRange(0, 3).Draw(rt, "hbh") == 0, e2e: rapid.IntRange(0, 3).Draw(rt, "e2e") == 0,
		tc: rapid.Uint8().Draw(rt, "tc"), flow: rapid.Uint32Range(0, 0xfffff).Draw(rt, "flow"), l4: "udp"}
	return k
}

// remac computes the MACs of the hop(s) validated in this AS for accumulator values beta (hop h) and
// beta2 (first hop of the next segment at a cross-over) with the reference MAC, and sets the info
// fields' SegIDs to what the packet carries on arrival.
func (k *forgeCase) remac(key []byte, beta, beta2 uint16) {
	h := k.h
	s := k.segOf(h)
	k.beta, k.beta2 = beta, beta2
	mac := func(hf *path.HopField, b uint16, ts uint32) {
		hf.Mac = ref.HopMAC(key, b, ts, hf.ExpTime, hf.ConsIngress, hf.ConsEgress)
	}
	peerHop := k.peering && (h == k.lens[0]-1 || h == k.lens[0])
	mac(&k.hops[h], beta, k.infos[s].Timestamp)
	sigma := binary.BigEndian.Uint16(k.hops[h].Mac[:2])
	if k.arrival == "ext" && !k.consdir[s] && !peerHop {
		k.infos[s].SegID = beta ^ sigma // the ingress router folds the MAC in before validating
	} else {
		k.infos[s].SegID = beta
	}
	if k.xover {
		mac(&k.hops[h+1], beta2, k.infos[s+1].Timestamp)
		k.infos[s+1].SegID = beta2
	}
}

// scionLayer builds the SCION header of k.
func (k *forgeCase) scionLayer() (*slayers.SCION, error) {
	var sl [3]uint8
	for i, l := range k.lens {
		sl[i] = uint8(l)
	}
	dec := &scion.Decoded{Base: scion.Base{PathMeta: scion.MetaHdr{CurrHF: uint8(k.h), CurrINF: uint8(k.segOf(k.h)), SegLen: sl},
		NumINF: len(k.lens), NumHops: k.total()}, InfoFields: append([]path.InfoField{}, k.infos...), HopFields: append([]path.HopField{}, k.hops...)}
	sc := &slayers.SCION{FlowID: k.opts.flow, TrafficClass: k.opts.tc, NextHdr: slayers.L4UDP, PathType: scion.PathType, Path: dec, SrcIA: k.srcIA, DstIA: k.dstIA}
	if err := sc.SetSrcAddr(k.opts.srcHost); err != nil {
		return nil, err
	}
	if k.opts.rawSrc != nil {
		sc.SrcAddrType, sc.RawSrcAddr = k.opts.rawSrcType, k.opts.rawSrc
	}
	if err := sc.SetDstAddr(k.opts.dstHost); err != nil {
		return nil, err
	}
	return sc, nil
}

func (k *forgeCase) serialize() ([]byte, error) {
	sc, err := k.scionLayer()
	if err != nil {
		return nil, err
	}
	ls := []gopacket.SerializableLayer{sc}
	next := &sc.NextHdr
	if k.opts.hbh {
		hh := &slayers.HopByHopExtn{Options: []*slayers.HopByHopOption{{OptType: 77, OptData: []byte{1, 2, 3}}}}
		*next = slayers.HopByHopClass
		next = &hh.NextHdr
		ls = append(ls, hh)
	}
	if k.opts.e2e {
		ee := &slayers.EndToEndExtn{Options: []*slayers.EndToEndOption{{OptType: 99, OptData: []byte{9, 8, 7, 6, 5}}}}
		*next = slayers.End2EndClass
		next = &ee.NextHdr
		ls = append(ls, ee)
	}
	*next = slayers.L4UDP
	udp := &slayers.UDP{SrcPort: k.opts.sport, DstPort: k.opts.dport}
	udp.SetNetworkLayerForChecksum(sc)
	ls = append(ls, udp, gopacket.Payload(k.opts.payload))
	buf := gopacket.NewSerializeBuffer()
	if err := gopacket.SerializeLayers(buf, gopacket.SerializeOptions{FixLengths: true, ComputeChecksums: true}, ls...); err != nil {
		return nil, err
	}
	return append([]byte{}, buf.Bytes()...), nil
}

// inject hands raw to the router under test the way the arrival kind says and returns the fast-path
// result, the packet and (if the slow path was requested) the emitted SCMP packet.
type labResult struct {
	res  router.VerifResult
	out  []byte
	dest *net.UDPAddr
	scmp []byte
	sErr error
}

func (l *lab) inject(k *forgeCase, raw []byte) labResult {
	var link router.Link
	var remote *net.UDPAddr
	switch k.arrival {
	case "host":
		link = l.dp.Interface(0)
		remote = &net.UDPAddr{IP: k.opts.srcHost.IP().AsSlice(), Port: int(k.opts.sport)}
	case "ext":
		link = l.dp.Interface(k.inIf)
	case "sib":
		// the sibling link through which packets of the router owning inIf arrive
		link = l.dp.Interface(k.inIf)
	}
	return l.injectOn(link, remote, raw)
}

func (l *lab) injectOn(link router.Link, remote *net.UDPAddr, raw []byte) labResult {
	if l.fp == nil {
		l.fp = l.dp.NewFastPath()
	}
	pkt := l.dp.NewPacket(raw, link, remote)
	r := labResult{res: l.fp.Process(pkt)}
	r.out = append([]byte{}, pkt.RawPacket...)
	r.dest = pkt.VerifRemote()
	if r.res.Disposition == router.VerifDispSlowPath {
		sp := l.dp.NewSlowPath()
		r.sErr = sp.Process(pkt)
		if r.sErr == nil {
			r.scmp = append([]byte{}, pkt.RawPacket...)
		}
	}
	return r
}

// expectForward is what the reference forwarding step says about a valid packet.
func (k *forgeCase) expectForward(raw []byte) (ref.ForwardResult, error) {
	return ref.Forward(raw, k.arrival == "ext", k.arrival != "sib", k.dstIA == labLocal, func(id uint16) bool { return labIfByID(id).owner == 1 })
}

// hopOffset is the byte offset of hop field h in the serialized packet (header layout).
func (k *forgeCase) hopOffset(h int) int {
	return 12 + 16 + 4 + 4 + 4 + 8*len(k.lens) + 12*h
}

func (k *forgeCase) infoOffset(s int) int { return 12 + 16 + 4 + 4 + 4 + 8*s }

// scmpInfo decodes an SCMP error emitted by the router.
type scmpInfo struct {
	scion   slayers.SCION
	typ     slayers.SCMPType
	code    slayers.SCMPCode
	pointer uint16
	quote   []byte
	body    []byte
}

func decodeSCMP(raw []byte) (*scmpInfo, error) {
	var i scmpInfo
	if err := i.scion.DecodeFromBytes(raw, gopacket.NilDecodeFeedback); err != nil {
		return nil, fmt.Errorf("SCMP packet does not decode: %v", err)
	}
	pld := i.scion.Payload
	next := i.scion.NextHdr
	for n := 0; n < 2 && (next == slayers.HopByHopClass || next == slayers.End2EndClass); n++ {
		l := (int(pld[1]) + 1) * 4
		next = slayers.L4ProtocolType(pld[0])
		pld = pld[l:]
	}
	if next != slayers.L4SCMP {
		return nil, fmt.Errorf("emitted packet is not SCMP (next header %v)", next)
	}
	var sc slayers.SCMP
	if err := sc.DecodeFromBytes(pld, gopacket.NilDecodeFeedback); err != nil {
		return nil, err
	}
	i.typ, i.code = sc.TypeCode.Type(), sc.TypeCode.Code()
	i.body = sc.Payload
	switch i.typ {
	case slayers.SCMPTypeParameterProblem:
		var pp slayers.SCMPParameterProblem
		if err := pp.DecodeFromBytes(sc.Payload, gopacket.NilDecodeFeedback); err != nil {
			return nil, err
		}
		i.pointer, i.quote = pp.Pointer, pp.Payload
	case slayers.SCMPTypeDestinationUnreachable:
		i.quote = sc.Payload[4:]
	case slayers.SCMPTypeExternalInterfaceDown:
		i.quote = sc.Payload[16:]
	case slayers.SCMPTypeInternalConnectivityDown:
		i.quote = sc.Payload[24:]
	}
	return &i, nil
}

// hostAddr is the underlay source address of the local end host that sends k.
func (l *lab) hostAddr(k *forgeCase) *net.UDPAddr {
	return &net.UDPAddr{IP: k.opts.srcHost.IP().AsSlice(), Port: int(k.opts.sport)}
}

// bubble runs f inside a testing/synctest bubble. rapid signals "discard this case" and shrink
// overruns by panicking; such a panic must surface on rapid's own goroutine, not inside the bubble
// (where it would kill the process), so it is carried out and re-raised.
func bubble(t *testing.T, f func()) {
	var pv any
	synctest.Test(t, func(t *testing.T) {
		defer func() {
			if r := recover(); r != nil {
				pv = r
			}
		}()
		f()
	})
	if pv != nil {
		panic(pv)
	}
}

// hopOffsetFor / infoOffsetFor: byte offsets computed from the header layout for the case's actual
// host address lengths.
func (k *forgeCase) addrLen() int {
	n := 0
	for i, h := range []addr.Host{k.opts.dstHost, k.opts.srcHost} {
		if i == 1 && k.opts.rawSrc != nil {
			n += len(k.opts.rawSrc)
			continue
		}
		if h.Type() == addr.HostTypeIP && h.IP().Is6() {
			n += 16
		} else {
			n += 4
		}
	}
	return n
}

func (k *forgeCase) hopOffsetFor(h int) int  { return 12 + 16 + k.addrLen() + 4 + 8*len(k.lens) + 12*h }
func (k *forgeCase) infoOffsetFor(s int) int { return 12 + 16 + k.addrLen() + 4 + 8*s }

type bfdSession = bfd.Session
