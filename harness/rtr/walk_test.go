package rtr

import (
	"bytes"
	"fmt"
	"net"
	"net/netip"

	"pgregory.net/rapid"

	"github.com/scionproto/scion/pkg/addr"
	scionpath "github.com/scionproto/scion/pkg/slayers/path/scion"
	"github.com/scionproto/scion/private/path/combinator"
	"github.com/scionproto/scion/router"

	"verif/internal/netsim"
	"verif/internal/ref"
)

// buildNet draws a topology and a beacon delivery order and runs the real control plane on it.
func buildNet(rt *rapid.T, epic bool) *netsim.Net {
	topo := netsim.GenTopo(rt)
	seed := rapid.Uint64().Draw(rt, "deliveryOrder")
	perm := func(n int) []int {
		// deterministic permutation from the drawn seed (xorshift), no other randomness
		p := make([]int, n)
		for i := range p {
			p[i] = i
		}
		x := seed | 1
		for i := n - 1; i > 0; i-- {
			x ^= x << 13
			x ^= x >> 7
			x ^= x << 17
			j := int(x % uint64(i+1))
			p[i], p[j] = p[j], p[i]
		}
		return p
	}
	n, err := netsim.Build(topo, epic, perm)
	if err != nil {
		rt.Fatalf("building the simulated network: %v", err)
	}
	return n
}

type pathCase struct {
	src, dst addr.IA
	p        combinator.Path
	raw      *scionpath.Raw
}

// eachPath enumerates all (src, dst) pairs and the paths the combinator returns (at most capPer
// per pair, chosen by a drawn offset).
func eachPath(rt *rapid.T, n *netsim.Net, capPer int, fn func(pc pathCase)) {
	for _, src := range n.Sim.Order {
		for _, dst := range n.Sim.Order {
			if src == dst {
				continue
			}
			paths := n.Paths(src, dst)
			start := 0
			if len(paths) > capPer {
				start = rapid.IntRange(0, len(paths)-capPer).Draw(rt, "pathOffset")
				paths = paths[start : start+capPer]
			}
			for _, p := range paths {
				raw := &scionpath.Raw{}
				if err := raw.DecodeFromBytes(append([]byte{}, p.SCIONPath.Raw...)); err != nil {
					rt.Fatalf("combinator returned an undecodable path: %v", err)
				}
				fn(pathCase{src, dst, p, raw})
			}
		}
	}
}

func srcUDP(o netsim.PktOpts) *net.UDPAddr {
	return &net.UDPAddr{IP: o.SrcHost.IP().AsSlice(), Port: int(o.SrcPort)}
}

func metaSeq(p combinator.Path) []string {
	var want []string
	for _, i := range p.Metadata.Interfaces {
		want = append(want, fmt.Sprintf("%s#%d", i.IA, i.ID))
	}
	return want
}

// pathClass labels the shape of a path for coverage accounting.
func pathClass(n *netsim.Net, pc pathCase, w netsim.WalkResult) []string {
	var ls []string
	ls = append(ls, fmt.Sprintf("segments_%d", pc.raw.NumINF))
	if inf, _ := pc.raw.GetInfoField(0); inf.Peer {
		ls = append(ls, "peering")
	}
	for _, st := range w.Steps {
		if st.Via == "sib" {
			ls = append(ls, "sibling_traversal")
			break
		}
	}
	// shortcut: fewer AS hops than the sum of segment lengths would give without a cut
	if pc.raw.NumINF == 2 && !hasPeer(pc.raw) {
		// up+down joined at a non-core AS shows as an AS count smaller than hops-1
		ases := len(pc.p.Metadata.Interfaces)/2 + 1
		if ases < pc.raw.NumHops-1 || !n.Sim.ASes[pc.p.Metadata.Interfaces[len(pc.p.Metadata.Interfaces)/2].IA].Spec.Core {
			ls = append(ls, "shortcut")
		}
	}
	return ls
}

func hasPeer(r *scionpath.Raw) bool {
	inf, _ := r.GetInfoField(0)
	return inf.Peer
}

func nontrivialPath(ls []string) bool {
	for _, l := range ls {
		switch l {
		case "peering", "sibling_traversal", "shortcut", "segments_2", "segments_3":
			return true
		}
	}
	return false
}

func dumpWalk(w netsim.WalkResult) string {
	var b bytes.Buffer
	for _, st := range w.Steps {
		fmt.Fprintf(&b, "   %s r%d in=%d via=%s reply=%v -> disp=%d egress=%d sp=(%d,%d,%d)\n", st.IA, st.Router, st.Ingress, st.Via, st.Reply,
			st.Res.Disposition, st.Res.Egress, st.Res.SPType, st.Res.SPCode, st.Res.SPPointer)
	}
	return b.String()
}

// checkStepBytes is C07's oracle for one forwarding step of a walk: (i) mask, (ii) exact equality
// with the reference forwarding step.
func checkStepBytes(n *netsim.Net, st netsim.Step, dst addr.IA) error {
	if st.Res.Disposition != router.VerifDispForward {
		return nil
	}
	in, out := st.In, st.Out
	if len(in) != len(out) {
		return fmt.Errorf("packet length changed from %d to %d", len(in), len(out))
	}
	v, err := ref.ParsePath(in)
	if err != nil {
		return fmt.Errorf("harness: %v", err)
	}
	vo, _ := ref.ParsePath(out)
	allowed := map[int]bool{v.PathOff: true}
	for _, seg := range []int{v.CurrINF, vo.CurrINF} {
		allowed[v.InfoOff(seg)+2], allowed[v.InfoOff(seg)+3] = true, true
	}
	for i := range in {
		if in[i] != out[i] && !allowed[i] {
			return fmt.Errorf("byte %d changed from %#02x to %#02x: outside the path's mutable state (pointers at %d, SegIDs of segments %d/%d)",
				i, in[i], out[i], v.PathOff, v.CurrINF, vo.CurrINF)
		}
	}
	if in[v.PathOff+1] != out[v.PathOff+1] {
		return fmt.Errorf("reserved/SegLen bits of the meta header changed")
	}
	rtr := n.Sim.ASes[st.IA].Routers[st.Router]
	want, err := ref.Forward(in, st.Via == "ext", st.Via != "sib", st.IA == dst, func(id uint16) bool { return rtr.Owned[id] })
	if err != nil {
		return fmt.Errorf("reference forwarder: %v", err)
	}
	if !bytes.Equal(want.Out, out) {
		return fmt.Errorf("output differs from the reference forwarding step (via=%s)\n in  %x\n out %x\n ref %x", st.Via, in[:v.HdrLen], out[:v.HdrLen], want.Out[:v.HdrLen])
	}
	if want.Egress != st.Res.Egress {
		return fmt.Errorf("egress interface %d, reference %d", st.Res.Egress, want.Egress)
	}
	return nil
}

func wantDeliverAddr(o netsim.PktOpts) netip.AddrPort {
	return netip.AddrPortFrom(o.DstHost.IP(), o.DstPort)
}
