package rtr

import (
	"bytes"
	"fmt"
	"net"
	"net/netip"
	"testing"
	"time"

	"github.com/gopacket/gopacket"
	"pgregory.net/rapid"

	"github.com/scionproto/scion/pkg/addr"
	"github.com/scionproto/scion/pkg/private/ptr"
	"github.com/scionproto/scion/pkg/slayers"
	"github.com/scionproto/scion/pkg/slayers/path"
	"github.com/scionproto/scion/pkg/slayers/path/onehop"
	"github.com/scionproto/scion/private/topology"
	"github.com/scionproto/scion/router"
	"github.com/scionproto/scion/router/control"

	"verif/internal/evid"
	"verif/internal/ref"
)

// ---------------------------------------------------------------------------------------------
// C12 — one-hop paths are issued and completed only between the right neighbours.
// Two real routers A and B (different keys) joined by link A#7 -- B#9; each has a second link to a
// third AS C. Generated one-hop packets at A's internal link (any source, destination, egress
// interface, MAC good/bad, construction-direction flag, age, expiry) and, after A's processing, at
// B's external links. Oracle (D): the statement's table for emission and acceptance; reference MAC
// for the second hop field; byte-level comparison (only SegID resp. the second hop field may
// change); the reversed path is accepted by B (outbound) and A (inbound).
// ---------------------------------------------------------------------------------------------

var (
	iaA = addr.MustParseIA("1-ff00:0:a")
	iaB = addr.MustParseIA("1-ff00:0:b")
	iaC = addr.MustParseIA("2-ff00:0:c")
	iaX = addr.MustParseIA("3-ff00:0:dead")
)

func ohpRouter(fatal func(string, ...any), local addr.IA, master []byte, ifs map[uint16]addr.IA) *router.VerifDataPlane {
	dp := router.NewVerifDataPlane(router.RunConfig{NumProcessors: 1, NumSlowPathProcessors: 1, BatchSize: 8}, false)
	dp.Underlay("udpip").SetConnOpener(recOpener{})
	chk := func(err error) {
		if err != nil {
			fatal("router set-up: %v", err)
		}
	}
	chk(dp.SetIA(local))
	chk(dp.SetKey(control.DeriveHFMacKey(master)))
	chk(dp.AddInternalInterface(addr.MustParseHost("10.0.0.1"), "udpip", "10.0.0.1:30042"))
	for id, remote := range ifs {
		chk(dp.AddNeighborIA(id, remote))
		li := control.LinkInfo{Provider: "udpip", Local: control.LinkEnd{IA: local, Addr: fmt.Sprintf("192.0.2.1:%d", 40000+int(id))},
			Remote: control.LinkEnd{IA: remote, Addr: fmt.Sprintf("192.0.2.2:%d", 40000+int(id))}, LinkTo: topology.Core, BFD: control.BFD{Disable: ptr.To(true)}, MTU: 1400}
		chk(dp.AddExternalInterface(id, li, addr.MustParseHost("192.0.2.1"), addr.MustParseHost("192.0.2.2")))
	}
	chk(dp.AddSvc(addr.SvcCS, addr.MustParseHost("10.0.0.77"), 30252))
	dp.SetPortRange(1024, 65535)
	return dp
}

func ohpPacket(src, dst addr.IA, dstHost addr.Host, p *onehop.Path, sport uint16) ([]byte, error) {
	s := &slayers.SCION{NextHdr: slayers.L4UDP, PathType: onehop.PathType, Path: p, SrcIA: src, DstIA: dst, FlowID: 7, TrafficClass: 0xb8}
	_ = s.SetSrcAddr(addr.MustParseHost("10.0.0.9"))
	if err := s.SetDstAddr(dstHost); err != nil {
		return nil, err
	}
	u := &slayers.UDP{SrcPort: sport, DstPort: 0}
	u.SetNetworkLayerForChecksum(s)
	buf := gopacket.NewSerializeBuffer()
	if err := gopacket.SerializeLayers(buf, gopacket.SerializeOptions{FixLengths: true, ComputeChecksums: true}, s, u, gopacket.Payload([]byte("pcb"))); err != nil {
		return nil, err
	}
	return append([]byte{}, buf.Bytes()...), nil
}

const ohpPathOff = 12 + 16 + 4 + 4 // common + IAs + IPv4/SVC hosts

func TestC12(t *testing.T) {
	rec := evid.New("C12", "rapid: one-hop packets at router A's internal link: source in {A, B, C}, destination in {B, C, A, stranger}, first-hop egress in {7 (to B), 8 (to C), unknown}, first-hop ingress 0 or not, MAC valid/invalid (reference MAC; also the genuine MAC of the hop field without ingress), second-hop slot empty or filled with anything, construction-direction flag, "+
		"age 0..lifetime, ExpTime 0..255; accepted ones continue to router B's external links (right and wrong interface, right and wrong source/destination); completed paths are reversed and sent back through B and A. "+
		"Oracle: statement's table; only SegID (A) resp. the second hop field (B) may change; second hop = reference MAC with A-updated SegID, ExpTime copied; reversed path accepted by both. Non-trivial: a rejected combination or a full round trip.")
	defer rec.Flush(t)
	rec.Assume("virtual clock (synctest) places the packet anywhere inside the first hop's lifetime", "BFD's own one-hop packets use the same first-hop construction (not captured here)")
	rec.Require("out_accepted", "out_wrong_src", "out_wrong_dst", "out_unknown_egress", "out_bad_mac", "out_not_consdir", "in_accepted", "in_wrong_dst", "in_wrong_src", "in_wrong_interface", "roundtrip", "old_timestamp_long_exptime", "second_hop_slot_filled", "out_mac_of_other_hop", "first_hop_with_ingress")
	rapid.Check(t, func(rt *rapid.T) {
		var fail string
		var labels []string
		var canon string
		nt := false
		bubble(t, func() {
			time.Sleep(30 * 365 * 24 * time.Hour)
			fatal := func(f string, a ...any) { fail = fmt.Sprintf(f, a...) }
			mA, mB := rapid.SliceOfN(rapid.Byte(), 16, 16).Draw(rt, "keyA"), rapid.SliceOfN(rapid.Byte(), 16, 16).Draw(rt, "keyB")
			A := ohpRouter(fatal, iaA, mA, map[uint16]addr.IA{7: iaB, 8: iaC})
			B := ohpRouter(fatal, iaB, mB, map[uint16]addr.IA{9: iaA, 10: iaC})
			if fail != "" {
				return
			}
			kA, kB := ref.HopKey(mA), ref.HopKey(mB)
			now := time.Now()
			exp := uint8(rapid.IntRange(0, 255).Draw(rt, "expTime"))
			if rapid.Bool().Draw(rt, "longExp") {
				exp = uint8(rapid.IntRange(64, 255).Draw(rt, "expTimeLong"))
			}
			life := int((time.Duration(1+int(exp)) * (24 * time.Hour / 256)).Seconds())
			age := rapid.IntRange(0, life-20).Draw(rt, "age")
			if rapid.Bool().Draw(rt, "oldAge") {
				age = rapid.IntRange(life*3/4, life-20).Draw(rt, "ageOld")
			}
			src := rapid.SampledFrom([]addr.IA{iaA, iaA, iaA, iaB, iaC}).Draw(rt, "src")
			dst := rapid.SampledFrom([]addr.IA{iaB, iaB, iaB, iaC, iaA, iaX}).Draw(rt, "dst")
			egress := rapid.SampledFrom([]uint16{7, 7, 7, 8, 99}).Draw(rt, "egress")
			macOK := rapid.IntRange(0, 4).Draw(rt, "badMAC") != 0
			consDir := rapid.IntRange(0, 5).Draw(rt, "notConsDir") != 0
			info := path.InfoField{ConsDir: consDir, SegID: rapid.Uint16().Draw(rt, "segID"), Timestamp: uint32(now.Unix() - int64(age))}
			// the first hop field normally has no ingress interface; whatever it holds is covered by its MAC
			firstIn := rapid.SampledFrom([]uint16{0, 0, 0, 0, 5, 7, 8}).Draw(rt, "firstHopIngress")
			first := path.HopField{ConsIngress: firstIn, ConsEgress: egress, ExpTime: exp}
			first.Mac = ref.HopMAC(kA, info.SegID, info.Timestamp, exp, firstIn, egress)
			macOfOtherHop := false
			if !macOK {
				if firstIn != 0 && rapid.Bool().Draw(rt, "macOfHopWithoutIngress") {
					// a genuine MAC of this router, but of the hop field with ingress 0
					first.Mac = ref.HopMAC(kA, info.SegID, info.Timestamp, exp, 0, egress)
					macOfOtherHop = true
				} else {
					b := rapid.IntRange(0, 47).Draw(rt, "macBit")
					first.Mac[b/8] ^= 1 << (b % 8)
				}
			}
			// the slot of the second hop field is not protected by anything: a sender (or the link) may
			// put anything there
			var second path.HopField
			if rapid.Bool().Draw(rt, "secondHopSlotFilled") {
				second = path.HopField{ConsIngress: rapid.Uint16().Draw(rt, "s2in"), ConsEgress: rapid.SampledFrom([]uint16{0, 9, 10, 2}).Draw(rt, "s2out"), ExpTime: rapid.Uint8().Draw(rt, "s2exp"),
					IngressRouterAlert: rapid.Bool().Draw(rt, "s2ia"), EgressRouterAlert: rapid.Bool().Draw(rt, "s2ea")}
				copy(second.Mac[:], rapid.SliceOfN(rapid.Byte(), 6, 6).Draw(rt, "s2mac"))
				labels = append(labels, "second_hop_slot_filled")
			}
			sport := uint16(rapid.IntRange(1024, 65535).Draw(rt, "sport"))
			raw, err := ohpPacket(src, dst, addr.HostSVC(addr.SvcCS), &onehop.Path{Info: info, FirstHop: first, SecondHop: second}, sport)
			if err != nil {
				fail = "harness: " + err.Error()
				return
			}
			// ---- outbound at A
			neighbor := map[uint16]addr.IA{7: iaB, 8: iaC}[egress]
			wantOut := src == iaA && !neighbor.IsZero() && dst == neighbor && macOK && consDir
			pk := A.NewPacket(raw, A.Interface(0), &net.UDPAddr{IP: net.IPv4(10, 0, 0, 9), Port: int(sport)})
			res := A.NewFastPath().Process(pk)
			desc := fmt.Sprintf("src=%s dst=%s egress=%d macOK=%v consDir=%v exp=%d age=%ds", src, dst, egress, macOK, consDir, exp, age)
			canon = desc
			if (res.Disposition == router.VerifDispForward) != wantOut {
				fail = fmt.Sprintf("router A: one-hop packet forwarded=%v (egress %d), statement says %v: %s", res.Disposition == router.VerifDispForward, res.Egress, wantOut, desc)
				return
			}
			if !wantOut {
				nt = true
				switch {
				case src != iaA:
					labels = append(labels, "out_wrong_src")
				case neighbor.IsZero():
					labels = append(labels, "out_unknown_egress")
				case dst != neighbor:
					labels = append(labels, "out_wrong_dst")
				case macOfOtherHop:
					labels = append(labels, "out_mac_of_other_hop")
				case !macOK:
					labels = append(labels, "out_bad_mac")
				default:
					labels = append(labels, "out_not_consdir")
				}
				return
			}
			labels = append(labels, "out_accepted")
			if res.Egress != egress {
				fail = fmt.Sprintf("router A sends the packet out of interface %d, first hop names %d: %s", res.Egress, egress, desc)
				return
			}
			outA := append([]byte{}, pk.RawPacket...)
			wantA := append([]byte{}, raw...)
			wantA[ohpPathOff+2] ^= first.Mac[0]
			wantA[ohpPathOff+3] ^= first.Mac[1]
			if !bytes.Equal(outA, wantA) {
				fail = fmt.Sprintf("router A changed more than the segment identifier: %s\n in  %x\n out %x\n ref %x", desc, raw, outA, wantA)
				return
			}
			// ---- inbound at B (or a wrong arrival)
			inIf := rapid.SampledFrom([]uint16{9, 9, 9, 10}).Draw(rt, "arrivalInterface")
			rawB := outA
			// an attacker on the link may rewrite the unprotected addresses
			srcB, dstB := src, dst
			switch rapid.IntRange(0, 5).Draw(rt, "rewrite") {
			case 0:
				srcB = rapid.SampledFrom([]addr.IA{iaC, iaB, iaX}).Draw(rt, "srcRewrite")
			case 1:
				dstB = rapid.SampledFrom([]addr.IA{iaC, iaA, iaX}).Draw(rt, "dstRewrite")
			}
			if srcB != src || dstB != dst {
				ss := info
				ss.SegID ^= uint16(first.Mac[0])<<8 | uint16(first.Mac[1])
				rawB, err = ohpPacket(srcB, dstB, addr.HostSVC(addr.SvcCS), &onehop.Path{Info: ss, FirstHop: first, SecondHop: second}, sport)
				if err != nil {
					fail = "harness: " + err.Error()
					return
				}
			}
			wantIn := dstB == iaB && srcB == map[uint16]addr.IA{9: iaA, 10: iaC}[inIf]
			pb := B.NewPacket(rawB, B.Interface(inIf), nil)
			resB := B.NewFastPath().Process(pb)
			descB := fmt.Sprintf("%s | at B: src=%s dst=%s arriving on %d", desc, srcB, dstB, inIf)
			canon = descB
			if (resB.Disposition == router.VerifDispForward) != wantIn {
				fail = fmt.Sprintf("router B: incoming one-hop packet accepted=%v, statement says %v: %s", resB.Disposition == router.VerifDispForward, wantIn, descB)
				return
			}
			if !wantIn {
				nt = true
				switch {
				case dstB != iaB:
					labels = append(labels, "in_wrong_dst")
				case inIf != 9:
					labels = append(labels, "in_wrong_interface")
				default:
					labels = append(labels, "in_wrong_src")
				}
				return
			}
			labels = append(labels, "in_accepted")
			if resB.Egress != 0 || netip.MustParseAddrPort(pb.VerifRemote().String()) != netip.MustParseAddrPort("10.0.0.77:30252") {
				fail = fmt.Sprintf("router B hands the packet to %v (egress %d), the registered service instance is 10.0.0.77:30252: %s", pb.VerifRemote(), resB.Egress, descB)
				return
			}
			outB := append([]byte{}, pb.RawPacket...)
			segIn := info.SegID ^ (uint16(first.Mac[0])<<8 | uint16(first.Mac[1]))
			wantB := append([]byte{}, rawB...)
			so := ohpPathOff + 8 + 12 // second hop field
			copy(wantB[so:], make([]byte, 12))
			wantB[so+1] = exp
			wantB[so+2], wantB[so+3] = byte(inIf>>8), byte(inIf)
			m2 := ref.HopMAC(kB, segIn, info.Timestamp, exp, inIf, 0)
			copy(wantB[so+6:], m2[:])
			if !bytes.Equal(outB, wantB) {
				fail = fmt.Sprintf("router B's completion differs from the reference (second hop = ingress %d, ExpTime %d, reference MAC): %s\n in  %x\n out %x\n ref %x", inIf, exp, descB, rawB, outB, wantB)
				return
			}
			if firstIn != 0 {
				// such a first hop field cannot end a reversed path in A (it names a further interface)
				labels = append(labels, "first_hop_with_ingress")
				nt = true
				return
			}
			if inIf != 9 || srcB != iaA {
				// accepted from the other neighbour (addresses rewritten on the wire): no round trip through A
				nt = true
				return
			}
			// ---- reverse and travel back (some time later, still inside the first hop's lifetime)
			var d slayers.SCION
			if err := d.DecodeFromBytes(append([]byte{}, outB...), gopacket.NilDecodeFeedback); err != nil {
				fail = "completed packet does not decode: " + err.Error()
				return
			}
			rp, err := d.Path.(*onehop.Path).Reverse()
			if err != nil {
				fail = "Reverse: " + err.Error()
				return
			}
			s := &slayers.SCION{NextHdr: slayers.L4UDP, PathType: rp.Type(), Path: rp, SrcIA: iaB, DstIA: iaA}
			_ = s.SetSrcAddr(addr.MustParseHost("10.0.0.77"))
			_ = s.SetDstAddr(addr.MustParseHost("10.0.0.9"))
			u := &slayers.UDP{SrcPort: 30252, DstPort: sport}
			u.SetNetworkLayerForChecksum(s)
			buf := gopacket.NewSerializeBuffer()
			if err := gopacket.SerializeLayers(buf, gopacket.SerializeOptions{FixLengths: true, ComputeChecksums: true}, s, u, gopacket.Payload([]byte("ack"))); err != nil {
				fail = "harness: " + err.Error()
				return
			}
			time.Sleep(time.Duration(rapid.IntRange(0, 10).Draw(rt, "replyDelay")) * time.Second)
			p1 := B.NewPacket(buf.Bytes(), B.Interface(0), &net.UDPAddr{IP: net.IPv4(10, 0, 0, 77), Port: 30252})
			r1 := B.NewFastPath().Process(p1)
			if r1.Disposition != router.VerifDispForward || r1.Egress != 9 {
				fail = fmt.Sprintf("router B does not accept the reversed one-hop path (disposition %d egress %d SCMP code %d): %s", r1.Disposition, r1.Egress, r1.SPCode, descB)
				return
			}
			p2 := A.NewPacket(append([]byte{}, p1.RawPacket...), A.Interface(7), nil)
			r2 := A.NewFastPath().Process(p2)
			if r2.Disposition != router.VerifDispForward || r2.Egress != 0 {
				fail = fmt.Sprintf("router A does not accept the reversed one-hop path (disposition %d egress %d SCMP code %d): %s", r2.Disposition, r2.Egress, r2.SPCode, descB)
				return
			}
			if got, want := netip.MustParseAddrPort(p2.VerifRemote().String()), netip.AddrPortFrom(netip.MustParseAddr("10.0.0.9"), sport); got != want {
				fail = fmt.Sprintf("reply over the reversed one-hop path handed to %v, source host is %v", got, want)
				return
			}
			labels = append(labels, "roundtrip")
			if exp > 63 && age > 6*3600 {
				labels = append(labels, "old_timestamp_long_exptime")
			}
			nt = true
		})
		if fail != "" {
			rt.Fatalf("%s", fail)
		}
		rec.Case(nt, canon, labels...)
		rec.Sample(func() any { return map[string]any{"case": canon, "outcome": labels} })
	})
}

// ohpFor builds a valid first-hop one-hop path leaving the lab router through egress.
func ohpFor(l *lab, egress uint16) *onehop.Path {
	info := path.InfoField{ConsDir: true, SegID: 0x7777, Timestamp: uint32(time.Now().Unix() - 5)}
	first := path.HopField{ConsEgress: egress, ExpTime: 63}
	first.Mac = ref.HopMAC(l.key, info.SegID, info.Timestamp, 63, 0, egress)
	return &onehop.Path{Info: info, FirstHop: first}
}
