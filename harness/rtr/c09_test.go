package rtr

import (
	"bytes"
	"fmt"
	"testing"
	"time"

	"github.com/gopacket/gopacket"
	"pgregory.net/rapid"

	"github.com/scionproto/scion/pkg/addr"
	"github.com/scionproto/scion/pkg/slayers"
	"github.com/scionproto/scion/private/drkey/drkeyutil"
	"github.com/scionproto/scion/router"

	"verif/internal/evid"
	"verif/internal/ref"
)

// ---------------------------------------------------------------------------------------------
// C09 — SCMP errors are well-formed, addressed to the source, and bounded in size.
// A forged valid packet (C01 forge) of any size, with or without extension headers and with any
// upper layer, gets exactly one cause injected from the catalogue below; the emitted SCMP error is
// decoded independently. With SCMP authentication on, the authenticator must verify (reference MAC
// input layout + reference AES-CMAC) under the key the router's key provider derives.
// ---------------------------------------------------------------------------------------------

type c09Cause struct {
	name    string
	typ     slayers.SCMPType
	codes   []slayers.SCMPCode
	pointer int // -1: not asserted
}

func TestC09(t *testing.T) {
	rec := evid.New("C09", "rapid: forged valid packets (all shapes/positions/ingress kinds of the C01 forge; IPv4/IPv6/IPv4-mapped/service-typed source hosts; payload 0..8000 bytes; optional HBH/E2E headers; upper layer UDP, SCMP echo/traceroute request, or an SCMP error, "+
		"also behind extension headers) + exactly one cause from {invalid MAC, expired hop, wrong ingress interface, unknown egress, forbidden link-type pair (within segment / at segment change), source ISD-AS, destination ISD-AS, wrong payload length, "+
		"service without instance}; SCMP authentication on/off. Oracle: addresses, checksum (reference sum), type/code/pointer per catalogue, quote = prefix of the offender as received (mutable path state exempt), total <= 1232 bytes, "+
		"authenticator verifies; nothing is emitted for an offending SCMP error. Non-trivial: truncated quote, extension headers present, authentication on, or offender is an SCMP message.")
	defer rec.Flush(t)
	rec.Assume("key of authenticated errors comes from the repository's FakeProvider (key derivation itself is C39); MAC input layout and AES-CMAC are the reference ones", "interface-down causes are exercised by C15",
		"the traffic-class mask of the authenticator follows the listed C21 finding if present")
	rec.Require("cause_invalid_mac", "cause_expired", "cause_wrong_ingress", "cause_unknown_egress", "cause_linktype_within", "cause_linktype_xover", "cause_src_ia", "cause_dst_ia", "cause_payload_len", "cause_no_svc",
		"quote_truncated", "auth_on", "offender_scmp_error_silent", "offender_scmp_error_behind_extension_silent", "offender_scmp_info", "offender_ipv6_source", "offender_source_mapped", "offender_source_svc")
	rapid.Check(t, func(rt *rapid.T) {
		var fail string
		var labels []string
		var canon string
		nt := false
		bubble(t, func() {
			time.Sleep(30 * 365 * 24 * time.Hour)
			auth := rapid.Bool().Draw(rt, "scmpAuth")
			l := newLab(func(f string, a ...any) { fail = fmt.Sprintf(f, a...) }, labCfg{master: rapid.SliceOfN(rapid.Byte(), 16, 16).Draw(rt, "masterKey"), authSCMP: auth})
			if fail != "" {
				return
			}
			k := genForge(rt, l, time.Now())
			// offender variants
			if rapid.Bool().Draw(rt, "v6src") {
				k.opts.srcHost = addr.MustParseHost("2001:db8::1:1")
				if k.arrival != "host" {
					labels = append(labels, "offender_ipv6_source")
				}
			}
			// source hosts whose wire form is not what parsing and re-packing them yields: an IPv4-mapped IPv6
			// address and a service-typed source with non-zero trailing bytes (remote sources are not vetted)
			rawKind := rapid.SampledFrom([]string{"", "", "mapped", "svc"}).Draw(rt, "rawSrc")
			if k.arrival != "ext" {
				rawKind = ""
			}
			switch rawKind {
			case "mapped":
				k.opts.rawSrcType, k.opts.rawSrc = slayers.T16Ip, append(append(make([]byte, 10), 0xff, 0xff), rapid.SliceOfN(rapid.Byte(), 4, 4).Draw(rt, "mapped4")...)
			case "svc":
				k.opts.rawSrcType, k.opts.rawSrc = slayers.T4Svc, []byte{0, byte(rapid.IntRange(1, 2).Draw(rt, "svc")), byte(rapid.IntRange(1, 255).Draw(rt, "svcPad1")), rapid.Byte().Draw(rt, "svcPad2")}
			}
			switch rapid.IntRange(0, 3).Draw(rt, "sizeKind") {
			case 0:
				k.opts.payload = rapid.SliceOfN(rapid.Byte(), 0, 40).Draw(rt, "small")
			case 1:
				k.opts.payload = bytes.Repeat([]byte{0xab}, rapid.IntRange(1000, 1300).Draw(rt, "aroundLimit"))
			case 2:
				k.opts.payload = bytes.Repeat([]byte{0xcd}, rapid.IntRange(1300, 8000).Draw(rt, "large"))
			}
			offL4 := rapid.SampledFrom([]string{"udp", "udp", "scmp_info", "scmp_error"}).Draw(rt, "offenderL4")
			// ---- cause
			var applicable []string
			applicable = append(applicable, "invalid_mac", "expired", "payload_len")
			if k.arrival == "ext" {
				applicable = append(applicable, "wrong_ingress", "src_ia", "dst_ia")
			}
			if k.outIf != 0 {
				applicable = append(applicable, "unknown_egress")
				if k.arrival == "ext" {
					applicable = append(applicable, "linktype")
				}
			} else {
				applicable = append(applicable, "no_svc")
			}
			cause := rapid.SampledFrom(applicable).Draw(rt, "cause")
			s := k.segOf(k.h)
			target := k.h
			want := c09Cause{name: cause, typ: slayers.SCMPTypeParameterProblem, pointer: -1}
			arriveIf := k.inIf
			hopPtr := func(h int) int { return k.hopOffsetFor(h) }
			switch cause {
			case "invalid_mac":
				target = []int{k.h, k.vHop}[rapid.IntRange(0, 1).Draw(rt, "macTarget")]
				b := rapid.IntRange(0, 47).Draw(rt, "macBit")
				k.hops[target].Mac[b/8] ^= 1 << (b % 8)
				want.codes, want.pointer = []slayers.SCMPCode{slayers.SCMPCodeInvalidHopFieldMAC}, hopPtr(target)
			case "expired":
				target = []int{k.h, k.vHop}[rapid.IntRange(0, 1).Draw(rt, "expTarget")]
				k.hops[k.h].ExpTime, k.hops[k.vHop].ExpTime = 255, 255
				k.hops[target].ExpTime = uint8(rapid.IntRange(0, 10).Draw(rt, "shortExp"))
				k.remac(l.key, rapid.Uint16().Draw(rt, "b3"), rapid.Uint16().Draw(rt, "b4"))
				time.Sleep(time.Until(ref.HopExpiry(k.infos[k.segOf(target)].Timestamp, k.hops[target].ExpTime).Add(time.Second)))
				want.codes, want.pointer = []slayers.SCMPCode{slayers.SCMPCodePathExpired}, hopPtr(target)
			case "wrong_ingress":
				for _, c := range ifsOf(labIfByID(k.inIf).lt, 1) {
					if c != k.inIf {
						arriveIf = c
					}
				}
				if arriveIf == k.inIf {
					arriveIf = 51
				}
				want.codes, want.pointer = []slayers.SCMPCode{slayers.SCMPCodeUnknownHopFieldIngress, slayers.SCMPCodeUnknownHopFieldEgress}, hopPtr(k.h)
			case "unknown_egress":
				setEgress(k, 999)
				k.remac(l.key, rapid.Uint16().Draw(rt, "b3"), rapid.Uint16().Draw(rt, "b4"))
				want.codes, want.pointer = []slayers.SCMPCode{slayers.SCMPCodeUnknownHopFieldIngress, slayers.SCMPCodeUnknownHopFieldEgress}, hopPtr(k.vHop)
			case "linktype":
				// parent -> parent is forbidden both within a segment and at a segment change
				in, out := ifsOf(2, 1)[0], ifsOf(2, 1)[1]
				setIngress(k, in)
				setEgress(k, out)
				arriveIf = in
				k.inIf = in
				k.remac(l.key, rapid.Uint16().Draw(rt, "b3"), rapid.Uint16().Draw(rt, "b4"))
				if k.xover {
					cause = "linktype_xover"
					want.codes, want.pointer = []slayers.SCMPCode{slayers.SCMPCodeInvalidSegmentChange}, k.infoOffsetFor(k.segOf(k.vHop))
				} else {
					cause = "linktype_within"
					want.codes, want.pointer = []slayers.SCMPCode{slayers.SCMPCodeInvalidPath}, hopPtr(k.h)
				}
			case "src_ia":
				k.srcIA = labLocal
				k.opts.rawSrc, rawKind = nil, ""
				want.codes, want.pointer = []slayers.SCMPCode{slayers.SCMPCodeInvalidSourceAddress}, 20
			case "dst_ia":
				if k.dstIA == labLocal {
					k.dstIA = labNeighbor(901)
				} else {
					k.dstIA = labLocal
				}
				want.codes, want.pointer = []slayers.SCMPCode{slayers.SCMPCodeInvalidDestinationAddress}, 12
			case "payload_len":
				want.codes, want.pointer = []slayers.SCMPCode{slayers.SCMPCodeInvalidPacketSize}, 0
			case "no_svc":
				k.opts.dstHost = addr.HostSVC(addr.SvcDS) // no instance registered
				want.typ, want.codes = slayers.SCMPTypeDestinationUnreachable, []slayers.SCMPCode{slayers.SCMPCodeNoRoute}
			}
			_ = s
			raw, offenderIsError, behindExt, err := k.serializeWithL4(rt, offL4)
			if err != nil {
				fail = "harness: " + err.Error()
				return
			}
			if cause == "payload_len" {
				// claim one byte more or less than there is
				pl := int(raw[6])<<8 | int(raw[7])
				pl += []int{-1, 1, 7}[rapid.IntRange(0, 2).Draw(rt, "plDelta")]
				if pl < 0 {
					pl = 1
				}
				raw[6], raw[7] = byte(pl>>8), byte(pl)
			}
			k2 := *k
			k2.inIf = arriveIf
			r := l.inject(&k2, raw)
			desc := fmt.Sprintf("%v | cause=%s offender L4=%s len=%d auth=%v", k, cause, offL4, len(raw), auth)
			canon = fmt.Sprintf("%x|%s|%v", raw[:min(len(raw), 120)], cause, auth)
			if r.res.Disposition == router.VerifDispForward {
				fail = fmt.Sprintf("packet with cause %q was forwarded: %s", cause, desc)
				return
			}
			labels = append(labels, "cause_"+cause)
			if r.res.Disposition != router.VerifDispSlowPath {
				labels = append(labels, "silently_dropped")
				return
			}
			if offenderIsError {
				// no SCMP error in response to an SCMP error
				if r.sErr == nil && r.scmp != nil {
					fail = fmt.Sprintf("an SCMP error was generated in response to an SCMP error message (behind extension header: %v): %s", behindExt, desc)
					return
				}
				if behindExt {
					labels = append(labels, "offender_scmp_error_behind_extension_silent")
				} else {
					labels = append(labels, "offender_scmp_error_silent")
				}
				nt = true
				return
			}
			if r.sErr != nil {
				fail = fmt.Sprintf("slow path failed to build the SCMP error: %v: %s", r.sErr, desc)
				return
			}
			out := r.scmp
			if len(out) > 1232 {
				fail = fmt.Sprintf("SCMP error message is %d bytes long (limit 1232): %s", len(out), desc)
				return
			}
			si, err := decodeSCMP(out)
			if err != nil {
				fail = fmt.Sprintf("%v: %s", err, desc)
				return
			}
			d := &si.scion
			srcHost, _ := d.SrcAddr()
			dstHost, _ := d.DstAddr()
			if d.DstIA != k.srcIA || (k.opts.rawSrc == nil && dstHost != k.opts.srcHost) {
				fail = fmt.Sprintf("SCMP error addressed to %s,%s; offender's source is %s,%s: %s", d.DstIA, dstHost, k.srcIA, k.opts.srcHost, desc)
				return
			}
			// the destination host field is the offender's source host field as it was on the wire
			if off, err := k.scionLayer(); err == nil && (d.DstAddrType != off.SrcAddrType || !bytes.Equal(d.RawDstAddr, off.RawSrcAddr)) {
				fail = fmt.Sprintf("SCMP error addressed to host type %d bytes %x; the offender's source host field is type %d bytes %x: %s", d.DstAddrType, d.RawDstAddr, off.SrcAddrType, off.RawSrcAddr, desc)
				return
			}
			if rawKind != "" {
				labels = append(labels, "offender_source_"+rawKind)
			}
			if d.SrcIA != labLocal || srcHost != addr.MustParseHost("10.0.0.1") {
				fail = fmt.Sprintf("SCMP error originates from %s,%s; router is %s,10.0.0.1: %s", d.SrcIA, srcHost, labLocal, desc)
				return
			}
			if int(d.PayloadLen) != len(out)-int(d.HdrLen)*4 {
				fail = fmt.Sprintf("SCMP error PayloadLen %d, actual %d: %s", d.PayloadLen, len(out)-int(d.HdrLen)*4, desc)
				return
			}
			// checksum over the SCMP message (after extension headers)
			upper := d.Payload
			if d.NextHdr == slayers.End2EndClass || d.NextHdr == slayers.HopByHopClass {
				upper = upper[(int(upper[1])+1)*4:]
			}
			if sum := ref.PseudoSum(uint64(d.SrcIA), uint64(d.DstIA), d.RawSrcAddr, d.RawDstAddr, uint8(slayers.L4SCMP), upper); sum != 0xffff {
				fail = fmt.Sprintf("SCMP checksum does not verify (folded sum %04x): %s", sum, desc)
				return
			}
			codeOK := false
			for _, c := range want.codes {
				codeOK = codeOK || c == si.code
			}
			if si.typ != want.typ || !codeOK {
				fail = fmt.Sprintf("SCMP type %d code %d; the detected problem (%s) calls for type %d code %v: %s", si.typ, si.code, cause, want.typ, want.codes, desc)
				return
			}
			if want.pointer >= 0 && int(si.pointer) != want.pointer {
				fail = fmt.Sprintf("SCMP pointer %d; the offending field of cause %s is at offset %d: %s", si.pointer, cause, want.pointer, desc)
				return
			}
			// quote: prefix of the offender as received, except for the path's mutable state
			q := si.quote
			if len(q) == 0 || len(q) > len(raw) {
				fail = fmt.Sprintf("quote of %d bytes for an offending packet of %d bytes: %s", len(q), len(raw), desc)
				return
			}
			v, _ := ref.ParsePath(raw)
			exempt := map[int]bool{v.PathOff: true}
			for i := 0; i < v.NumINF; i++ {
				exempt[v.InfoOff(i)+2], exempt[v.InfoOff(i)+3] = true, true
			}
			exempt[v.HopOff(k.h)], exempt[v.HopOff(k.vHop)] = true, true // a consumed router-alert flag
			for i := range q {
				if q[i] != raw[i] && !exempt[i] {
					fail = fmt.Sprintf("quote differs from the offending packet at byte %d (%#02x vs %#02x): %s", i, q[i], raw[i], desc)
					return
				}
			}
			if len(q) < len(raw) {
				labels = append(labels, "quote_truncated")
			}
			// authenticator
			a, err := ref.FindSPAO(out)
			if err != nil {
				fail = fmt.Sprintf("walking the extension headers of the SCMP error: %v: %s", err, desc)
				return
			}
			if auth {
				labels = append(labels, "auth_on")
				if a == nil {
					fail = fmt.Sprintf("SCMP authentication is enabled but the error carries no authenticator: %s", desc)
					return
				}
				fp := &drkeyutil.FakeProvider{EpochDuration: drkeyutil.LoadEpochDuration(), AcceptanceWindow: drkeyutil.LoadAcceptanceWindow()}
				key, err := fp.GetASHostKey(time.Now(), d.DstIA, dstHost)
				if err != nil {
					fail = "harness: key provider: " + err.Error()
					return
				}
				mask := uint8(0xfc)
				tag, err := ref.SPAOTag(key.Key[:], out, a, mask)
				if err == nil && !bytes.Equal(tag, a.Tag) {
					// the listed C21 finding changes which traffic-class bits are covered
					if t2, _ := ref.SPAOTag(key.Key[:], out, a, 0x3f); bytes.Equal(t2, a.Tag) {
						tag = t2
						rec.Known("C21/tc-covered-bits=0x3f")
					}
				}
				if err != nil || !bytes.Equal(tag, a.Tag) {
					fail = fmt.Sprintf("authenticator of the SCMP error does not verify (err=%v, got %x, reference %x): %s", err, a.Tag, tag, desc)
					return
				}
				if a.SPI>>17&1 != 0 || a.SPI>>16&1 != 0 || a.SPI&0xffff != 1 {
					fail = fmt.Sprintf("authenticator SPI %#x is not the sender-side AS-host key of the SCMP protocol: %s", a.SPI, desc)
					return
				}
			} else if a != nil {
				fail = fmt.Sprintf("SCMP authentication is disabled but the error carries an authenticator: %s", desc)
				return
			}
			if offL4 == "scmp_info" {
				labels = append(labels, "offender_scmp_info")
			}
			nt = len(q) < len(raw) || k.opts.hbh || k.opts.e2e || auth || offL4 != "udp"
			rec.Sample(func() any {
				return map[string]any{"case": k.String(), "cause": cause, "offender_len": len(raw), "auth": auth, "scmp_len": len(out), "type": int(si.typ), "code": int(si.code), "pointer": si.pointer, "quote_len": len(q)}
			})
		})
		if fail != "" {
			rt.Fatalf("%s", fail)
		}
		rec.Case(nt, canon, labels...)
	})
}

func setEgress(k *forgeCase, id uint16) {
	h := k.vHop
	s := k.segOf(h)
	if k.consdir[s] {
		k.hops[h].ConsEgress = id
	} else {
		k.hops[h].ConsIngress = id
	}
	k.outIf = id
}

func setIngress(k *forgeCase, id uint16) {
	h := k.h
	s := k.segOf(h)
	if k.consdir[s] {
		k.hops[h].ConsIngress = id
	} else {
		k.hops[h].ConsEgress = id
	}
}

// serializeWithL4 serializes k with the drawn upper layer. For "scmp_error" the offender is itself
// an SCMP error message, optionally behind an end-to-end extension header (as an authenticated
// error is).
func (k *forgeCase) serializeWithL4(rt *rapid.T, l4 string) (raw []byte, isError, behindExt bool, err error) {
	switch l4 {
	case "udp":
		raw, err = k.serialize()
		return
	}
	// build with SCMP: reuse serialize() by swapping the UDP layer out afterwards is awkward; build directly
	var sl [3]uint8
	for i, l := range k.lens {
		sl[i] = uint8(l)
	}
	sc, err := k.scionLayer()
	if err != nil {
		return nil, false, false, err
	}
	ls := []gopacket.SerializableLayer{sc}
	next := &sc.NextHdr
	if k.opts.hbh {
		hh := &slayers.HopByHopExtn{Options: []*slayers.HopByHopOption{{OptType: 77, OptData: []byte{1, 2, 3}}}}
		*next = slayers.HopByHopClass
		next = &hh.NextHdr
		ls = append(ls, hh)
		behindExt = true
	}
	if k.opts.e2e || (l4 == "scmp_error" && rapid.Bool().Draw(rt, "errorBehindE2E")) {
		ee := &slayers.EndToEndExtn{Options: []*slayers.EndToEndOption{{OptType: 99, OptData: []byte{9, 8, 7, 6, 5}}}}
		*next = slayers.End2EndClass
		next = &ee.NextHdr
		ls = append(ls, ee)
		behindExt = true
	}
	*next = slayers.L4SCMP
	var hdr *slayers.SCMP
	var msg gopacket.SerializableLayer
	if l4 == "scmp_info" {
		if rapid.Bool().Draw(rt, "echo") {
			hdr = &slayers.SCMP{TypeCode: slayers.CreateSCMPTypeCode(slayers.SCMPTypeEchoRequest, 0)}
			msg = &slayers.SCMPEcho{Identifier: 4242, SeqNumber: 1}
		} else {
			hdr = &slayers.SCMP{TypeCode: slayers.CreateSCMPTypeCode(slayers.SCMPTypeTracerouteRequest, 0)}
			msg = &slayers.SCMPTraceroute{Identifier: 4242, Sequence: 1}
		}
	} else {
		isError = true
		switch rapid.IntRange(0, 3).Draw(rt, "errKind") {
		case 0:
			hdr = &slayers.SCMP{TypeCode: slayers.CreateSCMPTypeCode(slayers.SCMPTypeDestinationUnreachable, slayers.SCMPCodeNoRoute)}
			msg = &slayers.SCMPDestinationUnreachable{}
		case 1:
			hdr = &slayers.SCMP{TypeCode: slayers.CreateSCMPTypeCode(slayers.SCMPTypeParameterProblem, slayers.SCMPCodeInvalidHopFieldMAC)}
			msg = &slayers.SCMPParameterProblem{Pointer: 40}
		case 2:
			hdr = &slayers.SCMP{TypeCode: slayers.CreateSCMPTypeCode(slayers.SCMPTypeExternalInterfaceDown, 0)}
			msg = &slayers.SCMPExternalInterfaceDown{IA: labNeighbor(5), IfID: 5}
		default:
			hdr = &slayers.SCMP{TypeCode: slayers.CreateSCMPTypeCode(slayers.SCMPTypePacketTooBig, 0)}
			msg = &slayers.SCMPPacketTooBig{MTU: 1200}
		}
	}
	hdr.SetNetworkLayerForChecksum(sc)
	ls = append(ls, hdr, msg, gopacket.Payload(k.opts.payload))
	buf := gopacket.NewSerializeBuffer()
	if err := gopacket.SerializeLayers(buf, gopacket.SerializeOptions{FixLengths: true, ComputeChecksums: true}, ls...); err != nil {
		return nil, false, false, err
	}
	return append([]byte{}, buf.Bytes()...), isError, behindExt, nil
}
