package rtr

import (
	"fmt"
	"testing"

	"pgregory.net/rapid"

	"github.com/scionproto/scion/pkg/addr"

	"verif/internal/evid"
	"verif/internal/netsim"
)

// ---------------------------------------------------------------------------------------------
// C04 — tampered hop or info fields prevent delivery.
// From every C02 path one MAC-protected value is altered (one bit of a hop field's ConsIngress,
// ConsEgress, ExpTime or MAC, or of an info field's Timestamp or SegID). Oracle (M): the walk never
// reaches the destination host, and it does not get past the AS that owns the first hop field whose
// MAC input depends on the altered value (hop-field values: that hop; Timestamp and the initial
// SegID: the first traversed hop of the segment).
// ---------------------------------------------------------------------------------------------

// asPositions maps every hop index of a path to the position (0-based) of the AS that processes it.
func asPositions(segLen [3]uint8, peering bool) []int {
	var pos []int
	p := 0
	h := 0
	for s := 0; s < 3; s++ {
		for i := 0; i < int(segLen[s]); i++ {
			if h > 0 {
				if i == 0 && !peering {
					// first hop after a regular cross-over: same AS as the previous hop
				} else {
					p++
				}
			}
			pos = append(pos, p)
			h++
		}
	}
	return pos
}

func TestC04(t *testing.T) {
	rec := evid.New("C04", "rapid: the C02 topologies and paths; per path one drawn single-bit change of a protected value (hop field ConsIngress/ConsEgress/ExpTime/MAC at a drawn hop, info field Timestamp/SegID of a drawn segment), "+
		"injected at the source. The walk through the real routers must not deliver, and must stop at or before the AS owning the first hop whose MAC input depends on the changed value. "+
		"Non-trivial: change lands after a cross-over, on a peering path, or in a segment traversed against construction direction.")
	defer rec.Flush(t)
	rec.Assume("6-byte MAC collisions (2^-48) ignored", "XOR-compensated SegID changes are not single-value changes and are not generated")
	rec.Require("field_consingress", "field_consegress", "field_exptime", "field_mac", "field_timestamp", "field_segid", "after_xover", "peering", "against_consdir", "answered_with_scmp")
	fields := []string{"consingress", "consegress", "exptime", "mac", "timestamp", "segid"}
	rapid.Check(t, func(rt *rapid.T) {
		n := buildNet(rt, false)
		defer n.Close()
		eachPath(rt, n, 12, func(pc pathCase) {
			raw := pc.raw
			field := rapid.SampledFrom(fields).Draw(rt, "field")
			peering := hasPeer(raw)
			pos := asPositions(raw.PathMeta.SegLen, peering)
			firstAffected := 0
			desc := ""
			segOf := func(h int) int {
				s := 0
				for h >= int(raw.PathMeta.SegLen[s]) {
					h -= int(raw.PathMeta.SegLen[s])
					s++
				}
				return s
			}
			var labels []string
			switch field {
			case "consingress", "consegress", "exptime", "mac":
				k := rapid.IntRange(0, raw.NumHops-1).Draw(rt, "hop")
				hf, _ := raw.GetHopField(k)
				switch field {
				case "consingress":
					b := rapid.IntRange(0, 15).Draw(rt, "bit")
					hf.ConsIngress ^= 1 << b
				case "consegress":
					b := rapid.IntRange(0, 15).Draw(rt, "bit")
					hf.ConsEgress ^= 1 << b
				case "exptime":
					b := rapid.IntRange(0, 7).Draw(rt, "bit")
					hf.ExpTime ^= 1 << b
				case "mac":
					b := rapid.IntRange(0, 47).Draw(rt, "bit")
					hf.Mac[b/8] ^= 1 << (b % 8)
				}
				_ = raw.SetHopField(hf, k)
				firstAffected = pos[k]
				desc = fmt.Sprintf("hop %d %s", k, field)
				inf, _ := raw.GetInfoField(segOf(k))
				if !inf.ConsDir {
					labels = append(labels, "against_consdir")
				}
				if segOf(k) > 0 {
					labels = append(labels, "after_xover")
				}
			default:
				s := rapid.IntRange(0, raw.NumINF-1).Draw(rt, "segment")
				inf, _ := raw.GetInfoField(s)
				if field == "timestamp" {
					inf.Timestamp ^= 1 << rapid.IntRange(0, 31).Draw(rt, "bit")
				} else {
					inf.SegID ^= 1 << rapid.IntRange(0, 15).Draw(rt, "bit")
				}
				_ = raw.SetInfoField(inf, s)
				first := 0
				for i := 0; i < s; i++ {
					first += int(raw.PathMeta.SegLen[i])
				}
				firstAffected = pos[first]
				desc = fmt.Sprintf("segment %d %s", s, field)
				if !inf.ConsDir {
					labels = append(labels, "against_consdir")
				}
				if s > 0 {
					labels = append(labels, "after_xover")
				}
			}
			if peering {
				labels = append(labels, "peering")
			}
			labels = append(labels, "field_"+field)
			o := netsim.DefaultOpts()
			b, err := netsim.BuildPacket(pc.src, pc.dst, raw, o)
			if err != nil {
				rt.Fatalf("build: %v", err)
			}
			w := n.Sim.Walk(pc.src, uint16(pc.p.Metadata.Interfaces[0].ID), srcUDP(o), b)
			if w.Delivered {
				rt.Fatalf("%s -> %s over %v: packet with altered %s was delivered to %s\n%s", pc.src, pc.dst, metaSeq(pc.p), desc, w.DeliverIA, dumpWalk(w))
			}
			// AS sequence along the path
			var ases []addr.IA
			ases = append(ases, pc.src)
			for i := 1; i < len(pc.p.Metadata.Interfaces); i += 2 {
				ases = append(ases, pc.p.Metadata.Interfaces[i].IA)
			}
			for _, st := range w.Steps {
				if st.Reply {
					continue
				}
				// position of this step's AS on the path (first occurrence at or after the previous position)
				idx := -1
				for i, ia := range ases {
					if ia == st.IA {
						idx = i
						break
					}
				}
				if idx > firstAffected {
					rt.Fatalf("%s -> %s over %v: packet with altered %s travelled to %s (AS position %d), past the first AS validating a dependent hop (position %d)\n%s",
						pc.src, pc.dst, metaSeq(pc.p), desc, st.IA, idx, firstAffected, dumpWalk(w))
				}
			}
			if w.SlowPath != nil {
				labels = append(labels, "answered_with_scmp")
			}
			nt := false
			for _, l := range labels {
				if l == "after_xover" || l == "peering" || l == "against_consdir" {
					nt = true
				}
			}
			rec.Case(nt, fmt.Sprint(metaSeq(pc.p), desc, b[len(b)-40:]), labels...)
			rec.Sample(func() any {
				return map[string]any{"src": pc.src.String(), "dst": pc.dst.String(), "interfaces": metaSeq(pc.p), "altered": desc, "stopped": w.Stopped, "steps": len(w.Steps)}
			})
		})
	})
}
