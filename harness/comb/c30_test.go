package comb

import (
	"context"
	"fmt"
	"net"
	"sort"
	"sync/atomic"
	"testing"
	"testing/synctest"
	"time"

	"pgregory.net/rapid"

	"github.com/scionproto/scion/pkg/addr"
	"github.com/scionproto/scion/pkg/private/ctrl/path_mgmt"
	seg "github.com/scionproto/scion/pkg/segment"
	"github.com/scionproto/scion/pkg/segment/iface"
	"github.com/scionproto/scion/pkg/snet"
	"github.com/scionproto/scion/private/revcache/memrevcache"
	"github.com/scionproto/scion/private/segment/segfetcher"
	sdb "github.com/scionproto/scion/private/storage/db"
	pathsql "github.com/scionproto/scion/private/storage/path/sqlite"
	"github.com/scionproto/scion/private/trust"

	"verif/internal/evid"
	"verif/internal/netsim"
)

// ---------------------------------------------------------------------------------------------
// C30 — paths handed to applications are live, unrevoked and end at the destination.
// Real Pather + MultiSegmentSplitter + Fetcher/DefaultResolver on an in-memory SQLite path database
// + real in-memory revocation cache, under a virtual clock. History: revocations (with TTLs, older
// and newer ones for the same interface), clock advances (segments and revocations expire), lookups
// for every kind of destination incl. the local AS and ISD wildcards.
// Oracle: every returned path starts at the local AS, ends at the destination (wildcard: a core AS
// of that ISD), expires in the future, crosses no interface with an active revocation (reference
// revocation model); local lookup = exactly one empty path; the requests of the splitter equal the
// reference table AND are sufficient: for a concrete destination the returned set of interface
// sequences equals the live, unrevoked part of the reference enumeration over ALL segments.
// ---------------------------------------------------------------------------------------------

func bubble(t *testing.T, f func()) {
	var pv any
	synctest.Test(t, func(t *testing.T) {
		defer func() {
			if r := recover(); r != nil {
				pv = r
			}
		}()
		f()
	})
	if pv != nil {
		panic(pv)
	}
}

// bubbleFail carries a verdict out of a synctest bubble: rapid's Fatalf must run on rapid's own
// goroutine, outside the bubble (inside it, shrinking does not reproduce reliably).
type bubbleFail string

func bubbleCheck(t *testing.T, rt *rapid.T, f func(fatalf func(string, ...any))) {
	var msg string
	failed := false
	bubble(t, func() {
		defer func() {
			if r := recover(); r != nil {
				if bf, ok := r.(bubbleFail); ok {
					msg, failed = string(bf), true
					return
				}
				panic(r)
			}
		}()
		f(func(format string, a ...any) { panic(bubbleFail(fmt.Sprintf(format, a...))) })
	})
	if failed {
		rt.Fatalf("%s", msg)
	}
}

type c30Local struct{}

func (c30Local) IsSegLocal(segfetcher.Request) bool { return true }

type c30NH struct{}

func (c30NH) UnderlayNextHop(uint16) *net.UDPAddr {
	return &net.UDPAddr{IP: net.IPv4(10, 0, 0, 1), Port: 30042}
}

type c30Inspector struct{ t netsim.Topo }

func (i c30Inspector) ByAttributes(_ context.Context, isd addr.ISD, _ trust.Attribute) ([]addr.IA, error) {
	var r []addr.IA
	for _, a := range i.t.ASes {
		if a.Core && a.IA.ISD() == isd {
			r = append(r, a.IA)
		}
	}
	return r, nil
}

func (i c30Inspector) HasAttributes(_ context.Context, ia addr.IA, _ trust.Attribute) (bool, error) {
	for _, a := range i.t.ASes {
		if a.IA == ia {
			return a.Core, nil
		}
	}
	return false, nil
}

// c30SlowResolver delays the resolution of the segment requests by a drawn (virtual) duration, as
// a slow or retried lookup at the path service would: segments may expire in the meantime.
type c30SlowResolver struct {
	inner segfetcher.Resolver
	delay *time.Duration
}

func (r c30SlowResolver) Resolve(ctx context.Context, reqs segfetcher.Requests, refresh bool) (segfetcher.Segments, segfetcher.Requests, error) {
	if *r.delay > 0 {
		time.Sleep(*r.delay)
	}
	return r.inner.Resolve(ctx, reqs, refresh)
}

type c30NoReq struct{}

func (c30NoReq) Request(context.Context, segfetcher.Requests) <-chan segfetcher.ReplyOrErr {
	c := make(chan segfetcher.ReplyOrErr)
	close(c)
	return c
}

var (
	c30Metrics = segfetcher.NewFetcherMetrics("verif_c30")
	c30Seq     atomic.Int64
)

// refRequests: the reference table of segment requests.
func refRequests(topo netsim.Topo, src addr.IA, srcCore bool, dst addr.IA) []string {
	wild := func(ia addr.IA) addr.IA { return addr.MustIAFrom(ia.ISD(), 0) }
	var coresOfISD []addr.IA
	dstCore := dst.IsWildcard()
	for _, a := range topo.ASes {
		if a.Core && a.IA.ISD() == src.ISD() {
			coresOfISD = append(coresOfISD, a.IA)
		}
		if a.IA == dst {
			dstCore = a.Core
		}
	}
	var single addr.IA
	if src.ISD() == dst.ISD() && len(coresOfISD) == 1 {
		single = coresOfISD[0]
	}
	r := func(t seg.Type, a, b addr.IA) string { return fmt.Sprintf("%s %s->%s", t, a, b) }
	var out []string
	switch {
	case !srcCore && !dstCore:
		if !single.IsZero() {
			out = []string{r(seg.TypeUp, src, single), r(seg.TypeDown, single, dst)}
		} else {
			out = []string{r(seg.TypeUp, src, wild(src)), r(seg.TypeCore, wild(src), wild(dst)), r(seg.TypeDown, wild(dst), dst)}
		}
	case !srcCore && dstCore:
		if (src.ISD() == dst.ISD() && dst.IsWildcard()) || (!single.IsZero() && single == dst) {
			out = []string{r(seg.TypeUp, src, dst)}
		} else {
			out = []string{r(seg.TypeUp, src, wild(src)), r(seg.TypeCore, wild(src), dst)}
		}
	case srcCore && !dstCore:
		if !single.IsZero() && single == src {
			out = []string{r(seg.TypeDown, src, dst)}
		} else {
			out = []string{r(seg.TypeCore, src, wild(dst)), r(seg.TypeDown, wild(dst), dst)}
		}
	default:
		out = []string{r(seg.TypeCore, src, dst)}
	}
	sort.Strings(out)
	return out
}

type c30Rev struct {
	ts, exp time.Time
}

func TestC30(t *testing.T) {
	rec := evid.New("C30", "rapid under testing/synctest: generated topology with synthesised up/core/down segments (random timestamps up to ~20 h old, per-hop expiries, so some segments are expired or expire during the history) in a SQLite path database; "+
		"history of 3-12 steps: revoke an interface (TTL 10-600 s, also older/newer revocations of an already revoked interface), advance the clock 1 s - 6 h, look up a destination (any AS incl. the local one, ISD wildcards of the local and a remote ISD). "+
		"Oracle: see header comment. Non-trivial: a lookup that returned paths while a revocation was active or a segment had expired.")
	defer rec.Flush(t)
	rec.Assume("all segments are available locally (no remote fetch); the path database holds one copy per hop sequence, the newest", "revocation cache: in-memory implementation")
	rec.Require("lookup_local", "lookup_wildcard_local_isd", "lookup_wildcard_remote_isd", "lookup_core_dst", "lookup_noncore_dst", "src_core", "src_noncore", "revocation_active", "revocation_expired", "revocation_superseded",
		"path_suppressed_by_revocation", "path_suppressed_by_expiry", "slow_fetch", "fetch_crosses_an_expiry", "older_revocation_after_newer", "paths_returned", "single_core_isd", "multi_core_isd")
	rapid.Check(t, func(rt *rapid.T) { bubbleCheck(t, rt, func(fatalf func(string, ...any)) { c30Case(rt, rec, fatalf) }) })
}

func c30Case(rt *rapid.T, rec *evid.Rec, fatalf func(string, ...any)) {
	ctx := context.Background()
	time.Sleep(250 * time.Millisecond) // keep the clock off the whole and half seconds expiries fall on
	w := genWorldAt(rt, true, 70000, true)
	topo := w.topo
	labels := map[string]bool{}
	si := rapid.IntRange(0, len(topo.ASes)-1).Draw(rt, "src")
	if rapid.Bool().Draw(rt, "preferNonCoreSrc") {
		for d := 0; d < len(topo.ASes); d++ {
			if !topo.ASes[(si+d)%len(topo.ASes)].Core {
				si = (si + d) % len(topo.ASes)
				break
			}
		}
	}
	src := topo.ASes[si]
	if src.Core {
		labels["src_core"] = true
	} else {
		labels["src_noncore"] = true
	}
	db, err := pathsql.New(fmt.Sprintf("c30_%d", c30Seq.Add(1)), &sdb.SqliteConfig{InMemory: true})
	if err != nil {
		fatalf("harness: %v", err)
	}
	defer db.Close()
	// one copy per hop sequence, as the database keeps them: a second segment with the same hops
	// replaces the stored one only if its last AS entry was signed later; all synthesised entries are
	// signed at the same (virtual) instant, so the first one stays
	newest := func(in []*seg.PathSegment) []*seg.PathSegment {
		seen := map[string]bool{}
		var out []*seg.PathSegment
		for _, s := range in {
			if k := string(s.ID()); !seen[k] {
				seen[k] = true
				out = append(out, s)
			}
		}
		return out
	}
	downsAll, coresAll := newest(w.downs), newest(w.cores)
	for _, s := range downsAll {
		// segments ending at the local AS are its up segments, all others are down segments
		ty := seg.TypeDown
		if s.ASEntries[len(s.ASEntries)-1].Local == src.IA {
			ty = seg.TypeUp
		}
		if _, err := db.Insert(ctx, &seg.Meta{Segment: s, Type: ty}); err != nil {
			fatalf("harness: insert: %v", err)
		}
	}
	for _, s := range coresAll {
		if _, err := db.Insert(ctx, &seg.Meta{Segment: s, Type: seg.TypeCore}); err != nil {
			fatalf("harness: insert: %v", err)
		}
	}
	rc := memrevcache.New()
	var fetchDelay time.Duration
	splitter := &segfetcher.MultiSegmentSplitter{LocalIA: src.IA, Core: src.Core, Inspector: c30Inspector{topo}}
	p := &segfetcher.Pather{IA: src.IA, MTU: src.MTU, NextHopper: c30NH{}, RevCache: rc,
		Fetcher:  &segfetcher.Fetcher{Resolver: c30SlowResolver{segfetcher.NewResolver(db, rc, c30Local{}), &fetchDelay}, Requester: c30NoReq{}, PathDB: db, QueryInterval: time.Minute, Metrics: c30Metrics},
		Splitter: splitter}
	revs := map[snet.PathInterface]c30Rev{}
	active := func(i snet.PathInterface) bool {
		r, ok := revs[i]
		return ok && time.Now().Before(r.exp)
	}
	var allIfs []snet.PathInterface
	for _, a := range topo.ASes {
		for _, ifc := range a.Ifs {
			allIfs = append(allIfs, snet.PathInterface{IA: a.IA, ID: iface.ID(ifc.ID)})
		}
	}
	nCoreISD := map[addr.ISD]int{}
	isCore := map[addr.IA]bool{}
	for _, a := range topo.ASes {
		if a.Core {
			nCoreISD[a.IA.ISD()]++
			isCore[a.IA] = true
		}
	}
	if nCoreISD[src.IA.ISD()] == 1 {
		labels["single_core_isd"] = true
	} else {
		labels["multi_core_isd"] = true
	}
	var history []string
	nontrivial := false
	steps := rapid.IntRange(3, 12).Draw(rt, "steps")
	for st := 0; st < steps; st++ {
		switch rapid.SampledFrom([]string{"lookup", "lookup", "lookup", "revoke", "revoke_out_of_order", "advance"}).Draw(rt, "step") {
		case "revoke":
			if len(allIfs) == 0 {
				continue
			}
			i := allIfs[rapid.IntRange(0, len(allIfs)-1).Draw(rt, "revokedInterface")]
			ts := time.Now().Add(-time.Duration(rapid.IntRange(0, 30).Draw(rt, "revAge")) * time.Second).Truncate(time.Second)
			ttl := rapid.IntRange(10, 600).Draw(rt, "revTTL")
			ri := &path_mgmt.RevInfo{IfID: i.ID, RawIsdas: i.IA, RawTimestamp: uint32(ts.Unix()), RawTTL: uint32(ttl)}
			if _, err := rc.Insert(ctx, ri); err != nil {
				fatalf("harness: %v", err)
			}
			exp := ts.Add(time.Duration(ttl) * time.Second)
			if exp.After(time.Now()) {
				if old, ok := revs[i]; !ok || !time.Now().Before(old.exp) || ts.After(old.ts) {
					if ok && time.Now().Before(old.exp) {
						labels["revocation_superseded"] = true
					}
					revs[i] = c30Rev{ts, exp}
				}
			}
			history = append(history, fmt.Sprintf("revoke %s ts=-%v ttl=%ds", i, time.Since(ts), ttl))
		case "revoke_out_of_order":
			// an older, shorter-lived revocation of an interface arrives after a newer one: it must
			// not replace it; then the clock moves past the older one's end
			var act []snet.PathInterface
			for _, i := range allIfs {
				if active(i) {
					act = append(act, i)
				}
			}
			if len(act) == 0 {
				continue
			}
			i := act[rapid.IntRange(0, len(act)-1).Draw(rt, "reRevoked")]
			ts := revs[i].ts.Add(-time.Duration(rapid.IntRange(1, 20).Draw(rt, "olderBy")) * time.Second)
			ttl := rapid.IntRange(10, 40).Draw(rt, "olderTTL")
			if _, err := rc.Insert(ctx, &path_mgmt.RevInfo{IfID: i.ID, RawIsdas: i.IA, RawTimestamp: uint32(ts.Unix()), RawTTL: uint32(ttl)}); err != nil {
				fatalf("harness: %v", err)
			}
			labels["older_revocation_after_newer"] = true
			history = append(history, fmt.Sprintf("older revocation of %s (ts -%v, ttl %ds) after the active one", i, time.Since(ts), ttl))
			if rapid.Bool().Draw(rt, "waitPastOlder") {
				// whole seconds only: the clock keeps its quarter-second offset from the instants on which
				// revocations and segments expire
				d := time.Until(ts.Add(time.Duration(ttl)*time.Second)).Truncate(time.Second) + 3*time.Second
				if d > 0 && time.Now().Add(d).Before(revs[i].exp) {
					time.Sleep(d)
					history = append(history, fmt.Sprintf("advance %v", d))
				}
			}
		case "advance":
			d := time.Duration(rapid.OneOf(rapid.IntRange(1, 700), rapid.IntRange(600, 21600)).Draw(rt, "advanceSeconds")) * time.Second
			time.Sleep(d)
			history = append(history, fmt.Sprintf("advance %v", d))
		case "lookup":
			var dst addr.IA
			switch rapid.IntRange(0, 9).Draw(rt, "dstKind") {
			case 0:
				dst = src.IA
				labels["lookup_local"] = true
			case 1:
				dst = addr.MustIAFrom(src.IA.ISD(), 0)
				labels["lookup_wildcard_local_isd"] = true
			case 2:
				d := topo.ASes[rapid.IntRange(0, len(topo.ASes)-1).Draw(rt, "wildISD")].IA.ISD()
				dst = addr.MustIAFrom(d, 0)
				if d != src.IA.ISD() {
					labels["lookup_wildcard_remote_isd"] = true
				}
			default:
				dst = topo.ASes[rapid.IntRange(0, len(topo.ASes)-1).Draw(rt, "dst")].IA
			}
			fetchDelay = 0
			if rapid.IntRange(0, 3).Draw(rt, "slowFetch") == 0 {
				fetchDelay = time.Duration(rapid.OneOf(rapid.IntRange(1, 30), rapid.IntRange(30, 1200)).Draw(rt, "fetchSeconds")) * time.Second
				labels["slow_fetch"] = true
				// half of the slow fetches are aimed: they end shortly after the next segment expiry
				if rapid.Bool().Draw(rt, "fetchCrossesAnExpiry") {
					var next time.Time
					for _, sg := range append(append([]*seg.PathSegment{}, downsAll...), coresAll...) {
						if e := sg.MinExpiry(); e.After(time.Now()) && (next.IsZero() || e.Before(next)) {
							next = e
						}
					}
					if !next.IsZero() {
						fetchDelay = time.Until(next).Truncate(time.Second) + time.Duration(rapid.IntRange(1, 30).Draw(rt, "afterExpiry"))*time.Second
						labels["fetch_crosses_an_expiry"] = true
					}
				}
			}
			// the paths are judged at the moment they are handed out
			now := time.Now().Add(fetchDelay)
			desc := fmt.Sprintf("lookup %s->%s (fetch takes %v) after %v", src.IA, dst, fetchDelay, history)
			// ---- requests
			if dst != src.IA {
				reqs, err := splitter.Split(ctx, dst)
				if err != nil {
					fatalf("split: %v (%s)", err, desc)
				}
				var got []string
				for _, r := range reqs {
					got = append(got, fmt.Sprintf("%s %s->%s", r.SegType, r.Src, r.Dst))
				}
				sort.Strings(got)
				if want := refRequests(topo, src.IA, src.Core, dst); fmt.Sprint(got) != fmt.Sprint(want) {
					fatalf("segment requests %v, required %v (%s)", got, want, desc)
				}
			}
			paths, err := p.GetPaths(ctx, dst, rapid.Bool().Draw(rt, "refresh"))
			if dst == src.IA {
				if err != nil || len(paths) != 1 || len(paths[0].Metadata().Interfaces) != 0 || !paths[0].Metadata().Expiry.After(now) {
					fatalf("lookup for the local AS returned %d paths (err %v), expected exactly one empty, unexpired path", len(paths), err)
				}
				history = append(history, "lookup local")
				continue
			}
			if err != nil {
				fatalf("lookup failed: %v (%s)", err, desc)
			}
			got := map[string]bool{}
			for _, pa := range paths {
				md := pa.Metadata()
				if len(md.Interfaces) == 0 {
					fatalf("empty path returned for a remote destination (%s)", desc)
				}
				first, last := md.Interfaces[0].IA, md.Interfaces[len(md.Interfaces)-1].IA
				if first != src.IA || pa.Source() != src.IA {
					fatalf("path starts at %s / %s, not at the local AS: %s (%s)", first, pa.Source(), ifKey(md.Interfaces), desc)
				}
				if dst.IsWildcard() {
					if last.ISD() != dst.ISD() || !isCore[last] {
						fatalf("path for wildcard %s ends at %s, which is not a core AS of that ISD: %s (%s)", dst, last, ifKey(md.Interfaces), desc)
					}
				} else if last != dst {
					fatalf("path ends at %s, requested %s: %s (%s)", last, dst, ifKey(md.Interfaces), desc)
				}
				if pa.Destination() != last {
					fatalf("path object names destination %s, interfaces end at %s", pa.Destination(), last)
				}
				if !md.Expiry.After(now) {
					fatalf("expired path returned: expiry %v, now %v: %s (%s)", md.Expiry, now, ifKey(md.Interfaces), desc)
				}
				for _, i := range md.Interfaces {
					if active(i) {
						fatalf("path crosses %s, which has an active revocation (until %v, now %v): %s (%s)", i, revs[i].exp, now, ifKey(md.Interfaces), desc)
					}
				}
				got[ifKey(md.Interfaces)] = true
				labels["paths_returned"] = true
			}
			// ---- sufficiency for concrete destinations
			if !dst.IsWildcard() {
				var ups []*seg.PathSegment
				for _, s := range downsAll {
					if s.ASEntries[len(s.ASEntries)-1].Local == src.IA {
						ups = append(ups, s)
					}
				}
				want := map[string]bool{}
				live := map[string]bool{}
				for _, c := range enumerate(src.IA, dst, ups, coresAll, downsAll) {
					if tooLong(c.ifs) {
						continue
					}
					k := ifKey(c.ifs)
					if c.expiry.After(now) {
						live[k] = true
					} else if !live[k] {
						live[k] = false
					}
				}
				for k, l := range live {
					if !l {
						labels["path_suppressed_by_expiry"] = true
						nontrivial = nontrivial || len(paths) > 0
						continue
					}
					want[k] = true
				}
				for _, c := range enumerate(src.IA, dst, ups, coresAll, downsAll) {
					k := ifKey(c.ifs)
					if !want[k] {
						continue
					}
					for _, i := range c.ifs {
						if active(i) {
							delete(want, k)
							labels["path_suppressed_by_revocation"] = true
							nontrivial = nontrivial || len(paths) > 0
							break
						}
					}
				}
				for _, k := range sortedBoolKeys(want) {
					if !got[k] {
						fatalf("live, unrevoked path not returned: %s (returned %d paths) (%s)", k, len(paths), desc)
					}
				}
				for _, k := range sortedBoolKeys(got) {
					if !want[k] {
						fatalf("returned path is not a live, unrevoked combination of the stored segments: %s (%s)", k, desc)
					}
				}
				if isCore[dst] {
					labels["lookup_core_dst"] = true
				} else {
					labels["lookup_noncore_dst"] = true
				}
			}
			history = append(history, fmt.Sprintf("lookup %s: %d paths", dst, len(paths)))
		}
		for i, r := range revs {
			_ = i
			if time.Now().Before(r.exp) {
				labels["revocation_active"] = true
			} else {
				labels["revocation_expired"] = true
			}
		}
	}
	rec.Case(nontrivial, fmt.Sprint(src.IA, history), keysOf(labels)...)
	rec.Sample(func() any { return map[string]any{"src": src.IA.String(), "history": history} })
}

func sortedBoolKeys(m map[string]bool) []string {
	var out []string
	for k := range m {
		out = append(out, k)
	}
	sort.Strings(out)
	return out
}
