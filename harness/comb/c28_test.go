package comb

import (
	"fmt"
	"testing"

	"pgregory.net/rapid"

	"github.com/scionproto/scion/pkg/addr"
	"github.com/scionproto/scion/pkg/slayers/path/scion"
	"github.com/scionproto/scion/private/path/combinator"

	"verif/internal/evid"
)

func rawKey(raw []byte) (string, error) {
	var d scion.Decoded
	if err := d.DecodeFromBytes(raw); err != nil {
		return "", err
	}
	if d.PathMeta.CurrHF != 0 || d.PathMeta.CurrINF != 0 {
		return "", fmt.Errorf("path pointers not at the start: %+v", d.PathMeta)
	}
	s, h := "", 0
	for i := 0; i < d.NumINF; i++ {
		inf := d.InfoFields[i]
		s += fmt.Sprintf("[%d %v %v %04x:", inf.Timestamp, inf.ConsDir, inf.Peer, inf.SegID)
		for k := 0; k < int(d.PathMeta.SegLen[i]); k++ {
			hf := d.HopFields[h]
			h++
			s += fmt.Sprintf(" %d/%d/%d/%x", hf.ConsIngress, hf.ConsEgress, hf.ExpTime, hf.Mac)
		}
		s += "]"
	}
	if h != d.NumHops {
		return "", fmt.Errorf("segment lengths %v do not add up to %d hop fields", d.PathMeta.SegLen, d.NumHops)
	}
	return s, nil
}

type combCase struct {
	w                 *world
	src, dst          addr.IA
	cands             []*cand
	out, outAll       []combinator.Path
	nUps, nCores, nDn int
}

func genCase(rt *rapid.T) *combCase {
	perturb := rapid.Bool().Draw(rt, "perturb")
	w := genWorld(rt, perturb)
	n := len(w.topo.ASes)
	if n < 2 {
		rt.Skip("single AS")
	}
	idx := make([]int, 0, n)
	if rapid.IntRange(0, 2).Draw(rt, "anyKind") != 0 {
		// prefer non-core endpoints: shortcuts and peering paths only exist between them
		for i, a := range w.topo.ASes {
			if !a.Core {
				idx = append(idx, i)
			}
		}
	}
	if len(idx) < 2 {
		idx = idx[:0]
		for i := range w.topo.ASes {
			idx = append(idx, i)
		}
	}
	si := rapid.IntRange(0, len(idx)-1).Draw(rt, "src")
	di := rapid.IntRange(0, len(idx)-2).Draw(rt, "dst")
	if di >= si {
		di++
	}
	si, di = idx[si], idx[di]
	// a third of the cases: endpoints below a common non-core AS, if the topology has such a pair
	if rapid.IntRange(0, 2).Draw(rt, "wantShortcut") == 0 {
		type pr struct{ a, b addr.IA }
		var prs []pr
		for _, u := range w.downs {
			for _, d := range w.downs {
				lu, ld := u.ASEntries[len(u.ASEntries)-1].Local, d.ASEntries[len(d.ASEntries)-1].Local
				if lu == ld {
					continue
				}
				for i := 1; i < len(u.ASEntries)-1; i++ {
					for j := 1; j < len(d.ASEntries)-1; j++ {
						if u.ASEntries[i].Local == d.ASEntries[j].Local && len(prs) < 50 {
							prs = append(prs, pr{lu, ld})
						}
					}
				}
			}
		}
		if len(prs) > 0 {
			x := prs[rapid.IntRange(0, len(prs)-1).Draw(rt, "shortcutPair")]
			for i, a := range w.topo.ASes {
				if a.IA == x.a {
					si = i
				}
				if a.IA == x.b {
					di = i
				}
			}
		}
	}
	c := &combCase{w: w, src: w.topo.ASes[si].IA, dst: w.topo.ASes[di].IA}
	ups, cores, downs := w.segsFor(rt, c.src, c.dst)
	c.nUps, c.nCores, c.nDn = len(ups), len(cores), len(downs)
	c.cands = enumerate(c.src, c.dst, ups, cores, downs)
	c.out = combinator.Combine(c.src, c.dst, ups, cores, downs, false)
	c.outAll = combinator.Combine(c.src, c.dst, ups, cores, downs, true)
	return c
}

func kindLabels(cs []*cand, into map[string]bool) {
	for _, c := range cs {
		into["kind_"+c.kind] = true
	}
}

// ---------------------------------------------------------------------------------------------
// C28 — every returned path is one of the reference combinations (segment order, lengths, info and
// hop fields from the input segments), its metadata lists exactly the traversed interfaces, no AS
// has more than two interface crossings, expiry = earliest hop-field expiry, MTU = minimum of the
// internal and link MTUs on the traversed part; without "identical paths" no two share an interface
// sequence and the one kept has the latest expiry; ordered by non-decreasing weight.
// ---------------------------------------------------------------------------------------------
func TestC28(t *testing.T) {
	rec := evid.New("C28", "rapid: generated topology (1-2 ISDs, parallel links, second parents, peering links); all construction-direction chains synthesised as registered segments with drawn timestamps; half of the cases perturbed "+
		"(per-hop and per-peer-entry ExpTime, entry MTUs, duplicates of the same chain with other timestamps, peer entries not announced by one side); random src/dst pair of any kinds; subsets of segments supplied. "+
		"Oracle: reference enumeration of segment combinations with independently computed interface list, expiry and MTU. Non-trivial: >= 2 returned paths or a peering/shortcut path.")
	defer rec.Flush(t)
	rec.Assume("MACs are random (the combinator does not verify them)", "'passes no AS more than twice' is read as: no AS has more than two of its interfaces crossed")
	rec.Require("kind_up_down", "kind_shortcut", "kind_peering", "kind_up_core_down", "kind_core", "kind_core_down", "kind_up_core", "kind_up_onpath", "kind_down_onpath", "duplicates_collapsed", "long_path_filtered", "no_path", "as_number_shared_across_isds")
	rapid.Check(t, func(rt *rapid.T) {
		c := genCase(rt)
		labels := map[string]bool{}
		byPath := map[string]*cand{}
		groupMax := map[string]*cand{}
		groupN := map[string]int{}
		for _, x := range c.cands {
			byPath[x.pathKey()] = x
			if tooLong(x.ifs) {
				labels["long_path_filtered"] = true
				continue
			}
			k := ifKey(x.ifs)
			groupN[k]++
			if g, ok := groupMax[k]; !ok || x.expiry.After(g.expiry) {
				groupMax[k] = x
			}
		}
		for _, n := range groupN {
			if n > 1 {
				labels["duplicates_collapsed"] = true
			}
		}
		desc := fmt.Sprintf("%s->%s ups=%d cores=%d downs=%d candidates=%d returned=%d", c.src, c.dst, c.nUps, c.nCores, c.nDn, len(c.cands), len(c.out))
		check := func(p combinator.Path, what string) *cand {
			rk, err := rawKey(p.SCIONPath.Raw)
			if err != nil {
				rt.Fatalf("%s: dataplane path is malformed: %v (%s)", what, err, desc)
			}
			x, ok := byPath[rk]
			if !ok {
				rt.Fatalf("%s: path is not a combination of at most one up, one core and one down segment (in that order) with info and hop fields from the input segments: %s (%s)", what, rk, desc)
			}
			if got, want := ifKey(p.Metadata.Interfaces), ifKey(x.ifs); got != want {
				rt.Fatalf("%s: metadata lists interfaces %s, the hop fields traverse %s (%s)", what, got, want, desc)
			}
			if tooLong(p.Metadata.Interfaces) {
				rt.Fatalf("%s: an AS has more than two interface crossings: %s (%s)", what, ifKey(p.Metadata.Interfaces), desc)
			}
			if !p.Metadata.Expiry.Equal(x.expiry) {
				rt.Fatalf("%s: reported expiry %v, earliest hop-field expiry %v; path %s (%s)", what, p.Metadata.Expiry, x.expiry, rk, desc)
			}
			if int(p.Metadata.MTU) != x.mtu {
				rt.Fatalf("%s: reported MTU %d, minimum internal/link MTU on the traversed part %d; path %s kind %s (%s)", what, p.Metadata.MTU, x.mtu, ifKey(x.ifs), x.kind, desc)
			}
			labels["kind_"+x.kind] = true
			return x
		}
		seen := map[string]bool{}
		prevW := 0
		for i, p := range c.out {
			x := check(p, fmt.Sprintf("path %d", i))
			k := ifKey(x.ifs)
			if seen[k] {
				rt.Fatalf("two returned paths share the interface sequence %s (%s)", k, desc)
			}
			seen[k] = true
			if g := groupMax[k]; !x.expiry.Equal(g.expiry) {
				rt.Fatalf("of the paths with interface sequence %s the one kept expires %v, another one expires later (%v) (%s)", k, x.expiry, g.expiry, desc)
			}
			if x.weight < prevW {
				rt.Fatalf("paths not ordered by non-decreasing weight: path %d has %d links after one with %d (%s)", i, x.weight, prevW, desc)
			}
			prevW = x.weight
		}
		prevW = 0
		for i, p := range c.outAll {
			x := check(p, fmt.Sprintf("path %d (identical paths requested)", i))
			if x.weight < prevW {
				var ws []string
				for _, q := range c.outAll {
					rk, _ := rawKey(q.SCIONPath.Raw)
					ws = append(ws, fmt.Sprintf("w=%d ref=%d %s %s\n", q.Weight, byPath[rk].weight, byPath[rk].kind, rk))
				}
				rt.Fatalf("paths (identical requested) not ordered by non-decreasing weight: %v (%s)", ws, desc)
			}
			prevW = x.weight
		}
		if c.w != nil && len(c.out) == 0 {
			labels["no_path"] = true
		}
		if len(c.cands) > 0 && len(c.out) > 0 {
			// perturbed flag for the distribution
		}
		if c.w.sharedASNumber && len(c.out) > 0 {
			labels["as_number_shared_across_isds"] = true
		}
		nt := len(c.out) >= 2 || labels["kind_peering"] || labels["kind_shortcut"]
		rec.Case(nt, desc+fmt.Sprint(len(c.outAll)), keysOf(labels)...)
		rec.Sample(func() any {
			var ks []string
			for _, p := range c.out {
				ks = append(ks, ifKey(p.Metadata.Interfaces))
			}
			return map[string]any{"case": desc, "paths": ks}
		})
	})
}

func keysOf(m map[string]bool) []string {
	var out []string
	for k := range m {
		out = append(out, k)
	}
	return out
}

// ---------------------------------------------------------------------------------------------
// C29 — completeness: every interface sequence of the reference enumeration (unless some AS has more
// than two interface crossings) is returned.
// ---------------------------------------------------------------------------------------------
func TestC29(t *testing.T) {
	rec := evid.New("C29", "rapid: same generator as C28 (topologies with shortcuts, peering links announced by both or by one side only, parallel links, on-path sources and destinations). "+
		"Oracle: the set of interface sequences of the reference enumeration minus those with an AS crossed at more than two interfaces is a subset of the returned set; with identical paths requested every reference combination is returned. "+
		"Non-trivial: the reference set holds >= 2 distinct interface sequences or a peering/shortcut combination.")
	defer rec.Flush(t)
	rec.Assume("'passes some AS more than twice' is read as: some AS has more than two of its interfaces crossed")
	rec.Require("kind_up_down", "kind_shortcut", "kind_peering", "kind_up_core_down", "kind_core", "kind_core_down", "kind_up_core", "kind_up_onpath", "kind_down_onpath", "peering_one_sided", "empty_reference")
	rapid.Check(t, func(rt *rapid.T) {
		c := genCase(rt)
		labels := map[string]bool{}
		got := map[string]bool{}
		for _, p := range c.out {
			got[ifKey(p.Metadata.Interfaces)] = true
		}
		gotAll := map[string]int{}
		for _, p := range c.outAll {
			k, err := rawKey(p.SCIONPath.Raw)
			if err != nil {
				rt.Fatalf("malformed path: %v", err)
			}
			gotAll[k]++
		}
		desc := fmt.Sprintf("%s->%s ups=%d cores=%d downs=%d candidates=%d returned=%d", c.src, c.dst, c.nUps, c.nCores, c.nDn, len(c.cands), len(c.out))
		want := map[string]bool{}
		for _, x := range c.cands {
			if tooLong(x.ifs) {
				continue
			}
			labels["kind_"+x.kind] = true
			k := ifKey(x.ifs)
			want[k] = true
			if !got[k] {
				rt.Fatalf("combination not returned: %s path %s (%s)", x.kind, k, desc)
			}
			if gotAll[x.pathKey()] == 0 {
				rt.Fatalf("with identical paths requested, combination not returned: %s %s (%s)", x.kind, x.pathKey(), desc)
			}
		}
		if len(want) == 0 {
			labels["empty_reference"] = true
		}
		// one-sided peering announcements exist in this case?
		for _, s := range c.w.downs {
			for _, e := range s.ASEntries {
				n := 0
				for _, ifc := range c.w.byIA[e.Local].Ifs {
					if ifc.LinkTo.String() == "peer" {
						n++
					}
				}
				if n > len(e.PeerEntries) {
					labels["peering_one_sided"] = true
				}
			}
		}
		rec.Case(len(want) >= 2 || labels["kind_peering"] || labels["kind_shortcut"], desc, keysOf(labels)...)
		rec.Sample(func() any {
			var ks []string
			for k := range want {
				ks = append(ks, k)
			}
			return map[string]any{"case": desc, "reference_paths": len(want), "example": ks[:min(len(ks), 2)]}
		})
	})
}
