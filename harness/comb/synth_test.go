package comb

import (
	"context"
	"crypto/elliptic"
	"encoding/binary"
	"fmt"
	"sort"
	"time"

	"pgregory.net/rapid"

	"github.com/scionproto/scion/pkg/addr"
	seg "github.com/scionproto/scion/pkg/segment"
	"github.com/scionproto/scion/pkg/segment/iface"
	"github.com/scionproto/scion/pkg/slayers/path"
	"github.com/scionproto/scion/pkg/snet"
	"github.com/scionproto/scion/private/topology"

	"github.com/scionproto/scion/pkg/scrypto/cppki"
	"github.com/scionproto/scion/pkg/scrypto/signed"
	"github.com/scionproto/scion/private/trust"

	"verif/internal/netsim"
	"verif/internal/pki"
)

func synthSigner() trust.Signer {
	return trust.Signer{PrivateKey: pki.Key(elliptic.P256(), 2000), Algorithm: signed.ECDSAWithSHA256, IA: addr.MustParseIA("1-ff00:0:1"), SubjectKeyID: []byte("synth"),
		Expiration: time.Now().Add(10000 * time.Hour), TRCID: cppki.TRCID{ISD: 1, Base: 1, Serial: 1}}
}

// ---------------------------------------------------------------------------------------------
// Segment synthesis: all construction-direction chains of a generated topology, as the segments
// beaconing would register (hop entries, peer entries for every peering interface), with drawn
// timestamps, per-hop and per-peer-entry expiry, MTUs and duplicates. MACs are random: the
// combinator never verifies them (forwarding of combined paths is decided by C01/C02/C22).
// ---------------------------------------------------------------------------------------------

type world struct {
	sharedASNumber bool // two ASes in different ISDs carry the same AS number
	topo           netsim.Topo
	byIA           map[addr.IA]*netsim.ASSpec
	downs          []*seg.PathSegment // core -> leaf chains (every chain is an up segment of its last AS and a down segment to it)
	cores          []*seg.PathSegment
}

func (w *world) link(a *netsim.ASSpec, ifc netsim.IfSpec) *netsim.ASSpec { return w.byIA[ifc.Remote] }

func genWorld(rt *rapid.T, perturb bool) *world { return genWorldAt(rt, perturb, 3000, false) }

// genWorldAt: segment ages up to maxAge seconds.
// signedEntries: AS entries carry a signed body (needed to store the segments in a path database).
func genWorldAt(rt *rapid.T, perturb bool, maxAge int, signedEntries bool) *world {
	w := &world{topo: netsim.GenTopo(rt), byIA: map[addr.IA]*netsim.ASSpec{}}
	// AS numbers are only unique within an ISD: sometimes give an AS of ISD 2 the number of an AS of ISD 1
	if rapid.IntRange(0, 3).Draw(rt, "sharedASNumber") == 0 {
		var in1, in2 []int
		for i, a := range w.topo.ASes {
			if a.IA.ISD() == 1 {
				in1 = append(in1, i)
			} else {
				in2 = append(in2, i)
			}
		}
		if len(in1) > 0 && len(in2) > 0 {
			a := w.topo.ASes[in1[rapid.IntRange(0, len(in1)-1).Draw(rt, "sharedFrom")]].IA
			bi := in2[rapid.IntRange(0, len(in2)-1).Draw(rt, "sharedTo")]
			oldIA, newIA := w.topo.ASes[bi].IA, addr.MustIAFrom(2, a.AS())
			taken := false
			for _, x := range w.topo.ASes {
				taken = taken || x.IA == newIA
			}
			if !taken {
				w.topo.ASes[bi].IA = newIA
				for i := range w.topo.ASes {
					for j := range w.topo.ASes[i].Ifs {
						if w.topo.ASes[i].Ifs[j].Remote == oldIA {
							w.topo.ASes[i].Ifs[j].Remote = newIA
						}
					}
				}
				w.sharedASNumber = true
			}
		}
	}
	for i := range w.topo.ASes {
		w.byIA[w.topo.ASes[i].IA] = &w.topo.ASes[i]
	}
	now := time.Now().Truncate(time.Second)
	mkSeg := func(chain []*netsim.ASSpec, via []netsim.IfSpec) *seg.PathSegment {
		// via[k] = interface of chain[k] towards chain[k+1]
		ts := now.Add(-time.Duration(rapid.IntRange(0, maxAge).Draw(rt, "segAge")) * time.Second)
		ps, err := seg.CreateSegment(ts, rapid.Uint16().Draw(rt, "segID"))
		if err != nil {
			panic(err)
		}
		baseExp := uint8(rapid.IntRange(20, 255).Draw(rt, "exp"))
		for k, a := range chain {
			exp := baseExp
			if perturb {
				exp = uint8(rapid.IntRange(20, 255).Draw(rt, "hopExp"))
			}
			e := seg.ASEntry{Local: a.IA, MTU: int(a.MTU)}
			hf := seg.HopField{ExpTime: exp}
			copy(hf.MAC[:], rapid.SliceOfN(rapid.Byte(), 6, 6).Draw(rt, "mac"))
			if k > 0 {
				hf.ConsIngress = via[k-1].RemoteID
				e.HopEntry.IngressMTU = int(via[k-1].MTU)
			}
			if k < len(chain)-1 {
				hf.ConsEgress = via[k].ID
				e.Next = chain[k+1].IA
			}
			e.HopEntry.HopField = hf
			for _, ifc := range a.Ifs {
				if ifc.LinkTo != topology.Peer {
					continue
				}
				if perturb && rapid.IntRange(0, 5).Draw(rt, "peerNotAnnounced") == 0 {
					continue
				}
				pexp := exp
				if perturb {
					pexp = uint8(rapid.IntRange(20, 255).Draw(rt, "peerExp"))
				}
				pe := seg.PeerEntry{Peer: ifc.Remote, PeerInterface: ifc.RemoteID, PeerMTU: int(ifc.MTU),
					HopField: seg.HopField{ExpTime: pexp, ConsIngress: ifc.ID, ConsEgress: hf.ConsEgress}}
				copy(pe.HopField.MAC[:], rapid.SliceOfN(rapid.Byte(), 6, 6).Draw(rt, "peerMac"))
				e.PeerEntries = append(e.PeerEntries, pe)
			}
			if perturb && rapid.IntRange(0, 3).Draw(rt, "perturbMTU") == 0 {
				e.MTU = rapid.IntRange(1000, 1600).Draw(rt, "entryMTU")
			}
			if signedEntries {
				if err := ps.AddASEntry(context.Background(), e, synthSigner()); err != nil {
					panic(err)
				}
			} else {
				ps.ASEntries = append(ps.ASEntries, e)
			}
		}
		return ps
	}
	// down chains by DFS along child links
	var dfs func(chain []*netsim.ASSpec, via []netsim.IfSpec)
	dfs = func(chain []*netsim.ASSpec, via []netsim.IfSpec) {
		if len(chain) >= 2 && len(w.downs) < 60 {
			w.downs = append(w.downs, mkSeg(chain, via))
			if perturb && rapid.IntRange(0, 4).Draw(rt, "duplicate") == 0 {
				w.downs = append(w.downs, mkSeg(chain, via)) // same hops, other timestamp / expiry
			}
		}
		if len(chain) >= 5 {
			return
		}
		last := chain[len(chain)-1]
		for _, ifc := range last.Ifs {
			if ifc.LinkTo != topology.Child {
				continue
			}
			nxt := w.byIA[ifc.Remote]
			seen := false
			for _, c := range chain {
				if c == nxt {
					seen = true
				}
			}
			if seen {
				continue
			}
			dfs(append(append([]*netsim.ASSpec{}, chain...), nxt), append(append([]netsim.IfSpec{}, via...), ifc))
		}
	}
	var cdfs func(chain []*netsim.ASSpec, via []netsim.IfSpec)
	cdfs = func(chain []*netsim.ASSpec, via []netsim.IfSpec) {
		if len(chain) >= 2 && len(w.cores) < 40 {
			w.cores = append(w.cores, mkSeg(chain, via))
			if perturb && rapid.IntRange(0, 4).Draw(rt, "duplicateCore") == 0 {
				w.cores = append(w.cores, mkSeg(chain, via))
			}
		}
		if len(chain) >= 4 {
			return
		}
		last := chain[len(chain)-1]
		for _, ifc := range last.Ifs {
			if ifc.LinkTo != topology.Core {
				continue
			}
			nxt := w.byIA[ifc.Remote]
			seen := false
			for _, c := range chain {
				if c == nxt {
					seen = true
				}
			}
			if seen {
				continue
			}
			cdfs(append(append([]*netsim.ASSpec{}, chain...), nxt), append(append([]netsim.IfSpec{}, via...), ifc))
		}
	}
	for i := range w.topo.ASes {
		if w.topo.ASes[i].Core {
			dfs([]*netsim.ASSpec{&w.topo.ASes[i]}, nil)
			cdfs([]*netsim.ASSpec{&w.topo.ASes[i]}, nil)
		}
	}
	return w
}

// segsFor: the up segments of src, the down segments of dst, all core segments (optionally thinned).
func (w *world) segsFor(rt *rapid.T, src, dst addr.IA) (ups, cores, downs []*seg.PathSegment) {
	for _, s := range w.downs {
		last := s.ASEntries[len(s.ASEntries)-1].Local
		if last == src && rapid.IntRange(0, 7).Draw(rt, "dropUp") != 0 {
			ups = append(ups, s)
		}
		if last == dst && rapid.IntRange(0, 7).Draw(rt, "dropDown") != 0 {
			downs = append(downs, s)
		}
	}
	for _, s := range w.cores {
		if rapid.IntRange(0, 7).Draw(rt, "dropCore") != 0 {
			cores = append(cores, s)
		}
	}
	return
}

// ---------------------------------------------------------------------------------------------
// Reference enumeration of segment combinations, written from the specification of segment
// combination (not from the graph algorithm): pick a cut index (and optionally a peer entry) in an
// up segment and in a down segment, optionally one core segment, join where the ASes (or the two
// ends of a peering link announced by both) coincide.
// ---------------------------------------------------------------------------------------------

type part struct {
	ifs    []snet.PathInterface // travel order
	hops   []path.HopField      // travel order
	info   path.InfoField
	minExp time.Time
	mtu    int
	links  int
}

func betas(ps *seg.PathSegment) []uint16 {
	b := []uint16{ps.Info.SegmentID}
	for _, e := range ps.ASEntries {
		b = append(b, b[len(b)-1]^binary.BigEndian.Uint16(e.HopEntry.HopField.MAC[:2]))
	}
	return b
}

// partOf: the part of ps from entry idx to its last entry. peer > 0 selects peer entry peer-1 of
// entry idx instead of its regular hop entry. consDir false = travelled from the last entry towards idx.
func partOf(ps *seg.PathSegment, idx, peer int, consDir bool) part {
	p := part{mtu: 1 << 30, minExp: time.Unix(1<<40, 0)}
	n := len(ps.ASEntries)
	b := betas(ps)
	for k := idx; k < n; k++ {
		e := ps.ASEntries[k]
		hf := e.HopEntry.HopField
		if k == idx && peer > 0 {
			pe := e.PeerEntries[peer-1]
			hf = pe.HopField
			p.mtu = min(p.mtu, pe.PeerMTU)
			p.ifs = append(p.ifs, snet.PathInterface{IA: e.Local, ID: iface.ID(hf.ConsIngress)})
			p.links++
		} else if k > idx {
			p.mtu = min(p.mtu, e.HopEntry.IngressMTU)
			p.ifs = append(p.ifs, snet.PathInterface{IA: e.Local, ID: iface.ID(hf.ConsIngress)})
			p.links++
		}
		if hf.ConsEgress != 0 {
			p.ifs = append(p.ifs, snet.PathInterface{IA: e.Local, ID: iface.ID(hf.ConsEgress)})
		}
		p.mtu = min(p.mtu, e.MTU)
		p.hops = append(p.hops, path.HopField{ExpTime: hf.ExpTime, ConsIngress: hf.ConsIngress, ConsEgress: hf.ConsEgress, Mac: hf.MAC})
		if x := ps.Info.Timestamp.Add(path.ExpTimeToDuration(hf.ExpTime)); x.Before(p.minExp) {
			p.minExp = x
		}
	}
	p.info = path.InfoField{Timestamp: uint32(ps.Info.Timestamp.Unix()), ConsDir: consDir, Peer: peer > 0}
	if consDir {
		p.info.SegID = b[idx]
		if peer > 0 {
			p.info.SegID = b[idx+1]
		}
	} else {
		p.info.SegID = b[n-1]
		if peer > 0 && idx == n-1 {
			p.info.SegID = b[n]
		}
		for i, j := 0, len(p.ifs)-1; i < j; i, j = i+1, j-1 {
			p.ifs[i], p.ifs[j] = p.ifs[j], p.ifs[i]
		}
		for i, j := 0, len(p.hops)-1; i < j; i, j = i+1, j-1 {
			p.hops[i], p.hops[j] = p.hops[j], p.hops[i]
		}
	}
	return p
}

type cand struct {
	parts  []part
	ifs    []snet.PathInterface
	expiry time.Time
	mtu    int
	weight int
	kind   string
}

func (c *cand) finish() {
	c.mtu, c.expiry = 1<<30, time.Unix(1<<40, 0)
	for _, p := range c.parts {
		c.ifs = append(c.ifs, p.ifs...)
		c.mtu = min(c.mtu, p.mtu)
		if p.minExp.Before(c.expiry) {
			c.expiry = p.minExp
		}
	}
	c.weight = len(c.ifs) / 2 // every inter-AS link contributes its two interface ids
}

func ifKey(ifs []snet.PathInterface) string {
	s := ""
	for _, i := range ifs {
		s += fmt.Sprintf("%s#%d ", i.IA, i.ID)
	}
	return s
}

func (c *cand) pathKey() string {
	s := ""
	for _, p := range c.parts {
		s += fmt.Sprintf("[%d %v %v %04x:", p.info.Timestamp, p.info.ConsDir, p.info.Peer, p.info.SegID)
		for _, h := range p.hops {
			s += fmt.Sprintf(" %d/%d/%d/%x", h.ConsIngress, h.ConsEgress, h.ExpTime, h.Mac)
		}
		s += "]"
	}
	return s
}

// tooLong: some AS has more than two of its interfaces crossed.
func tooLong(ifs []snet.PathInterface) bool {
	n := map[addr.IA]int{}
	for _, i := range ifs {
		n[i.IA]++
		if n[i.IA] > 2 {
			return true
		}
	}
	return false
}

type cut struct {
	ps   *seg.PathSegment
	idx  int
	peer int
	at   addr.IA
}

func cuts(ps *seg.PathSegment) []cut {
	var out []cut
	n := len(ps.ASEntries)
	for i := 0; i < n; i++ {
		if i < n-1 {
			out = append(out, cut{ps, i, 0, ps.ASEntries[i].Local})
		}
		for p := range ps.ASEntries[i].PeerEntries {
			out = append(out, cut{ps, i, p + 1, ps.ASEntries[i].Local})
		}
	}
	return out
}

func enumerate(src, dst addr.IA, ups, cores, downs []*seg.PathSegment) []*cand {
	var out []*cand
	add := func(kind string, parts ...part) {
		c := &cand{parts: parts, kind: kind}
		c.finish()
		out = append(out, c)
	}
	var upCuts, downCuts []cut
	for _, u := range ups {
		if u.ASEntries[len(u.ASEntries)-1].Local == src {
			upCuts = append(upCuts, cuts(u)...)
		}
	}
	for _, d := range downs {
		if d.ASEntries[len(d.ASEntries)-1].Local == dst {
			downCuts = append(downCuts, cuts(d)...)
		}
	}
	first := func(c *seg.PathSegment) addr.IA { return c.ASEntries[0].Local }
	last := func(c *seg.PathSegment) addr.IA { return c.ASEntries[len(c.ASEntries)-1].Local }
	for _, u := range upCuts {
		if u.peer == 0 && u.at == dst {
			add(map[bool]string{true: "up", false: "up_onpath"}[u.idx == 0], partOf(u.ps, u.idx, 0, false))
		}
		for _, d := range downCuts {
			switch {
			case u.peer == 0 && d.peer == 0 && u.at == d.at:
				k := "up_down"
				if u.idx > 0 || d.idx > 0 {
					k = "shortcut"
				}
				add(k, partOf(u.ps, u.idx, 0, false), partOf(d.ps, d.idx, 0, true))
			case u.peer > 0 && d.peer > 0:
				p, q := u.ps.ASEntries[u.idx].PeerEntries[u.peer-1], d.ps.ASEntries[d.idx].PeerEntries[d.peer-1]
				if p.Peer == d.at && q.Peer == u.at && p.PeerInterface == q.HopField.ConsIngress && q.PeerInterface == p.HopField.ConsIngress {
					add("peering", partOf(u.ps, u.idx, u.peer, false), partOf(d.ps, d.idx, d.peer, true))
				}
			}
		}
		if u.peer == 0 {
			for _, c := range cores {
				if last(c) != u.at {
					continue
				}
				if first(c) == dst {
					add("up_core", partOf(u.ps, u.idx, 0, false), partOf(c, 0, 0, false))
				}
				for _, d := range downCuts {
					if d.peer == 0 && d.at == first(c) {
						add("up_core_down", partOf(u.ps, u.idx, 0, false), partOf(c, 0, 0, false), partOf(d.ps, d.idx, 0, true))
					}
				}
			}
		}
	}
	for _, d := range downCuts {
		if d.peer == 0 && d.at == src {
			add(map[bool]string{true: "down", false: "down_onpath"}[d.idx == 0], partOf(d.ps, d.idx, 0, true))
		}
	}
	for _, c := range cores {
		if last(c) != src {
			continue
		}
		if first(c) == dst {
			add("core", partOf(c, 0, 0, false))
		}
		for _, d := range downCuts {
			if d.peer == 0 && d.at == first(c) {
				add("core_down", partOf(c, 0, 0, false), partOf(d.ps, d.idx, 0, true))
			}
		}
	}
	sort.SliceStable(out, func(i, j int) bool { return out[i].weight < out[j].weight })
	return out
}
